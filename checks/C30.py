"""C30 -- Memory exhaustion at any allocation raises a catchable error."""
import json
from vlib import core

META = {
    "level": "proof",
    "text": ("Coq theorems: (1) alloc_failure_atomic (mirror of heap.rs, proved in C33): a heap operation that reports an allocation failure wrote nothing and did not move the "
             "length, for every operation, fill level and allocator behaviour; (2) resource_error_term_survives: for every sequence of allocations (successful or failed), choice "
             "points, queries and backtracking the pre-allocated error(resource_error(memory), []) term at the bottom of the heap is intact, so the throw needs no memory (the "
             "Example shows the unrepaired run_query stub violated it). Tied to the code by (a) driving the real Heap with injected growth failures through a hook and comparing "
             "(byte_len, byte_cap, ok) after every operation with the mirror, (b) fault injection in whole goals: for nine workloads and EVERY growth request k the k-th growth fails; "
             "catch/3 must receive resource_error(memory) and follow-up goals and a rerun of the workload must be correct."),
    "note": ("PARTIAL: that every Rust call site propagates AllocError instead of unwrapping it is checked only by the fault injection (differential), as is the state of the machine "
             "after the throw. Only Heap growth (InnerHeap::grow, which serves the term heap, the findall heap and ball stubs) is injected; arena, stack, atom table and bignum "
             "allocations are not. Trusted: Coq kernel + vm_compute; hooks heap_growth_should_fail / VHeap; harness."),
    "technique": "Coq proofs (failed operation is atomic; pre-allocated error term survives every history) + fault injection at every heap-growth request through a hook",
    "coq_targets": ["C30/Props.vo"], "coq_dirs": ["C30", "C33"], "props": "C30/Props.v",
    "trusted_base": ["Coq 8.16.1 kernel, vm_compute", "src/verif_hooks.rs growth-failure injector and VHeap", "harness vrun (steps with \"growth\": [from, count]; heap mode op F)"],
    "assumptions": ["a failing realloc leaves the old block valid (as the global allocator contract says)"],
}
IMPORTS = "From V Require Import C33.Model C30.Model."

PROG = r""":- use_module(library(lists)).
:- use_module(library(between)).
:- use_module(library(charsio)).
:- dynamic(big/1).
w_numlist :- numlist(1, 250000, L), L = [_|_].
w_copy :- numlist(1, 120000, L), copy_term(L, L2), L2 = [_|_].
w_findall :- findall(X, between(1, 250000, X), L), L = [_|_].
w_assert :- numlist(1, 8000, L), ( between(1, 30, I), assertz(big(I-L)), fail ; true ), findall(K, big(K-_), Ks), length(Ks, 30), retractall(big(_)).
w_string :- numlist(1, 150000, Ns), maplist(int_char, Ns, Cs), atom_chars(A, Cs), atom_length(A, 150000).
w_codes :- X is 7^200000, number_codes(X, Cs), Cs = [_|_].
w_sort :- numlist(1, 120000, L), reverse(L, R), sort(R, S), S = [1|_].
w_length :- length(L, 400000), L = [_|_].
w_read :- numlist(1, 60000, Ns), maplist(int_char, Ns, Cs0), append("f(\"", Cs0, Cs1), append(Cs1, "\").", Cs), read_from_chars(Cs, T), T = f(_).
int_char(N, C) :- M is 97 + N mod 26, char_code(C, M).
"""
WORKLOADS = ["w_numlist", "w_copy", "w_findall", "w_assert", "w_string", "w_codes", "w_sort", "w_length", "w_read"]
FOLLOW = [("X is 6*7.", ("X", "42")), ("findall(Y, member(Y,[a,b,c]), L), length(L, N).", ("N", "3")), ("atom_length(abcde, N).", ("N", "5")),
          ("numlist(1, 50, L), sum_list(L, S).", ("S", "1275"))]


def binding(ans, var):
    if ans and isinstance(ans[0], dict) and "b" in ans[0]:
        t = ans[0]["b"].get(var)
        if t is not None:
            return t.get("i") or t.get("a") or json.dumps(t)
    return None


def run(ctx):
    rng = ctx.rng
    failures, tie_breaks = [], []
    # ---- (a) real Heap under injected growth failures vs the mirror
    import importlib
    c33 = importlib.import_module("checks.C33")
    cases = []
    n = ctx.scale(1500, 40000)
    while len(cases) < n:
        cap, ops, coq, tight = c33.gen_seq(rng)
        if not ops: continue
        frm, cnt = rng.choice([0, 0, 1, 2, 3]), rng.choice([1, 1, 2, 50])
        # truncation after a failed op makes the generator's own length bookkeeping wrong: keep only append-style ops
        keep = [(o, c) for o, c in zip(ops, coq) if o[0] in "PSCR"]
        if not keep: continue
        ops2 = ["F%d,%d" % (frm, cnt)] + [o for o, _ in keep]
        cases.append((cap, frm, cnt, ops2, [c for _, c in keep]))
    lines = ["%d\t%d\t%s" % (i, c[0], ";".join(c[3])) for i, c in enumerate(cases)]
    res, crashed = core.vrun_mode(ctx.prop, "heap", lines)
    for c in crashed: tie_breaks.append({"kind": "harness", "what": "vrun heap process died", "detail": c})
    bools, idx = [], []
    injected = 0
    for i, (cap, frm, cnt, ops, coq) in enumerate(cases):
        out = res.get(str(i))
        inp = "cap_cells=%d ops=%s" % (cap, ";".join(ops))
        if out is None or out.startswith("panic:"):
            failures.append({"key": "alloc-failure:heap-op-panic", "what": "a heap operation panicked under an injected growth failure", "input": inp, "impl": str(out), "spec": "AllocError", "property_fails": True})
            continue
        obs = []
        parts = out.split(";")[1:]
        failed = False
        prev = None
        for part in parts:
            l, c, v = part.split(",", 2)
            ok = v != "0"
            if not ok:
                failed = True
                if prev is not None and prev != l:
                    failures.append({"key": "alloc-failure:length-moved", "what": "a heap operation that reported an allocation failure changed byte_len", "input": inp, "impl": out, "spec": "byte_len unchanged", "property_fails": True})
            if int(l) > int(c):
                failures.append({"key": "alloc-failure:len-exceeds-cap", "what": "byte_len exceeds byte_cap", "input": inp, "impl": out, "spec": "", "property_fails": True})
            prev = l
            obs.append("(%s, %s, %s)" % (l, c, "true" if ok else "false"))
        if failed: injected += 1
        bools.append("check_trace_fail %d %d %d [%s] [%s]" % (cap, frm, cnt, "; ".join(coq), "; ".join(obs))); idx.append(i)
    bad, errs = core.coq_eval_bools(ctx.prop, IMPORTS, bools, chunk=400)
    for _, t in errs: tie_breaks.append({"kind": "coq-eval", "what": "model evaluation shard failed", "detail": t})
    for j in bad[:5]:
        i = idx[j]
        tie_breaks.append({"kind": "correspondence", "what": "heap accounting under an injected growth failure differs from the mirror", "key": "alloc-failure:accounting-differs",
                           "detail": {"input": "cap_cells=%d ops=%s" % (cases[i][0], ";".join(cases[i][3])), "impl": res.get(str(i))}})

    # ---- (b) whole goals: count the growth requests of each workload, then fail each one
    base = [{"id": "len_%s" % w, "fresh": True, "timeout_ms": 120000, "steps": [{"consult": PROG}, {"q": "catch((%s, R = done), error(Err, _), R = caught(Err))." % w}]} for w in WORKLOADS]
    r0 = core.vrun_query(ctx.prop, base, tag="len")
    ks = {}
    for w in WORKLOADS:
        rec = r0.get("len_%s" % w, {})
        ans = (rec.get("results") or [None, None])[1]
        if binding(ans, "R") != "done":
            tie_breaks.append({"kind": "harness", "what": "workload %s does not complete without injection" % w, "detail": json.dumps(rec)[:300]})
            continue
        ks[w] = (rec.get("counters") or [[0, 0], [0, 0]])[1][0]
    jobs, plan = [], {}
    for w, K in ks.items():
        for k in range(K):
            for mode, cnt in (("once", 1), ("persistent", 1000000000)):
                if mode == "persistent" and not (ctx.thorough or k == K - 1): continue
                f = rng.choice(FOLLOW)
                jid = "%s_%d_%s" % (w, k, mode)
                jobs.append({"id": jid, "fresh": True, "timeout_ms": 120000,
                             "steps": [{"consult": PROG}, {"q": "catch((%s, R = done), error(Err, _), R = caught(Err))." % w, "growth": [k, cnt]},
                                       {"q": f[0]}, {"q": "catch((%s, R = done), error(Err, _), R = caught(Err))." % w}]})
                plan[jid] = (w, k, mode, f)
    res2 = core.vrun_query(ctx.prop, jobs, tag="inj")
    evals = len(bools)
    nontriv = injected
    dist = {"growth_requests": ks, "heap_sequences_with_a_failed_growth": injected}
    samples = []
    for jid, (w, k, mode, f) in plan.items():
        rec = res2.get(jid, {})
        rs = rec.get("results") or []
        evals += 1; nontriv += 1
        a1 = rs[1] if len(rs) > 1 else None
        got = binding(a1, "R")
        inp = "catch((%s, R = done), error(Err,_), R = caught(Err)) with growth request %d failing (%s)" % (w, k, mode)
        if len(samples) < 5: samples.append({"goal": inp, "answer": json.dumps(a1)[:160]})
        if got is None or "resource_error" not in got:
            msg = json.dumps(a1 if a1 is not None else rec)
            if "panic" in msg or "crash" in rec or "hang" in rec:
                key = "alloc-failure:persistent-double-fault-panic" if (mode == "persistent" and "while attempting to throw" in msg) else "alloc-failure:panic:%s" % w
            elif got == "done":
                continue   # the failed request was retried successfully or was not needed: the goal completed, nothing to catch
            else:
                key = "alloc-failure:wrong-outcome:%s" % w
            failures.append({"key": key, "what": "a failed heap growth did not surface as a catchable resource_error(memory)", "input": inp, "impl": msg[:300],
                             "spec": "R = caught(resource_error(memory))", "property_fails": True})
            continue
        if mode == "once":
            a2 = rs[2] if len(rs) > 2 else None
            if binding(a2, f[1][0]) != f[1][1]:
                failures.append({"key": "alloc-failure:follow-up-wrong", "what": "a goal run after the handled resource error gives a wrong answer", "input": "%s after %s" % (f[0], inp),
                                 "impl": json.dumps(a2)[:300], "spec": "%s = %s" % f[1], "property_fails": True})
            a3 = rs[3] if len(rs) > 3 else None
            if binding(a3, "R") != "done":
                failures.append({"key": "alloc-failure:rerun-wrong:%s" % w, "what": "the workload does not complete when rerun after the handled resource error", "input": inp,
                                 "impl": json.dumps(a3)[:300], "spec": "R = done", "property_fails": True})
    # (c) requests no memory can satisfy: the size arithmetic in front of the allocation must itself end in the catchable error
    #     (sizes around every power of two at which cells*8, cells*2 or the byte count wrap), and the machine must stay usable
    huge = []
    for e in (60, 61, 62, 63, 64):
        for d in (-1, 0, 1):
            huge.append((1 << e) + d)
    hq = []
    for n in huge:
        hq.append(("length(L, %d)" % n, "length"))
        hq.append(("length(L0, 2), append(L0, T, L), length(L, %d)" % n, "length-partial"))
    chained = []
    for i in range(0, len(hq), 6):
        steps = [{"consult": PROG}]
        for j in range(i, min(i + 6, len(hq))):
            f = FOLLOW[j % len(FOLLOW)]
            steps += [{"q": "catch((%s, R = done), error(Err, _), R = caught(Err))." % hq[j][0]}, {"q": f[0]}]
        chained.append({"id": "huge%d" % i, "fresh": True, "timeout_ms": 20000, "steps": steps})
    res3 = core.vrun_query(ctx.prop, chained, tag="huge")
    dist["huge_requests"] = len(hq)
    for i in range(0, len(hq), 6):
        rec = res3.get("huge%d" % i, {})
        rs = rec.get("results") or []
        for j in range(i, min(i + 6, len(hq))):
            k = 1 + 2 * (j - i)
            a1 = rs[k] if len(rs) > k else None
            a2 = rs[k + 1] if len(rs) > k + 1 else None
            f = FOLLOW[j % len(FOLLOW)]
            evals += 1; nontriv += 1
            got = binding(a1, "R")
            inp = "catch((%s, R = done), error(Err,_), R = caught(Err))" % hq[j][0]
            if got is None or "resource_error" not in got:
                failures.append({"key": "alloc-failure:unsatisfiable-request:%s" % hq[j][1], "what": "a request for more memory than can exist did not surface as a catchable resource_error(memory)",
                                 "input": inp, "impl": json.dumps(a1 if a1 is not None else rec)[:300], "spec": "R = caught(resource_error(memory))", "property_fails": True})
                break
            if binding(a2, f[1][0]) != f[1][1]:
                failures.append({"key": "alloc-failure:follow-up-wrong", "what": "a goal run after the handled resource error gives a wrong answer", "input": "%s after %s" % (f[0], inp),
                                 "impl": json.dumps(a2)[:300], "spec": "%s = %s" % f[1], "property_fails": True})
                break
    return {"evaluations": evals, "distinct_nontrivial": nontriv,
            "rule": ("(a) heap operation sequences from the C33 generator (push_cell, allocate_pstr/cstr, reserve at steered fill levels) on the real Heap with growth requests from..from+count failing, "
                     "compared with the mirror after every operation; (b) nine whole-goal workloads (numlist, copy_term, findall, assertz/retract, atom_chars, number_codes of a bignum, sort, length/2, "
                     "read_from_chars), each on a fresh machine with its k-th heap-growth request failing once, for EVERY k the workload makes (and persistently for the last k), then a follow-up goal "
                     "and an uninjected rerun; (c) length/2 with sizes 2^60..2^64 (+-1), on a fresh and on a partial list, six per machine with follow-up goals. Non-trivial = heap sequence in which a growth failed + every whole-goal injection."),
            "samples": samples, "distribution": dist, "failures": failures, "tie_breaks": tie_breaks}
