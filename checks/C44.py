"""C44 -- Prolog flags read back what was set."""
import json, re, time
from vlib import core, terms

META = {
    "level": "proof",
    "text": ("Coq theorems over a reference model of the flag table (coq/C44): enumeration = lookup (on the state and on the predicate), "
             "set_prolog_flag succeeds exactly when afterwards the flag has the value and otherwise leaves the state unchanged, read-only flags "
             "are invariant over every history (induction over the operation list), the ISO error table in order, stored values stay in their "
             "domains, and the double_quotes / occurs_check / unknown flags determine the probe results. The model is tied to builtins.pl + "
             "system_calls.rs differentially: every flag x value x argument mode on a fresh machine, plus random histories of reads, writes "
             "(valid and invalid) and behavioural probes, each step compared inside Coq (check_step) with the model."),
    "note": ("Reference model, not an impl-mirror: the Prolog clauses of current_prolog_flag/2 and set_prolog_flag/2 and the Rust flag storage are "
             "covered only by the differential part. A refused write of a read-only flag may fail (scryer's documentation) or raise ISO's "
             "permission_error(modify,flag,F); both are accepted. Values in the correspondence are ground or a plain variable (no partial lists, no "
             "partially instantiated write options); the error raised for X = f(X) under occurs_check=error is compared by class only. "
             "No axioms."),
    "technique": ("Coq proof (enumerate_equals_lookup, set_succeeds_iff_then_holds, readonly_unchanged, errors, ...) over a reference model + "
                  "differential correspondence evaluated in Coq"),
    "design_ref": "DESIGN.md section 8, C44",
    "coq_targets": ["C44/Props.vo"],
    "coq_dirs": ["C44"],
    "props": "C44/Props.v",
    "trusted_base": ["Coq 8.16.1 kernel, vm_compute", "harness vrun + tools/vlib (queries, JSON terms)",
                     "the reference model coq/C44/Model.v as the reading of the flag documentation and ISO 8.17",
                     "Python generator and observation encoder in checks/C44.py"],
    "assumptions": ["flag values given to the predicates are ground terms or variables",
                    "a fresh Machine starts with the documented default flag values (checked by the first enumeration of every history)"],
}

IMPORTS = "From V Require Import Base.Term C44.Model."

A = lambda s: ("atom", s)
I = lambda n: ("int", n)
C = lambda f, *a: ("cmp", f, list(a))
L = terms.mklist

FLAGS = ["max_arity", "bounded", "integer_rounding_function", "double_quotes", "unknown", "max_integer", "min_integer",
         "occurs_check", "answer_write_options"]
# classification only (failure keys, distribution); the oracle is the Coq model
DOMAIN = {
    "max_arity": lambda v: v[0] == "int", "max_integer": lambda v: v[0] == "int", "min_integer": lambda v: v[0] == "int",
    "bounded": lambda v: v in (A("true"), A("false")),
    "integer_rounding_function": lambda v: v in (A("toward_zero"), A("down")),
    "double_quotes": lambda v: v in (A("chars"), A("codes"), A("atom")),
    "unknown": lambda v: v in (A("error"), A("fail"), A("warning")),
    "occurs_check": lambda v: v in (A("true"), A("false"), A("error")),
    "answer_write_options": lambda v: v in GOOD_OPTS,
}
GOOD_OPTS = [L([]), L([C("max_depth", I(3))]), L([C("quoted", A("true"))]), L([C("quoted", A("true")), C("max_depth", I(0))]),
             L([C("variable_names", L([C("=", A("X"), I(1))]))]), L([C("ignore_ops", A("false")), C("numbervars", A("true")), C("double_quotes", A("true"))])]
BAD_OPTS = [L([A("foo")]), L([C("max_depth", I(-1))]), L([C("quoted", A("maybe"))]), L([A("a"), A("b")]),
            L([C("variable_names", L([A("x")]))]), L([C("max_depth", I(3)), C("frob", I(1))])]
NEAR = {
    "max_arity": [I(255), I(3), I(0), I(256), I(-1), A("foo")],
    "bounded": [A("true"), A("false"), A("maybe"), I(1)],
    "integer_rounding_function": [A("toward_zero"), A("down"), A("up"), I(0)],
    "double_quotes": [A("chars"), A("codes"), A("atom"), A("string"), I(1)],
    "unknown": [A("error"), A("fail"), A("warning"), A("warn"), A("true")],
    "max_integer": [I(0), I(1 << 62), I(-1), A("inf")],
    "min_integer": [I(0), I(-(1 << 62)), A("inf")],
    "occurs_check": [A("true"), A("false"), A("error"), A("fail"), A("on")],
    "answer_write_options": GOOD_OPTS + BAD_OPTS,
}
DEFAULT = {"max_arity": I(255), "bounded": A("false"), "integer_rounding_function": A("toward_zero"), "double_quotes": A("chars"),
           "unknown": A("error"), "occurs_check": A("false"), "answer_write_options": L([])}
VPOOL = [A(x) for x in ("true", "false", "error", "fail", "warning", "chars", "codes", "atom", "toward_zero", "down", "foo", "on", "")] + \
        [I(255), I(0), I(3), I(-1), I(256), terms.flt(1.5), C("f", A("x")), C("+", A("bounded"), A("true"))] + GOOD_OPTS[:4] + BAD_OPTS[:3]
BAD_FLAG_ATOMS = [A("foo"), A("max_arit"), A("Unknown"), A("[]"), A("debug"), A("")]
NON_ATOM_FLAGS = [I(1), C("f", A("x")), terms.mkstring("dq"), terms.flt(1.5), C("double_quotes", A("codes"))]
VAR = ("var", "_")
PROBE_TEXTS = ["ab", "x", "abc", "b a", "hello"]


def tt(t, varname):
    """query text of an argument: a variable gets the given name"""
    return varname if t[0] == "var" else terms.arg_text(t)


def op_queries(op):
    k = op[0]
    if k == "read":
        f, v = tt(op[1], "F"), tt(op[2], "V")
        return ["catch(findall('-'(%s,%s), current_prolog_flag(%s,%s), L), error(E,_), true)." % (f, v, f, v)]
    if k == "write":
        f, v = tt(op[1], "F"), tt(op[2], "V")
        return ["catch((set_prolog_flag(%s,%s) -> R = succ ; R = fail), error(E,_), true)." % (f, v)]
    s = op[1]
    return ['X = "%s".' % s,
            "atom_chars('\"%s\". ', Cs), read_from_chars(Cs, T)." % s,
            "catch((\\+ X = f(X) -> R = failed ; R = unified), error(E,_), true).",
            "catch((\\+ unify_with_occurs_check(X, f(X)) -> R = failed ; R = unified), error(E,_), true).",
            "catch((c44_undefined_zz(1) -> R = succeeded ; R = failed), error(E,_), true)."]


def cq(t):
    """Coq text of a ground term, names as string literals (parsed much faster than code-point lists)"""
    k = t[0]
    if k == "atom":
        return '(A "%s")' % t[1].replace('"', '""') if t[1].isascii() and t[1].isprintable() else terms.to_coq(t)
    if k == "cmp":
        if not (t[1].isascii() and t[1].isprintable()):
            return "(Cmp %s [%s])" % (terms.coq_name(t[1]), "; ".join(cq(x) for x in t[2]))
        return '(Cmp (nm "%s") [%s])' % (t[1].replace('"', '""'), "; ".join(cq(x) for x in t[2]))
    return terms.to_coq(t)


def op_coq(op):
    def t(x):
        return "(Var 0%N)" if x[0] == "var" else cq(x)
    if op[0] == "read":
        return "ORead %s %s" % (t(op[1]), t(op[2]))
    if op[0] == "write":
        return "OWrite %s %s" % (t(op[1]), t(op[2]))
    return 'OProbe (nm "%s")' % op[1]


def op_text(op):
    return " ".join(op_queries(op))


# ---------------------------------------------------------------- observations -> Coq
def ground_coq(t):
    if terms.term_vars(t):
        raise ValueError("non-ground")
    return cq(t)


def single(ans):
    """the single solution's bindings of a deterministic catch/3-wrapped query, else None"""
    a = terms.answers(ans)
    sols = [x for x in a if x[0] == "sol"]
    if len(sols) == 1 and all(x[0] in ("sol", "false", "true") for x in a):
        return sols[0][1]
    return None


def bound(b, name):
    return name in b and b[name][0] != "var"


def encode_obs(op, results):
    """(coq iobs text, short display text)"""
    try:
        if op[0] == "read":
            b = single(results[0])
            if b is None:
                return "IOther", "unexpected answers: " + json.dumps(results[0])[:200]
            if bound(b, "E"):
                return "(IErr %s)" % ground_coq(b["E"]), "error: " + terms.to_prolog(b["E"])
            items, tail = terms.list_view(b["L"])
            if tail != terms.NIL:
                return "IOther", "not a list"
            pairs = []
            for it in items:
                if it[0] != "cmp" or it[1] != "-" or len(it[2]) != 2:
                    return "IOther", "unexpected element"
                pairs.append("(%s, %s)" % (ground_coq(it[2][0]), ground_coq(it[2][1])))
            return ("(IRead [%s])" % "; ".join(pairs), "answers: " + terms.to_prolog(b["L"]),
                    [it[2][0][1] for it in items if it[2][0][0] == "atom"])
        if op[0] == "write":
            b = single(results[0])
            if b is None:
                return "IOther", "unexpected answers: " + json.dumps(results[0])[:200]
            if bound(b, "E"):
                return "(IErr %s)" % ground_coq(b["E"]), "error: " + terms.to_prolog(b["E"])
            if b.get("R") == A("succ"):
                return "(IWrite true)", "succeeds"
            if b.get("R") == A("fail"):
                return "(IWrite false)", "fails"
            return "IOther", "unexpected " + json.dumps(results[0])[:200]
        # probe
        bs = [single(r) for r in results[:5]]
        if len(bs) < 5 or any(b is None for b in bs):
            return "IOther", "unexpected probe answers: " + json.dumps(results)[:300]
        rq, rc = bs[0]["X"], bs[1]["T"]
        if bound(bs[2], "E"):
            u, ut = "URaises", "raises " + terms.to_prolog(bs[2]["E"])
        elif bs[2].get("R") == A("unified"):
            u, ut = "UUnified", "unifies"
        elif bs[2].get("R") == A("failed"):
            u, ut = "UFailed", "fails"
        else:
            return "IOther", "unexpected unify probe"
        uoc = "true" if (not bound(bs[3], "E") and bs[3].get("R") == A("failed")) else "false"
        if bound(bs[4], "E"):
            c, ct = "(Some %s)" % ground_coq(bs[4]["E"]), "raises " + terms.to_prolog(bs[4]["E"])
        elif bs[4].get("R") == A("failed"):
            c, ct = "None", "fails"
        else:
            return "IOther", "undefined predicate call succeeded?"
        return ("(IProbe %s %s %s %s %s)" % (ground_coq(rq), ground_coq(rc), u, uoc, c),
                "\"..\" reads as %s / %s; X=f(X) %s; unify_with_occurs_check fails=%s; undefined call %s" % (
                    terms.to_prolog(rq), terms.to_prolog(rc), ut, uoc, ct))
    except (ValueError, KeyError, IndexError, TypeError) as e:
        return "IOther", "unencodable observation (%s): %s" % (e, json.dumps(results)[:300])


# ---------------------------------------------------------------- generator
def follow_ups(rng, f, v):
    """after every write: does the written value hold, the full enumeration, the lookup of the flag, the probes"""
    out = []
    if f[0] != "var" and v[0] != "var":
        out.append(("read", f, v))
    out.append(("read", VAR, VAR))
    if f[0] == "atom":
        out.append(("read", f, VAR))
    if f[0] == "atom" and f[1] in DEFAULT:
        # a stale or always-true value: the default and another candidate value, flag given and flag enumerated
        for w in (DEFAULT[f[1]], rng.choice(NEAR[f[1]])):
            if w != v:
                out.append(("read", f, w))
                out.append(("read", VAR, w))
    out.append(("probe", rng.choice(PROBE_TEXTS)))
    return out


def rnd_flag(rng):
    r = rng.random()
    if r < 0.72: return A(rng.choice(FLAGS))
    if r < 0.84: return rng.choice(BAD_FLAG_ATOMS)
    if r < 0.94: return rng.choice(NON_ATOM_FLAGS)
    return VAR


def rnd_value(rng, f):
    r = rng.random()
    if f[0] == "atom" and f[1] in NEAR and r < 0.65: return rng.choice(NEAR[f[1]])
    if r < 0.92: return rng.choice(VPOOL)
    return VAR


def gen_histories(ctx):
    rng = ctx.rng
    hs = []   # (kind, ops)
    fpool = [A(f) for f in FLAGS] + BAD_FLAG_ATOMS + NON_ATOM_FLAGS + [VAR]
    allv = []
    for v in VPOOL + [x for l in NEAR.values() for x in l] + [VAR]:
        if v not in allv: allv.append(v)
    # (a) every flag x value read on the initial state (reads do not change the state: one history per flag)
    for f in fpool:
        hs.append(("exh-read", [("read", f, v) for v in allv]))
    # (b) every flag x value written on a fresh machine, followed by the reads and probes
    for f in fpool:
        vs = allv if ctx.thorough else ([v for v in allv if f[0] == "atom" and f[1] in NEAR and v in NEAR[f[1]]] + rng.sample(allv, 6) + [VAR])
        seen = []
        for v in vs:
            if v in seen: continue
            seen.append(v)
            hs.append(("exh-write", [("read", VAR, VAR), ("write", f, v)] + follow_ups(rng, f, v)))
    # (c) random histories
    for _ in range(ctx.scale(400, 20000)):
        ops = []
        for _ in range(rng.choice([1, 2, 2, 3, 3, 4, 5])):
            f = rnd_flag(rng)
            v = rnd_value(rng, f)
            if rng.random() < 0.68:
                ops.append(("write", f, v))
                ops += follow_ups(rng, f, v)
            else:
                ops.append(("read", f if rng.random() < 0.7 else VAR, v if rng.random() < 0.5 else VAR))
        ops.append(("probe", rng.choice(PROBE_TEXTS)))
        hs.append(("random", ops))
    return hs


def pretty(coq_text):
    """code-point lists of the printed model value as quoted text"""
    def sub(m):
        return '"%s"' % "".join(chr(int(x)) for x in re.findall(r"(\d+)%N", m.group(0)))
    return re.sub(r"\[\d+%N(?:; \d+%N)*\]", sub, coq_text)


def show_many(prop, exprs):
    """printed model values of several expressions, one coqc run"""
    if not exprs:
        return []
    import os
    d = os.path.join(core.WORK, prop, "show")
    os.makedirs(d, exist_ok=True)
    path = os.path.join(d, "show_many.v")
    with open(path, "w") as f:
        f.write("From Coq Require Import List ZArith NArith String Ascii.\nImport ListNotations.\n" + IMPORTS + "\nOpen Scope string_scope.\n")
        for e in exprs:
            f.write("Eval vm_compute in (%s).\n" % e)
    rc, out = core.sh(["coqc", "-noglob", "-Q", core.COQ, "V", "-o", path + "o", path], timeout=600)
    parts = [re.sub(r"\s+", " ", x).strip() for x in re.split(r"^\s*= ", out, flags=re.M)[1:]]
    return parts if len(parts) == len(exprs) else ["(model value not available: %s)" % out[-300:]] * len(exprs)


def failure_key(op):
    k = op[0]
    if k == "probe":
        return "flags:probe"
    f, v = op[1], op[2]
    known = f[0] == "atom" and f[1] in FLAGS
    if k == "read":
        if known:
            return "flags:%s:%s" % (f[1], "lookup" if v[0] == "var" else "lookup-bound-value")
        if f[0] == "var":
            return "flags:enumeration" if v[0] == "var" else "flags:enumeration-bound-value"
        return "flags:read-error"
    if f[0] == "var" or v[0] == "var":
        return "flags:set-error:instantiation"
    if known:
        return "flags:%s:%s" % (f[1], "set" if DOMAIN[f[1]](v) else "set-invalid-value")
    return "flags:set-error:flag"


def run(ctx):
    hs = gen_histories(ctx)
    jobs = []
    for i, (kind, ops) in enumerate(hs):
        qs = []
        for op in ops:
            qs += op_queries(op)
        jobs.append({"id": str(i), "consult": ":- use_module(library(charsio)).\n", "queries": qs, "max_answers": 40,
                     "timeout_ms": 10000, "fresh": True})
    t0 = time.time()
    res = core.vrun_query(ctx.prop, jobs, tag="impl")
    ctx.notes.append("implementation: %d histories in %.1fs" % (len(jobs), time.time() - t0))
    failures, tie_breaks = [], []
    dist = {"histories": {}, "ops": {"read": 0, "write": 0, "probe": 0}, "write_outcomes": {}, "read_modes": {}}
    nontrivial = set()
    steps = 0
    exprs, where = [], {}      # distinct step checks; expr -> index; index -> [(history, step)]
    occ = []
    per = []
    for i, (kind, ops) in enumerate(hs):
        r = res.get(str(i))
        dist["histories"][kind] = dist["histories"].get(kind, 0) + 1
        if r is None or "results" not in r:
            failures.append({"key": "flags:crash", "what": "the machine died or hung during a flag history",
                             "input": " ".join(op_text(o) for o in ops), "impl": json.dumps(r)[:300], "spec": "answers", "property_fails": True})
            per.append((ops, []))
            continue
        rs = r["results"]
        obs, p = [], 0
        writes = []
        for k, op in enumerate(ops):
            n = 5 if op[0] == "probe" else 1
            o = encode_obs(op, rs[p:p + n])
            p += n
            obs.append(o)
            dist["ops"][op[0]] += 1
            oc = op_coq(op)
            ws = "[%s]" % "; ".join(writes)
            e = "check_step %s (%s) %s" % (ws, oc, o[0])
            if e not in where:
                where[e] = len(exprs)
                exprs.append(e)
                occ.append([])
            occ[where[e]].append((i, k, ws, oc))
            # non-trivial: a distinct operation in a distinct history of writes (the state it meets)
            if op[0] != "probe" or writes:
                nontrivial.add(ws + " | " + oc)
            if op[0] == "write":
                w = o[1].split(":")[0]
                dist["write_outcomes"][w] = dist["write_outcomes"].get(w, 0) + 1
                writes.append(oc)
            elif op[0] == "read":
                m = ("F-" if op[1][0] != "var" else "_-") + ("V" if op[2][0] != "var" else "_")
                dist["read_modes"][m] = dist["read_modes"].get(m, 0) + 1
        steps += len(ops)
        per.append((ops, obs))
    dist["distinct_step_checks"] = len(exprs)
    t0 = time.time()
    chunk = max(100, -(-len(exprs) // (2 * core.NPROC))) if not ctx.thorough else 600
    bad, errs = core.coq_eval_bools(ctx.prop, IMPORTS, exprs, chunk=chunk)
    ctx.notes.append("model: %d distinct step checks in %.1fs" % (len(exprs), time.time() - t0))
    for k, t in errs:
        tie_breaks.append({"kind": "coq-eval", "what": "model evaluation shard failed", "detail": t})
    # a disagreeing enumeration: name the flags whose presence differs between the implementation's answers and the model's
    enum_exprs, enum_meta = [], []
    for x in bad:
        i, k, ws, oc = occ[x][0]
        op, ob = per[i][0][k], per[i][1][k]
        if op[0] == "read" and op[1][0] == "var" and len(ob) > 2:
            v = "(Var 0%N)" if op[2][0] == "var" else cq(op[2])
            for f in FLAGS:
                enum_exprs.append('Bool.eqb (enum_has %s %s "%s") %s' % (ws, v, f, "true" if f in ob[2] else "false"))
                enum_meta.append((x, f))
    culprits = {}
    if enum_exprs:
        ebad, eerrs = core.coq_eval_bools(ctx.prop, IMPORTS, enum_exprs, chunk=max(50, -(-len(enum_exprs) // core.NPROC)), tag="enum")
        for k, t in eerrs:
            tie_breaks.append({"kind": "coq-eval", "what": "model evaluation shard failed (enumeration diff)", "detail": t})
        for y in ebad:
            x, f = enum_meta[y]
            culprits.setdefault(x, []).append(f)
    by_key = {}
    for x in bad:
        i, k, ws, oc = occ[x][0]
        key0 = failure_key(per[i][0][k])
        keys = ["flags:%s:%s" % (f, key0.split(":", 1)[1]) for f in culprits[x]] if x in culprits else [key0]
        for key in keys:
            for (i, k, ws, oc) in occ[x]:
                by_key.setdefault(key, []).append((k, i, ws, oc))
    chosen = []
    for key, lst in sorted(by_key.items()):
        lst.sort()
        chosen.append((key, len(lst)) + lst[0])
    specs = show_many(ctx.prop, ["expected %s (%s)" % (ws, oc) for (_, _, k, i, ws, oc) in chosen])
    for (key, n, k, i, ws, oc), spec in zip(chosen, specs):
        ops, obs = per[i]
        failures.append({"key": key, "what": "flag operation disagrees with the flag model (%d occurrences in this run)" % n,
                         "input": " ".join(op_text(o) for o in ops[:k + 1]), "step": op_text(ops[k]),
                         "impl": obs[k][1], "spec": pretty(spec)[:600], "property_fails": True})
    samples = []
    for (ops, obs) in per[:: max(1, len(per) // 6)][:6]:
        if not obs:
            continue
        k = min(len(ops) - 1, 1)
        samples.append({"history": [op_text(o) for o in ops[:k + 1]][-2:], "impl": obs[k][1][:160]})
    return {
        "evaluations": steps,
        "distinct_nontrivial": len(nontrivial),
        "rule": ("histories on a fresh machine each: (a) every flag term (9 flags, 6 unknown atoms, 5 non-atoms, a variable) x every pool value "
                 "and a variable read on the initial state; (b) each flag term x (its domain, near misses, pool sample, variable) written, then "
                 "read back in three modes and probed; (c) random histories of 1-5 reads/writes with the same follow-ups. Every step "
                 "(answers of findall over current_prolog_flag, success/failure/error formal of set_prolog_flag, probe results) is compared in Coq "
                 "with the model state reached by the writes that precede it (check_step; identical (writes, operation, observation) triples are "
                 "evaluated once). evaluations = compared steps; non-trivial = distinct (sequence of writes so far, operation) pairs, i.e. "
                 "distinct operations in distinct write histories (probes on the untouched initial state are not counted)"),
        "samples": samples,
        "distribution": dist,
        "failures": failures,
        "tie_breaks": tie_breaks,
    }
