"""C12 -- Exceptions unwind precisely and leave the machine consistent."""
import sys
import json
from vlib import core, terms

sys.path.insert(0, core.ROOT)
from gen import sld_common as S

META = {
    "level": "proof",
    "text": ("Coq theorems about catch/3, throw/1 and setup_call_cleanup/3 of the reference interpreter Engine/Sld.v: catch is transparent without "
             "an exception; catch_restores_bindings_and_recovers (the innermost active catch whose catcher unifies with a fresh copy of the ball runs "
             "the recovery from the substitution at its call, continuing with its own continuation); rethrow_when_no_unify; catch_inactive_after_exit; "
             "ball_is_copy; builtin errors are error(Formal, Context); setup_call_cleanup runs its cleanup once on deterministic exit, failure and "
             "exception. The implementation (builtins.pl catch/throw, machine_state_impl.rs unwind_stack, iso_ext.pl setup_call_cleanup, run_cleaners) is "
             "tied to the model by random nestings of catch/throw/setup_call_cleanup/cut/backtracking: ordered answers (with recovery bindings), "
             "uncaught ball and the persistent side-effect log are compared with Sld.solve in Coq."),
    "note": ("Trusted: Coq kernel + vm_compute; Engine/Sld.v as the statement of ISO catch/throw; gen/sld_common.py; harness vrun. setup_call_cleanup/3 is "
             "modelled exactly only for syntactically deterministic goals (exit, failure, exception); for non-deterministic goals (cleanup on cut, on the "
             "last exit or on later failure) the model places the cleanup when the goal's frame is left, and the correspondence compares the cleanup log "
             "entries as a multiset (exactly once, position not compared). Cleanup goals that throw are not generated. Error contexts are not compared."),
    "technique": "Coq proof (catch/throw/cleanup laws of the reference interpreter) + differential correspondence evaluated in Coq",
    "design_ref": "DESIGN.md section 8, C12",
    "coq_targets": ["C12/Props.vo"],
    "coq_dirs": ["Engine", "C12"],
    "props": "C12/Props.v",
    "trusted_base": ["Coq 8.16.1 kernel, vm_compute (no native_compute)", "gen/sld_common.py (generator, serialisers, assertz-based log/1)",
                     "harness/vrun + tools/vlib (correspondence)", "Engine/Sld.v as the statement of ISO catch/throw semantics"],
    "assumptions": ["log/1 is implemented in Prolog by assertz on a dynamic predicate (survives backtracking and exceptions)",
                    "cleanup timing of non-deterministic setup_call_cleanup goals is compared only up to position in the log"],
}

FEATS = {"cut": 1, "ite": 1, "naf": 1, "call": 1, "types": 1, "arith": 1, "catch": 1, "throw": 1, "log": 1, "scc": 1}


def contains(t, names):
    if t[0] == "cmp":
        return (t[1] in names) or any(contains(x, names) for x in t[2])
    return False


# the property text's "runs its cleanup exactly once WHEN the goal ... is cut / fails / raises / finishes": directly after each
# construct that ends the goal, the cleanup must have run exactly once (the model compares cleanup entries of non-deterministic
# goals only as a multiset, so the timing is probed here against the text)
TIMING_PROG = r"""
:- use_module(library(lists)).
:- use_module(library(iso_ext)).
:- dynamic(c12ran/1).
c12g(Id) :- setup_call_cleanup(true, member(_, [1,2,3]), assertz(c12ran(Id))).
c12st(Id, s(N)) :- findall(x, c12ran(Id), L), length(L, N).
c12t(naf_inline, S) :- \+ c12g(1), c12st(1, S).
c12t(naf_inline, S) :- c12st(1, S).
c12t(naf_call, S) :- G = (\+ c12g(2)), ( call(G) -> true ; true ), c12st(2, S).
c12t(ite, S) :- ( c12g(3) -> true ; true ), c12st(3, S).
c12t(once, S) :- once(c12g(4)), c12st(4, S).
c12t(cut, S) :- c12g(5), !, c12st(5, S).
c12t(nafnaf, S) :- \+ \+ c12g(6), c12st(6, S).
c12t(exhaust, S) :- ( c12g(7), fail ; true ), c12st(7, S).
c12t(throw, S) :- catch((c12g(8), throw(b)), b, true), c12st(8, S).
c12t(findall, S) :- findall(x, c12g(9), _), c12st(9, S).
c12t(callcut, S) :- call((c12g(10), !)), c12st(10, S).
c12t(forall, S) :- forall(c12g(11), true), c12st(11, S).
c12t(ite_cond_conj, S) :- ( c12g(12), true -> c12st(12, S) ; S = else ).
c12t(det, S) :- setup_call_cleanup(true, true, assertz(c12ran(13))), c12st(13, S).
c12t(fails, S) :- ( setup_call_cleanup(true, fail, assertz(c12ran(14))) -> true ; true ), c12st(14, S).
c12t(raises, S) :- catch(setup_call_cleanup(true, throw(b), assertz(c12ran(15))), b, true), c12st(15, S).
c12t(nested_cut, S) :- setup_call_cleanup(true, ( c12g(16) ; true ), assertz(c12ran(17))), !, c12st(16, S1), c12st(17, S2), S = p(S1,S2).
c12t(later_still_once, S) :- \+ c12g(18), fail.
c12t(later_still_once, S) :- ( member(_, [1,2]), fail ; true ), !, c12st(18, S).
"""
TIMING = [("naf_inline", ["s(1)"]), ("naf_call", ["s(1)"]), ("ite", ["s(1)"]), ("once", ["s(1)"]), ("cut", ["s(1)"]), ("nafnaf", ["s(1)"]),
          ("exhaust", ["s(1)"]), ("throw", ["s(1)"]), ("findall", ["s(1)"]), ("callcut", ["s(1)"]), ("forall", ["s(1)"]), ("ite_cond_conj", ["s(1)"]),
          ("det", ["s(1)"]), ("fails", ["s(1)"]), ("raises", ["s(1)"]), ("nested_cut", ["p(s(1),s(1))"]), ("later_still_once", ["s(1)"])]


def timing_probes(ctx, failures, tie_breaks):
    from vlib import terms
    jobs = [{"id": "timing", "consult": TIMING_PROG, "queries": ["c12t(%s, S)." % k for k, _ in TIMING], "max_answers": 4,
             "timeout_ms": 5000, "fresh": True}]
    res = core.vrun_query(ctx.prop, jobs, tag="timing")
    rs = (res.get("timing") or {}).get("results") or []
    if len(rs) != len(TIMING):
        tie_breaks.append({"kind": "harness", "what": "timing probes gave no result", "detail": json.dumps(res)[:500]})
        return 0
    for (k, exp), r in zip(TIMING, rs):
        got = []
        for a in r:
            if isinstance(a, dict) and "b" in a:
                got.append(terms.to_prolog(terms.from_json(a["b"]["S"])))
            elif a != "false":
                got.append(json.dumps(a)[:80])
        if got != exp:
            failures.append({"key": "scc-cleanup-not-run-once-when-goal-ends:" + k,
                             "what": "directly after the construct that ends the goal of setup_call_cleanup/3 the cleanup has not run exactly once",
                             "input": "c12t(%s, S).   %% with the clauses of TIMING_PROG in checks/C12.py" % k, "impl": "S = %s" % got, "spec": "S = %s" % exp,
                             "property_fails": True})
    return len(TIMING)


def run(ctx):
    nprog = ctx.scale(1000, 1500)
    ev, nontrivial, dist, failures, tie_breaks, samples = S.run_differential(
        ctx, FEATS, nprog, check_fn="check_c12", imports=S.IMPORTS + "\nFrom V Require Import C12.Model.", log=True,
        ok_codes=(0,), soft_codes={5: "prefix_only_ambiguous_arith_error", 6: "equal_up_to_cleanup_position"},
        depth=[1, 2, 3, 3, 4],
        nontrivial_fn=lambda prog, q, o: (contains(q, ("catch", "throw", "setup_call_cleanup")) or
                                          any(contains(b, ("catch", "throw", "setup_call_cleanup")) for _, b in prog)) and bool(o[1] or o[2] is not None or o[3]))
    ev += timing_probes(ctx, failures, tie_breaks)
    # cross-cutting: every uncaught error observed must be error(Formal, Context) or a user ball of the generated shapes
    return {"evaluations": ev, "distinct_nontrivial": len(nontrivial),
            "rule": ("17 fixed timing probes (cleanup has run exactly once directly after the goal was cut by \\+, ->, once, !, call((G,!)), exhausted, failed, raised, finished), then random programs over the C07 control constructs plus catch/3, throw/1 (balls: atoms, integers, structures and lists sharing variables "
                     "with the context, error(my_error(..),..)), setup_call_cleanup/3 and log/1, clause-body nesting up to 4; catchers that match, partially "
                     "match or do not match; 3 queries per program, each through a compiled clause and through call/1; compared: ordered answers, uncaught "
                     "ball (formal only), side-effect log; non-trivial = distinct (program, query) using catch/throw/setup_call_cleanup with an answer, "
                     "exception or log entry, agreeing with the model"),
            "samples": samples, "distribution": dist, "failures": failures, "tie_breaks": tie_breaks}
