"""C12 -- Exceptions unwind precisely and leave the machine consistent."""
import sys
from vlib import core, terms

sys.path.insert(0, core.ROOT)
from gen import sld_common as S

META = {
    "level": "proof",
    "text": ("Coq theorems about catch/3, throw/1 and setup_call_cleanup/3 of the reference interpreter Engine/Sld.v: catch is transparent without "
             "an exception; catch_restores_bindings_and_recovers (the innermost active catch whose catcher unifies with a fresh copy of the ball runs "
             "the recovery from the substitution at its call, continuing with its own continuation); rethrow_when_no_unify; catch_inactive_after_exit; "
             "ball_is_copy; builtin errors are error(Formal, Context); setup_call_cleanup runs its cleanup once on deterministic exit, failure and "
             "exception. The implementation (builtins.pl catch/throw, machine_state_impl.rs unwind_stack, iso_ext.pl setup_call_cleanup, run_cleaners) is "
             "tied to the model by random nestings of catch/throw/setup_call_cleanup/cut/backtracking: ordered answers (with recovery bindings), "
             "uncaught ball and the persistent side-effect log are compared with Sld.solve in Coq."),
    "note": ("Trusted: Coq kernel + vm_compute; Engine/Sld.v as the statement of ISO catch/throw; gen/sld_common.py; harness vrun. setup_call_cleanup/3 is "
             "modelled exactly only for syntactically deterministic goals (exit, failure, exception); for non-deterministic goals (cleanup on cut, on the "
             "last exit or on later failure) the model places the cleanup when the goal's frame is left, and the correspondence compares the cleanup log "
             "entries as a multiset (exactly once, position not compared). Cleanup goals that throw are not generated. Error contexts are not compared."),
    "technique": "Coq proof (catch/throw/cleanup laws of the reference interpreter) + differential correspondence evaluated in Coq",
    "design_ref": "DESIGN.md section 8, C12",
    "coq_targets": ["C12/Props.vo"],
    "coq_dirs": ["Engine", "C12"],
    "props": "C12/Props.v",
    "trusted_base": ["Coq 8.16.1 kernel, vm_compute (no native_compute)", "gen/sld_common.py (generator, serialisers, assertz-based log/1)",
                     "harness/vrun + tools/vlib (correspondence)", "Engine/Sld.v as the statement of ISO catch/throw semantics"],
    "assumptions": ["log/1 is implemented in Prolog by assertz on a dynamic predicate (survives backtracking and exceptions)",
                    "cleanup timing of non-deterministic setup_call_cleanup goals is compared only up to position in the log"],
}

FEATS = {"cut": 1, "ite": 1, "naf": 1, "call": 1, "types": 1, "arith": 1, "catch": 1, "throw": 1, "log": 1, "scc": 1}


def contains(t, names):
    if t[0] == "cmp":
        return (t[1] in names) or any(contains(x, names) for x in t[2])
    return False


def run(ctx):
    nprog = ctx.scale(360, 9000)
    ev, nontrivial, dist, failures, tie_breaks, samples = S.run_differential(
        ctx, FEATS, nprog, check_fn="check_c12", imports=S.IMPORTS + "\nFrom V Require Import C12.Model.", log=True,
        ok_codes=(0,), soft_codes={5: "prefix_only_ambiguous_arith_error", 6: "equal_up_to_cleanup_position"},
        depth=[1, 2, 3, 3, 4],
        nontrivial_fn=lambda prog, q, o: (contains(q, ("catch", "throw", "setup_call_cleanup")) or
                                          any(contains(b, ("catch", "throw", "setup_call_cleanup")) for _, b in prog)) and bool(o[1] or o[2] is not None or o[3]))
    # cross-cutting: every uncaught error observed must be error(Formal, Context) or a user ball of the generated shapes
    return {"evaluations": ev, "distinct_nontrivial": len(nontrivial),
            "rule": ("random programs over the C07 control constructs plus catch/3, throw/1 (balls: atoms, integers, structures and lists sharing variables "
                     "with the context, error(my_error(..),..)), setup_call_cleanup/3 and log/1, clause-body nesting up to 4; catchers that match, partially "
                     "match or do not match; 3 queries per program, each through a compiled clause and through call/1; compared: ordered answers, uncaught "
                     "ball (formal only), side-effect log; non-trivial = distinct (program, query) using catch/throw/setup_call_cleanup with an answer, "
                     "exception or log entry, agreeing with the model"),
            "samples": samples, "distribution": dist, "failures": failures, "tie_breaks": tie_breaks}
