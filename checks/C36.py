"""C36 -- format/2 directives produce the documented text (library(format), format_//2)."""
import json
from vlib import core, terms

META = {
    "level": "proof",
    "text": ("Coq theorems over a Gallina model of format_//2 (directive parser, cell/column machinery, ~d ~Nd ~ND ~NU ~NL ~Nr ~NR ~Nf(integers) "
             "~a ~w ~q ~s ~i ~n ~~ ~t ~`Ct ~| ~N| ~N+ ~*): digit strings read back to the integer in every radix 2..36, ~Nd denotes z/10^N, "
             "~ND/~NU are ~Nd with separators in groups of three, a cell with a fill point whose content fits has exactly the column width, "
             "~*x with argument N is ~Nx, and the algorithm of format.pl for ~Nd equals the documented text exactly when the sign is not "
             "pushed next to the decimal point.  The model is tied to the code by running phrase(format_(Fs,Args),Cs) (called and compiled as a DCG body) "
             "and the model on the same generated format strings and arguments, compared inside Coq."),
    "note": ("Trusted: Coq kernel + vm_compute; the Python generator; harness vrun. Modelled, not verified: write/1 of atoms/integers (number_chars), "
             "Prolog arithmetic on integers. NOT modelled: float arguments of ~f (float_fractional_part converts rationals and floats through f64, so "
             "~Nf is modelled for integer arguments only), ~q for atoms that need quotes, ~w/~q of compound terms other than one fixed term, "
             "~e ~g ~c (not provided by this library: the model and the implementation both reject them as unknown directives). "
             "Observed and mirrored, not flagged: ~0f prints one fractional digit \"0\" (documentation says N digits); ~+ without N is ~0+. "
             "~NL is an impl-mirror (lines of N characters including the sign, continuation \"_\\n\"). No axioms."),
    "technique": ("Coq proof (radix_roundtrip, Nd_value, D_ungroup, D_groups_of_three, column_width, right_left_align, tilde_star_equiv, nd_impl_eq_doc, "
                  "unknown_directive_error_partial) over a reference model "
                  "(documented text) with impl-mirror parser/columns + differential correspondence evaluated in Coq"),
    "design_ref": "DESIGN.md section 8, C36",
    "coq_targets": ["C36/Props.vo"],
    "coq_dirs": ["C36"],
    "props": "C36/Props.v",
    "trusted_base": ["Coq 8.16.1 kernel, vm_compute (no native_compute)", "harness/vrun + tools/vlib (correspondence)",
                     "number_chars/write of integers and atoms modelled, not verified"],
    "assumptions": ["numeric arguments of directives are below ~10^3 in the correspondence (the model converts them to nat)",
                    "~f only with integer arguments; floats and rationals are outside the model"],
}

IMPORTS = "From V Require Import C36.Model."

# ------------------------------------------------------------------ pools
def int_pool(rng):
    base = [0, 1, -1, 9, -9, 10, -10, 99, -99, 100, -100, 999, -999, 1000, -1000, 12345, -12345, 123456, -123456, 1234567, -1234567,
            (1 << 55) - 1, (1 << 55), (1 << 55) + 1, -(1 << 55) - 1, -(1 << 55), -(1 << 55) + 1, 1 << 63, -(1 << 63), (1 << 63) - 1, 1 << 64, -(1 << 64),
            (1 << 64) - 1, 10 ** 18, -10 ** 18, 10 ** 21 - 1, -(10 ** 21 - 1)]
    for _ in range(30):
        bits = rng.choice([4, 8, 10, 14, 17, 20, 24, 30, 34, 40, 60, 64, 70, 100, 128, 200])
        base.append(rng.getrandbits(bits) * rng.choice([1, -1]))
    return base


ATOMS = ["a", "abc", "hello", "x1", "foo_bar", "hello world", "A b", "é", "→x", "don't", "[]", "", "a\\b", "X", "_v", "long_atom_name_123"]
SIMPLE_ATOMS = ["a", "abc", "hello", "x1", "foo_bar", "long_atom_name_123", "[]"]
STRS = ["", "a", "ab", "hello", "x y", "A", "é→", "12", "a\"b", "q'r", "~", "tab\\"]
ALNUM_STRS = ["", "a", "ab", "hello", "xyz1"]
ALPHA_STRS = ["", "a", "ab", "hello", "xyz"]
LITS = ["", "", "x", "ab", " ", ": ", "abc def", "é", "→", "\n", "a\nb", "'", "\"", "\\", "%", "`", "|", "+", "*", "0", "12", "-", ",", "_", ".", "t", "d"]
FILLS = [" ", ".", "*", "-", "0", "~", "é", "t", "`"]
CMP = ("cmp",)


def prolog_string(s):
    out = ['"']
    for ch in s:
        if ch == "\\": out.append("\\\\")
        elif ch == '"': out.append('\\"')
        elif ch == "\n": out.append("\\n")
        else: out.append(ch)
    out.append('"')
    return "".join(out)


def prolog_atom(s):
    out = ["'"]
    for ch in s:
        if ch == "\\": out.append("\\\\")
        elif ch == "'": out.append("\\'")
        elif ch == "\n": out.append("\\n")
        else: out.append(ch)
    out.append("'")
    return "".join(out)


def arg_prolog(a):
    k = a[0]
    if k == "int": return str(a[1]) if a[1] >= 0 else "(%d)" % a[1]
    if k == "atom": return "[]" if a[1] == "[]" else prolog_atom(a[1])
    if k == "str": return prolog_string(a[1])
    return "f(x)"


def codes(s):
    return "[" + ";".join(str(ord(c)) for c in s) + "]"


def arg_coq(a):
    k = a[0]
    if k == "int": return "AInt (%d)%%Z" % a[1]
    if k == "atom": return "AAtom %s" % codes(a[1])
    if k == "str": return "AStr %s" % codes(a[1])
    return "ACmp %s" % codes("f(x)")


# ------------------------------------------------------------------ pieces
# a piece: {"fs": text, "args": [...], "letter": c or None, "n": resolved count or None, "star": bool, "z": int or None, "len": approx text length}
def numform(rng, n, allow_none_as=None):
    """-> (format text for the count, leading args, star?)"""
    if allow_none_as is not None and n == allow_none_as and rng.random() < 0.5:
        return "", [], False
    r = rng.random()
    if r < 0.25:
        return "*", [("int", n)], True
    if r < 0.3 and n >= 0:
        return "0" * rng.choice([1, 2]) + str(n), [], False
    return str(n), [], False


def piece_lit(rng):
    s = rng.choice(LITS)
    return {"fs": s, "args": [], "letter": None, "len": len(s)}


def piece_value(rng, pool):
    """an argument-consuming or text-producing directive with a well-typed argument"""
    c = rng.choice("wwqasddddDDDUULffrrRRi~n")
    p = {"letter": c, "n": None, "star": False, "z": None, "args": []}
    if c in "wq":
        r = rng.random()
        if r < 0.45:
            a = ("int", rng.choice(pool))
        elif r < 0.85:
            a = ("atom", rng.choice(ATOMS if c == "w" else SIMPLE_ATOMS))
        elif r < 0.93:
            a = ("str", rng.choice(ALNUM_STRS if c == "w" else ALPHA_STRS))
        else:
            a = CMP
        p.update(fs="~" + c, args=[a], len=len(str(a[1])) if a[0] != "cmp" else 4)
    elif c == "a":
        a = ("atom", rng.choice(ATOMS))
        p.update(fs="~a", args=[a], len=len(a[1]))
    elif c == "s":
        a = ("str", rng.choice(STRS))
        p.update(fs="~s", args=[a], len=len(a[1]))
    elif c == "i":
        a = rng.choice([("int", rng.choice(pool)), ("atom", rng.choice(ATOMS)), ("str", rng.choice(STRS)), CMP])
        p.update(fs="~i", args=[a], len=0)
    elif c == "~":
        p.update(fs="~~", len=1)
    elif c == "n":
        n = rng.choice([1, 1, 0, 2, 3])
        t, la, star = numform(rng, n, allow_none_as=1)
        p.update(fs="~" + t + "n", args=la, n=n, star=star, len=0)
    else:
        z = rng.choice(pool)
        nd = len(str(abs(z)))
        if c in "dDU":
            n = rng.choice([0, 0, 1, 2, 3, 4, 6, 9, 12, nd - 1, nd, nd + 1, nd + 3, max(0, nd - 3), rng.randrange(0, 13)])
            n = max(0, n)
            t, la, star = numform(rng, n, allow_none_as=0)
        elif c == "L":
            n = rng.choice([0, 0, 1, 2, 3, 5, 10, 72, nd - 1, nd, nd + 1])
            n = max(0, n)
            t, la, star = numform(rng, n, allow_none_as=0)
        elif c == "f":
            n = rng.choice([6, 0, 1, 2, 3, 12, rng.randrange(0, 13)])
            t, la, star = numform(rng, n, allow_none_as=6)
        else:
            n = rng.choice([8, 2, 3, 7, 10, 16, 35, 36, rng.randrange(2, 37)])
            t, la, star = numform(rng, n, allow_none_as=8)
        p.update(fs="~" + t + c, args=la + [("int", z)], n=n, star=star, z=z, len=nd + (z < 0) + (n if c in "dDUf" else 0))
    return p


def piece_fill(rng):
    if rng.random() < 0.5:
        return {"fs": "~t", "args": [], "letter": "t", "len": 0}
    f = rng.choice(FILLS)
    return {"fs": "~`" + f + "t", "args": [], "letter": "t", "len": 0}


def piece_col(rng, pos, width):
    """a column stop placed around the current content: pos = previous stop, width = approx content length"""
    k = rng.random()
    slack = rng.choice([-2, -1, 0, 0, 1, 2, 3, 5, 8])
    if k < 0.15:
        return {"fs": "~|", "args": [], "letter": "|", "col": None}, pos + width
    if k < 0.6:
        n = max(0, pos + width + slack) if rng.random() < 0.9 else rng.choice([-3, -1, 0])
        if n < 0:
            return {"fs": "~*|", "args": [("int", n)], "letter": "|", "star": True, "n": n}, n
        t, la, star = numform(rng, n)
        return {"fs": "~" + t + "|", "args": la, "letter": "|", "star": star, "n": n}, n
    n = max(0, width + slack) if rng.random() < 0.9 else rng.choice([-3, -1, 0])
    if n < 0:
        return {"fs": "~*+", "args": [("int", n)], "letter": "+", "star": True, "n": n}, pos + n
    t, la, star = numform(rng, n, allow_none_as=0)
    return {"fs": "~" + t + "+", "args": la, "letter": "+", "star": star, "n": n}, pos + n


def gen_valid(rng, pool):
    """1-4 directives plus literal text; about half of the cases are column groups"""
    pieces = []
    nd = rng.choice([1, 1, 1, 2, 2, 3, 4])
    pos = 0
    count = 0
    while count < nd:
        if rng.random() < 0.45:
            # a column group: [fill] content [fill] [content [fill]] stop
            width = 0
            grp = []
            if rng.random() < 0.55: grp.append(piece_fill(rng))
            for j in range(rng.choice([1, 1, 1, 2])):
                if rng.random() < 0.3:
                    q = piece_lit(rng)
                else:
                    q = piece_value(rng, pool)
                    while q["letter"] == "n":
                        q = piece_value(rng, pool)
                    count += 1
                grp.append(q); width += q["len"]
                if rng.random() < 0.45: grp.append(piece_fill(rng))
            c, pos = piece_col(rng, pos, width)
            grp.append(c)
            count += 1
            pieces += grp
        else:
            if rng.random() < 0.4: pieces.append(piece_lit(rng))
            q = piece_value(rng, pool)
            if q["letter"] == "n": pos = 0
            pieces.append(q); count += 1
    if rng.random() < 0.3: pieces.append(piece_lit(rng))
    return pieces


WRONG = {"d": ["atom", "str", "cmp"], "D": ["atom", "str", "cmp"], "U": ["atom", "str", "cmp"], "L": ["atom", "str", "cmp"],
         "f": ["atom", "str", "cmp"], "r": ["atom", "str", "cmp"], "R": ["atom", "str", "cmp"],
         "a": ["int", "str1", "cmp"], "s": ["int", "atom", "cmp"]}


def wrong_arg(rng, kind, pool):
    if kind == "atom": return ("atom", rng.choice(["foo", "a", "x1"]))
    if kind == "str": return ("str", rng.choice(["ab", "hello", "12", ""]))
    if kind == "str1": return ("str", rng.choice(["ab", "hello", "x"]))
    if kind == "int": return ("int", rng.choice(pool))
    return CMP


BAD_DIRECTIVES = ["~Q", "~c", "~e", "~g", "~p", "~x", "~z", "~!", "~5a", "~3w", "~2q", "~1s", "~4i", "~3~", "~3t", "~*t", "~*~", "~ ", "~é", "~2c", "~3e", "~N", "~-1d", "~1.5d"]
BAD_TAILS = ["~", "~5", "~*", "~`", "~`x", "~`xy", "~12"]


def gen_malformed(rng, pool):
    """-> (pieces, sub-kind); the model is expected to say `error` for each"""
    kind = rng.choice(["unknown", "unknown", "tail", "few", "many", "type", "type", "type", "startype", "negcount", "radix"])
    base = gen_valid(rng, pool) if rng.random() < 0.6 else []
    if kind == "unknown":
        d = rng.choice(BAD_DIRECTIVES)
        extra = [rng.choice([("int", 65), ("atom", "a")])] if rng.random() < 0.6 else []
        if d.startswith("~*"): extra = [("int", 3)] + extra
        p = {"fs": d, "args": extra, "letter": "?"}
        i = rng.randrange(0, len(base) + 1)
        return base[:i] + [p] + base[i:], kind
    if kind == "tail":
        d = rng.choice(BAD_TAILS)
        return base + [{"fs": d, "args": [("int", 1)] if d == "~*" or rng.random() < 0.2 else [], "letter": "?"}], kind
    if kind == "few":
        ps = base or gen_valid(rng, pool)
        idx = [i for i, p in enumerate(ps) if p["args"]]
        if not idx:
            ps = ps + [piece_value(rng, pool)]
            while not ps[-1]["args"]:
                ps[-1] = piece_value(rng, pool)
            idx = [len(ps) - 1]
        i = idx[-1]
        q = dict(ps[i]); q["args"] = q["args"][:-1]; q["dropped"] = True
        return ps[:i] + [q] + ps[i + 1:], kind
    if kind == "many":
        ps = base or gen_valid(rng, pool)
        extra = rng.choice([("int", 1), ("atom", "a"), ("str", "s"), ("atom", "[]"), ("str", "")])
        return ps + [{"fs": "", "args": [extra], "letter": None, "len": 0}], kind
    if kind == "type":
        c = rng.choice(list(WRONG))
        a = wrong_arg(rng, rng.choice(WRONG[c]), pool)
        n = {"r": 16, "R": 16}.get(c)
        p = {"fs": "~" + (str(n) if n else rng.choice(["", "", "2"]) if c in "dDULf" else "") + c, "args": [a], "letter": c, "wrongtype": True}
        i = rng.randrange(0, len(base) + 1)
        return base[:i] + [p] + base[i:], kind
    if kind == "startype":
        c = rng.choice("dDULfrRn|+|+")
        a = wrong_arg(rng, rng.choice(["atom", "str", "cmp"]), pool)
        args = [a] + ([("int", rng.choice(pool))] if c in "dDULfrR" else [])
        pre = [piece_fill(rng)] if c in "|+" and rng.random() < 0.5 else []
        p = {"fs": "~*" + c, "args": args, "letter": c, "starwrong": True}
        i = rng.randrange(0, len(base) + 1)
        return base[:i] + pre + [p] + base[i:], kind
    if kind == "negcount":
        c = rng.choice("ddDULfnn")
        n = rng.choice([-1, -1, -2, -7])
        args = [("int", n)] + ([("int", rng.choice(pool))] if c != "n" else [])
        p = {"fs": "~*" + c, "args": args, "letter": c, "negcount": True, "n": n}
        i = rng.randrange(0, len(base) + 1)
        return base[:i] + [p] + base[i:], kind
    # radix
    c = rng.choice("rR")
    n = rng.choice([0, 1, 37, 100, -1, -16])
    z = rng.choice(pool)
    if n < 0 or rng.random() < 0.4:
        p = {"fs": "~*" + c, "args": [("int", n), ("int", z)], "letter": c, "badradix": True}
    else:
        p = {"fs": "~%d%s" % (n, c), "args": [("int", z)], "letter": c, "badradix": True}
    i = rng.randrange(0, len(base) + 1)
    return base[:i] + [p] + base[i:], kind


def assemble(pieces):
    fs = "".join(p["fs"] for p in pieces)
    args = [a for p in pieces for a in p["args"]]
    return fs, args


# ------------------------------------------------------------------ implementation side
def obs_of(ans):
    """one query's answers -> (coq obs, short text)"""
    if not ans:
        return "OOther", "no answer record"
    a = ans[0]
    if a == "false":
        return "OFail", "false"
    if isinstance(a, dict) and "b" in a and "Cs" in a["b"]:
        try:
            t = terms.from_json(a["b"]["Cs"])
            items, tail = terms.list_view(t)
            if tail != terms.NIL or any(x[0] != "atom" or len(x[1]) != 1 for x in items):
                return "OOther", json.dumps(a)[:200]
            s = "".join(x[1] for x in items)
            return "OOut %s" % codes(s), json.dumps(s, ensure_ascii=False)
        except Exception as e:   # noqa
            return "OOther", json.dumps(a)[:200]
    f = core.error_formal(a)
    if f is not None:
        return "OErr", "error(%s)" % core.term_text(f)[:120]
    return "OOther", json.dumps(a)[:200]


def run_impl(ctx, cases, tag):
    """cases: list of (fs, args, compiled?) -> list of (obs_called, obs_compiled or None)"""
    jobs = []
    B = 40
    for i in range(0, len(cases), B):
        chunk = cases[i:i + B]
        prog = ":- use_module(library(format)).\n:- use_module(library(dcgs)).\n"
        qs = []
        for j, (fs, args, comp) in enumerate(chunk):
            al = "[" + ",".join(arg_prolog(a) for a in args) + "]"
            qs.append("phrase(format_(%s, %s), Cs)." % (prolog_string(fs), al))
            if comp:
                prog += "c36_%d --> format_(%s, %s).\n" % (i + j, prolog_string(fs), al)
                qs.append("phrase(c36_%d, Cs)." % (i + j))
        jobs.append({"id": str(i), "consult": prog, "queries": qs, "timeout_ms": 20000, "max_answers": 2, "fresh": i % (B * 50) == 0})
    res = core.vrun_query(ctx.prop, jobs, tag=tag)
    out = []
    for i in range(0, len(cases), B):
        chunk = cases[i:i + B]
        r = res.get(str(i))
        rs = r.get("results") if isinstance(r, dict) else None
        k = 0
        for (fs, args, comp) in chunk:
            if rs is None:
                o1 = ("OOther", "no result: %s" % json.dumps(r)[:200]); o2 = o1 if comp else None
            else:
                o1 = obs_of(rs[k]) if k < len(rs) else ("OOther", "missing"); k += 1
                o2 = None
                if comp:
                    o2 = obs_of(rs[k]) if k < len(rs) else ("OOther", "missing"); k += 1
            out.append((o1, o2))
    return out


# ------------------------------------------------------------------ labelling of disagreements
def defect_classes(pieces):
    cl = []
    wq = False
    for p in pieces:
        c = p.get("letter")
        if c in ("w", "q"):
            wq = True
        elif c == "n" or c == "+" or (c == "|" and p.get("n") is not None):
            wq = False
        elif c == "|":
            if wq: cl.insert(0, "w-then-col-here-uninstantiation-error")
            wq = False
        if c in ("d", "D", "U") and p.get("z") is not None and p["z"] < 0 and p.get("n"):
            nd = len(str(abs(p["z"])))
            if nd <= p["n"]:
                cl.append("Nd-negative-few-digits-sign-misplaced")
            elif c in "DU" and (nd - p["n"]) % 3 == 0:
                cl.append("ND-negative-leading-separator")
        elif c in ("D", "U") and p.get("z") is not None and p["z"] < 0 and not p.get("n"):
            if len(str(abs(p["z"]))) % 3 == 0:
                cl.append("ND-negative-leading-separator")
    return cl


def letters(pieces):
    return "".join(sorted(set(p["letter"] for p in pieces if p.get("letter"))))


def show_specs(ctx, coq_cases):
    """the model's results for a few cases, as text (one coqc call)"""
    if not coq_cases:
        return []
    out = core.coq_eval_show(ctx.prop, IMPORTS, "[%s]" % "; ".join("format_ %s" % c for c in coq_cases))
    m = out.find("= [")
    if m < 0:
        return [out[:300]] * len(coq_cases)
    body = out[m + 3:]
    res, depth, cur = [], 0, []
    for ch in body:
        if ch == "[": depth += 1
        if ch == "]":
            depth -= 1
            if depth < 0: break
        if ch == ";" and depth == 0:
            res.append("".join(cur).strip()); cur = []
        else:
            cur.append(ch)
    res.append("".join(cur).strip())
    def pretty(t):
        if t.startswith("Some"):
            try:
                cs = [int(x) for x in t[t.index("[") + 1:t.rindex("]")].replace(";", " ").split()]
                return "Some " + json.dumps("".join(chr(c) for c in cs), ensure_ascii=False)
            except Exception:   # noqa
                return t[:300]
        return "None (error)" if t.startswith("None") else t[:300]
    return [pretty(t) for t in res]


def run(ctx):
    rng = ctx.rng
    pool = int_pool(rng)
    n_valid = ctx.scale(2400, 100000)
    n_mal = ctx.scale(700, 30000)
    cases, seen = [], set()
    dist = {"valid": 0, "malformed": {}, "directives": {}, "n_directives": {}, "star": 0, "column_groups": 0, "negative_int_args": 0}

    def add(pieces, kind):
        fs, args = assemble(pieces)
        key = (fs, tuple(args))
        if key in seen:
            return
        seen.add(key)
        cases.append({"fs": fs, "args": args, "pieces": pieces, "kind": kind})

    # fixed documentation examples first
    add([{"fs": "~s~n~`.t~w!~12|", "args": [("str", "hello"), ("atom", "there")], "letter": "|", "len": 0}], "valid")
    add([{"fs": "~ta~t~tb~tc~21|", "args": [], "letter": "|", "len": 0}], "valid")
    add([{"fs": "~ta~t~4|", "args": [], "letter": "|", "len": 0}], "valid")
    for _ in range(n_valid):
        add(gen_valid(rng, pool), "valid")
    for _ in range(n_mal):
        ps, sub = gen_malformed(rng, pool)
        add(ps, "malformed:" + sub)

    nontrivial = 0
    for c in cases:
        ds = [p for p in c["pieces"] if p.get("letter")]
        if c["kind"] == "valid":
            dist["valid"] += 1
        else:
            dist["malformed"][c["kind"][10:]] = dist["malformed"].get(c["kind"][10:], 0) + 1
        for p in ds:
            dist["directives"][p["letter"]] = dist["directives"].get(p["letter"], 0) + 1
            if p.get("star"): dist["star"] += 1
            if p["letter"] in "|+": dist["column_groups"] += 1
            if p.get("z") is not None and p["z"] < 0: dist["negative_int_args"] += 1
        dist["n_directives"][min(len(ds), 8)] = dist["n_directives"].get(min(len(ds), 8), 0) + 1
        if any(p["letter"] not in "~n" for p in ds):
            nontrivial += 1

    impl = run_impl(ctx, [(c["fs"], c["args"], c["kind"] == "valid") for c in cases], "impl")
    bools, meta = [], []
    evaluations = 0
    for ci, (c, (o1, o2)) in enumerate(zip(cases, impl)):
        ce = "%s [%s]" % (codes(c["fs"]), "; ".join(arg_coq(a) for a in c["args"]))
        c["coq"] = ce
        bools.append("check %s (%s)" % (ce, o1[0])); meta.append((ci, "called", o1)); evaluations += 1
        if o2 is not None:
            evaluations += 1
            if o2[0] != o1[0]:
                bools.append("check %s (%s)" % (ce, o2[0])); meta.append((ci, "compiled-dcg", o2))
        if c["kind"] != "valid":
            bools.append("check %s OErr" % ce); meta.append((ci, "generator", None))
    bad, errs = core.coq_eval_bools(ctx.prop, IMPORTS, bools, chunk=500)
    tie_breaks = [{"kind": "coq-eval", "what": "model evaluation shard failed", "detail": t} for _, t in errs]
    failures = []
    gen_bad = [meta[i] for i in bad if meta[i][1] == "generator"]
    for (ci, _, _) in gen_bad[:5]:
        tie_breaks.append({"kind": "generator", "what": "a case of the malformed stream is accepted by the model",
                           "detail": "%s %s" % (cases[ci]["fs"], cases[ci]["args"])})
    real_bad = [meta[i] for i in bad if meta[i][1] != "generator"]
    if real_bad:
        # second opinion: the mirror of the implementation's own ~Nd/~ND algorithm (labels known deviations precisely)
        b2 = ["check_impl %s (%s)" % (cases[ci]["coq"], o[0]) for (ci, path, o) in real_bad]
        bad2, errs2 = core.coq_eval_bools(ctx.prop, IMPORTS, b2, chunk=500, tag="labelcases")
        tie_breaks += [{"kind": "coq-eval", "what": "label evaluation shard failed", "detail": t} for _, t in errs2]
        bad2 = set(bad2)
        by_key = {}
        for k, (ci, path, o) in enumerate(real_bad):
            c = cases[ci]
            ps = c["pieces"]
            what = "format_//2 output differs from the documented text"
            if o[0] == "OFail":
                neg = sorted(set(p["letter"] for p in ps if p.get("negcount")))
                key = "negative-count-fails-silently:" + "".join(neg) if neg else "fails-silently:" + letters(ps)
                what = "format_//2 fails silently (no error, no output) on an invalid numeric argument"
            elif o[0].startswith("OOut") and c["kind"] != "valid":
                if any(p.get("starwrong") and p["letter"] == "|" for p in ps):
                    key = "column-arg-not-type-checked"
                    what = "~*| with a non-integer column argument produces output instead of an error"
                else:
                    key = "output-on-malformed:" + c["kind"][10:] + ":" + letters(ps)
                    what = "malformed format string / arguments produce output instead of an error"
            elif k not in bad2:
                cl = defect_classes(ps)
                key = cl[0] if cl else "dDU-impl-algorithm:" + letters(ps)
                what = ("~w/~q followed by ~| in the same column raises uninstantiation_error" if key.startswith("w-then") else
                        "~Nd/~ND/~NU text differs from the documentation (matches the library's algorithm on the signed digit string)")
            else:
                key = "unexplained:" + letters(ps)
            q = "phrase(format_(%s, [%s]), Cs)." % (prolog_string(c["fs"]), ",".join(arg_prolog(a) for a in c["args"]))
            by_key.setdefault(key, []).append((len(q), q, path, o, c, what))
        chosen = []
        for key in sorted(by_key):
            for t in sorted(by_key[key], key=lambda t: t[:2])[:2]:
                chosen.append((key, t))
        specs = show_specs(ctx, [t[4]["coq"] for (_, t) in chosen[:24]])
        for k, (key, (_, q, path, o, c, what)) in enumerate(chosen):
            failures.append({"key": key, "what": what, "input": q, "path": path, "impl": o[1],
                             "spec": specs[k] if k < len(specs) else "(not shown)",
                             "count_in_run": len(by_key[key]), "property_fails": True})
    samples = []
    for c, (o1, o2) in list(zip(cases, impl))[:: max(1, len(cases) // 10)][:10]:
        samples.append({"query": "phrase(format_(%s, [%s]), Cs)." % (prolog_string(c["fs"]), ",".join(arg_prolog(a) for a in c["args"])),
                        "kind": c["kind"], "impl": o1[1][:100]})
    return {
        "evaluations": evaluations,
        "distinct_nontrivial": nontrivial,
        "rule": ("format strings of 1-4 directives from a grammar (value directives ~w ~q ~a ~s ~d ~Nd ~ND ~NU ~NL ~Nf ~Nr ~NR ~i ~~ ~n, column groups "
                 "[fill] content [fill] stop with stops placed around the content width, literal text incl. newlines and non-ASCII), counts written as "
                 "digits, with leading zeros or as ~*; integer arguments from the boundary pool (0,+-1,+-9,+-10,+-999,+-1000,2^55+-1,2^63,2^64, random up to "
                 "200 bits); a malformed stream (unknown directive, dangling ~, too few/many arguments, wrong argument type, non-integer ~* argument, negative "
                 "count, radix outside 2..36). Every case is run through phrase(format_(Fs,Args),Cs) (valid ones also as a compiled DCG body) and compared in "
                 "Coq with format_. distinct_nontrivial = distinct (format string, arguments) pairs containing at least one directive other than ~~ and ~n"),
        "samples": samples,
        "distribution": dist,
        "failures": failures,
        "tie_breaks": tie_breaks,
    }
