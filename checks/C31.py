"""C31 -- An interrupt at any point is caught cleanly."""
import importlib.util, json, os
from vlib import core

META = {
    "level": "proof",
    "text": ("Coq theorems over the mirror of dispatch_loop's polling discipline (wrapping counter, poll on wrap-around, INTERRUPT.swap(false) then throw), with the poll period "
             "regenerated from dispatch.rs: an interrupt raised before ANY instruction r is thrown exactly once, after r and within poll_period - 1 further instructions, the flag "
             "is cleared by the delivery, and nothing is thrown when nothing was raised (delivered_once_within_period, no_spurious_interrupt). Tied to the code by the translator "
             "(shape of the counter, the wrap test and check_for_interrupt) and by raising the flag at sampled instruction indices n of seven workloads through a hook: the goal "
             "must end with the interrupt exception within the proved bound, and follow-up goals on the same machine must give their known answers."),
    "note": ("PARTIAL: the theorem covers the polling discipline, not what throw_interrupt_exception/backtrack do to the machine state; that the machine stays consistent after the "
             "unwinding is checked by the follow-up goals only (differential). Two further poll sites in system_calls.rs (long-running builtins) are exercised only by workloads. "
             "Trusted: Coq kernel + vm_compute; gen/dispatch_poll.py; hook on_dispatched_instruction (counts loop turns of dispatch_loop on this thread); harness."),
    "technique": "Coq invariant proof of the interrupt polling discipline over a regenerated poll period + fault injection at instruction boundaries through a hook",
    "coq_targets": ["C31/Props.vo"], "coq_dirs": ["C31"], "props": "C31/Props.v",
    "trusted_base": ["Coq 8.16.1 kernel, vm_compute", "gen/dispatch_poll.py translator", "src/verif_hooks.rs interrupt injector", "harness vrun (steps with \"interrupt\": n)"],
    "assumptions": ["the handler's own instructions after delivery number fewer than 400 (slack added to the proved bound when reading the instruction counter at the end of the goal)"],
}
IMPORTS = "From V Require Import Gen.Dispatch."

PROG = r""":- use_module(library(lists)).
:- use_module(library(between)).
:- use_module(library(freeze)).
:- dynamic(fact/1).
cnt(0) :- !.
cnt(N) :- N1 is N-1, cnt(N1).
w_rec :- cnt(30000).
w_search :- ( between(1, 6000, X), X mod 7 =:= 100 -> true ; true ).
w_findall :- findall(X-Y, (between(1, 120, X), member(Y, [a,b,c,d,e,f,g,h,i,j])), L), length(L, 1200).
w_assert :- retractall(fact(_)), ( between(1, 1500, X), assertz(fact(X)), fail ; true ), findall(Y, fact(Y), L), length(L, 1500), retractall(fact(_)).
w_catch :- ( between(1, 1500, X), catch(( X mod 3 =:= 0 -> throw(oops(X)) ; true ), oops(_), true), fail ; true ).
w_freeze :- ( between(1, 800, X), freeze(V, (W = X)), V = go, W == X, fail ; true ).
w_string :- numlist(1, 1500, Ns), maplist(int_char, Ns, Cs), atom_chars(A, Cs), atom_length(A, 1500), append(Cs, Cs, Ds), length(Ds, 3000).
int_char(N, C) :- M is 97 + N mod 26, char_code(C, M).
w_attrhead :- ( between(1, 40, X), freeze(V, true), big(V, L, X), L = [_|_], fail ; true ).
""" + "big(go, [" + ",".join("e%d" % i for i in range(420)) + "], _).\n"
WORKLOADS = ["w_rec", "w_search", "w_findall", "w_assert", "w_catch", "w_freeze", "w_string", "w_attrhead"]
FOLLOW = [("X is 6*7.", ("X", "42")), ("findall(Y, member(Y,[a,b,c]), L), length(L, N).", ("N", "3")), ("atom_length(abcde, N).", ("N", "5")),
          ("cnt(500), X = done.", ("X", "done"))]
SLACK = 400


def gen(ctx):
    spec = importlib.util.spec_from_file_location("gen_dispatch_poll", os.path.join(core.ROOT, "gen", "dispatch_poll.py"))
    m = importlib.util.module_from_spec(spec); spec.loader.exec_module(m)
    m.generate(core.REPO, os.path.join(core.COQ, "Gen", "Dispatch.v"))


def binding(ans, var):
    if ans and isinstance(ans[0], dict) and "b" in ans[0]:
        t = ans[0]["b"].get(var)
        if t is not None:
            return t.get("i") or t.get("a") or json.dumps(t)
    return None


def is_interrupt(ans):
    if not ans or not isinstance(ans[0], dict): return False
    a = ans[0]
    if "b" in a and a["b"].get("E", {}).get("a") == "$interrupt_thrown": return "caught"
    if "err" in a:
        c = a["err"].get("c", [])
        if len(c) == 3 and c[1].get("a") == "$interrupt_thrown": return "toplevel"
    return False


def run(ctx):
    rng = ctx.rng
    period = int(open(os.path.join(core.COQ, "Gen", "Dispatch.v")).read().split("counter_bits : N := ")[1].split(".")[0])
    period = 2 ** period
    # 1. length of every workload in loop turns
    base = [{"id": "len", "fresh": True, "timeout_ms": 120000,
             "steps": [{"consult": PROG}] + [{"q": q % w} for w in WORKLOADS for q in ("%s.", "%s.", "catch(%s, error(E,_), true).")]}]
    r0 = core.vrun_query(ctx.prop, base, tag="len").get("len", {})
    failures, tie_breaks = [], []
    lens = {}
    for i, w in enumerate(WORKLOADS):
        ok = True
        cnts = []
        for j in (1, 2):     # second plain run and the run under catch/3 (the first plain run warms the machine up)
            k = 1 + 3 * i + j
            res = (r0.get("results") or [])[k] if len(r0.get("results") or []) > k else None
            if not res or (res[0] != "true" and not (isinstance(res[0], dict) and "b" in res[0])): ok = False
            cnts.append((r0.get("counters") or [])[k][1] if len(r0.get("counters") or []) > k else 0)
        if not ok:
            tie_breaks.append({"kind": "harness", "what": "workload %s does not run to completion without an interrupt" % w, "detail": json.dumps(r0)[:300]})
        lens[w] = min(cnts)
    per = ctx.scale(40, 1500)
    jobs, plan = [], {}
    for w in WORKLOADS:
        T = lens.get(w, 0)
        if T < 1000: continue
        ns = sorted(set([0, 1, 2, 5, 17, 255, 256, 257, 511, 512, T - 2 * period - 1, T // 2] + [rng.randrange(0, T - 2 * period) for _ in range(per)]))
        ns = [n for n in ns if 0 <= n < T - 2 * period]
        for ci in range(0, len(ns), 7):
            steps = [{"consult": PROG}]
            meta = []
            for n in ns[ci:ci + 7]:
                steps.append({"q": "%s." % w, "interrupt": n}); meta.append(("intr_plain", w, n))
                steps.append({"q": "catch(%s, error(E,_), true)." % w, "interrupt": n}); meta.append(("intr", w, n))
                f = rng.choice(FOLLOW)
                steps.append({"q": f[0]}); meta.append(("follow", f))
            steps.append({"q": "catch(%s, error(E,_), true)." % w}); meta.append(("again", w))
            jid = "%s_%d" % (w, ci)
            jobs.append({"id": jid, "fresh": True, "steps": steps, "timeout_ms": 60000}); plan[jid] = meta
    res = core.vrun_query(ctx.prop, jobs, tag="inj")
    bools, bmeta = [], []
    evals = nontriv = 0
    dist = {"workload_turns": lens, "caught": 0, "toplevel": 0}
    samples = []
    for jid, meta in plan.items():
        rec = res.get(jid, {})
        rs, cs = rec.get("results") or [], rec.get("counters") or []
        for k, m in enumerate(meta):
            ans = rs[k + 1] if len(rs) > k + 1 else None
            cnt = cs[k + 1][1] if len(cs) > k + 1 else None
            evals += 1
            if ans is None or (ans and isinstance(ans[0], dict) and "panic" in ans[0]) or "crash" in rec or "hang" in rec:
                wl = jid.rsplit("_", 1)[0]
                msg = json.dumps(ans if ans is not None else rec)
                kind = "panic:code-pointer-oob" if "is oob for code area" in msg else "panic" if "panic" in msg else "hang" if "hang" in rec else "crash"
                failures.append({"key": "interrupt:%s:%s" % (kind, wl), "what": "no answer / panic / hang around an injected interrupt", "input": "%s step %d %r" % (jid, k, m),
                                 "impl": json.dumps(ans if ans is not None else rec)[:300], "spec": "interrupt exception, then correct follow-ups", "property_fails": True})
                break
            if m[0] in ("intr", "intr_plain"):
                kind = is_interrupt(ans)
                nontriv += 1
                if not kind:
                    if m[0] == "intr":
                        key, what = "interrupt:swallowed-under-catch", "the goal, run under catch/3, completed normally although the interrupt flag was raised (and consumed) at turn %d of %d" % (m[2], lens[m[1]])
                    else:
                        key, what = "interrupt:not-delivered:%s" % m[1], "the goal did not end with the interrupt exception although the flag was raised at turn %d of %d" % (m[2], lens[m[1]])
                    failures.append({"key": key, "what": what,
                                     "input": "%s with the interrupt flag raised at loop turn %d" % (("catch(%s, error(E,_), true)" if m[0] == "intr" else "%s") % m[1], m[2]), "impl": json.dumps(ans)[:300],
                                     "spec": "error('$interrupt_thrown', _)", "property_fails": True})
                    continue
                dist[kind] += 1
                bools.append("(N.ltb %d %d && N.leb %d (N.add (N.add %d poll_period) %d))%%bool" % (m[2], cnt, cnt, m[2], SLACK)); bmeta.append((m, cnt))
                if len(samples) < 6: samples.append({"workload": m[1], "under_catch": m[0] == "intr", "raised_at_turn": m[2], "turns_when_goal_ended": cnt, "delivery": kind})
            elif m[0] == "follow":
                var, val = m[1][1]
                if binding(ans, var) != val:
                    failures.append({"key": "interrupt:follow-up-wrong", "what": "a goal run after a handled interrupt gives a wrong answer", "input": "%s (after interrupts in %s)" % (m[1][0], jid),
                                     "impl": json.dumps(ans)[:300], "spec": "%s = %s" % (var, val), "property_fails": True})
            else:
                if not ans or (ans[0] != "true" and not (isinstance(ans[0], dict) and "b" in ans[0] and "v" in ans[0]["b"].get("E", {"v": 1}))):
                    failures.append({"key": "interrupt:workload-wrong-afterwards", "what": "the workload no longer completes correctly after handled interrupts", "input": "%s rerun in %s" % (m[1], jid),
                                     "impl": json.dumps(ans)[:300], "spec": "true", "property_fails": True})
    bad, errs = core.coq_eval_bools(ctx.prop, IMPORTS + "\nOpen Scope N_scope.", bools, chunk=600)
    for _, t in errs: tie_breaks.append({"kind": "coq-eval", "what": "model evaluation shard failed", "detail": t})
    for j in bad[:8]:
        m, cnt = bmeta[j]
        failures.append({"key": "interrupt:late-delivery", "what": "the interrupt exception surfaced outside the proved delivery window (poll period %d, slack %d)" % (period, SLACK),
                         "input": "%s with the flag raised at loop turn %d" % (m[1], m[2]), "impl": "goal ended at turn %d" % cnt, "spec": "%d < end <= %d" % (m[2], m[2] + period + SLACK), "property_fails": True})
    return {"evaluations": evals, "distinct_nontrivial": nontriv,
            "rule": ("eight workloads (deep recursion, backtracking search, findall, assertz/retract loop, catch/throw loop, freeze wake-ups, string building, an attributed variable bound in a clause head that goes on for 400 more head instructions); the interrupt flag is raised through the "
                     "hook at loop turn n for n in {0,1,2,5,17,255,256,257,511,512, T/2, ...} plus random n below the workload's length T; 10 injections per machine, each followed by a goal with a known "
                     "answer, and a final uninterrupted rerun of the workload. Non-trivial = an injection that actually interrupted the workload (counted once per (workload, n))."),
            "samples": samples, "distribution": dist, "failures": failures, "tie_breaks": tie_breaks}
