"""C17 -- Malformed input never crashes or desynchronises the reader."""
import json, os, re, shutil, subprocess, time
from vlib import core, terms

META = {
    "level": "proof",
    "text": ("Coq theorems over a total reference reader (tokenizer + clause splitter + precedence parser for a fixed sub-grammar): the reader never runs "
             "out of fuel and always ends with end_of_file (reader_fuel_sufficient), every read consumes a non-empty prefix (reader_progress), after a lexical "
             "error the remaining input starts right after the first end token at or after the error position (resync_after_end_token, skip_to_end_first/none), "
             "a clause ends exactly at its end token (clause_ends_at_end_token) and later reads depend only on the text after it (valid_suffix_unaffected). "
             "The implementation is tied to the model differentially: mutated Prolog texts and token soup are written to a file, read with read_term/3 until "
             "end_of_file, and the whole outcome sequence (terms exactly, errors as syntax_error(_)) is compared in Coq with the model's sequence; a panic, hang, "
             "non-syntax error, reader that stops advancing, or a desynchronised later read is a failure with the text as replay."),
    "note": ("Trusted: Coq kernel + vm_compute; the model's character classes are restricted to ASCII + {U+A0, U+C9, U+E9, U+2200, U+65E5}; the term-level grammar "
             "(operators , :- = + - * < ; -> in infix position, compounds, lists, curly terms) is tied to the code only by correspondence, the parser's fuel is "
             "checked at run time (OParseFuel never agrees), clauses using other operators, prefix operators, floats, strings or '|' as an operator are classified "
             "OUnknown (term or syntax error both accepted) but their extent and the resynchronisation after them are compared. Texts with digit-group separators "
             "(digit followed by _) and invalid UTF-8 are outside the generated space. The Rust lexer/parser recovery code itself is not mirrored."),
    "technique": ("Coq proof (reader_fuel_sufficient, reader_progress, resync_after_end_token, clause_ends_at_end_token, valid_suffix_unaffected) over a reference "
                  "reader model + differential correspondence evaluated in Coq"),
    "coq_targets": ["C17/Props.vo"], "coq_dirs": ["C17"], "props": "C17/Props.v",
    "trusted_base": ["Coq 8.16.1 kernel, vm_compute", "harness vrun + tools/vlib", "text generator and Prolog driver in checks/C17.py",
                     "reference reader's grammar for the decided sub-grammar (tied by correspondence only)"],
    "assumptions": ["default operator table and flags (double_quotes=chars)", "input is valid UTF-8 over the modelled alphabet"],
}

IMPORTS = "From V Require Import Base.Term C17.Model."
ALPHABET_EXTRA = "\xa0\xc9\xe9∀日"

# ---------------------------------------------------------------------------------------------- generator of valid clauses
ATOMS = [("a", "a"), ("b", "b"), ("c", "c"), ("foo", "foo"), ("bar", "bar"), ("baz_1", "baz_1"), ("x1", "x1"), ("point", "point"),
         ("\xe9t\xe9", "\xe9t\xe9"), ("日", "日"), ("aB∀", "aB∀"), ("[]", "[]"), ("{}", "{}"), ("!", "!"),
         ("'hello world'", "hello world"), ("'A'", "A"), ("'it''s'", "it's"), ("'a.b'", "a.b"), ("'x\\ny'", "x\ny"), ("'\\x41\\'", "A"),
         ("'a. b'", "a. b"), ("'%'", "%"), ("''", ""), ("'a\\\nb'", "ab"), ("'\"`'", "\"`"), ("'\\101\\z'", "Az")]
FUNCTORS = [a for a in ATOMS if a[0] not in ("[]", "{}", "!")]
VARS = ["X", "Y", "Z", "_", "_A", "Foo", "\xc9t", "_1"]
INTS = [("0", 0), ("1", 1), ("7", 7), ("42", 42), ("123456", 123456), ("0'a", 97), ("0x1F", 31), ("0'\\n", 10), ("0'''", 39), ("0b101", 5),
        ("0o17", 15), ("0' ", 32), ("0'.", 46), ("007", 7)]
OPS = [(":-", 1200, "xfx"), (";", 1100, "xfy"), ("->", 1050, "xfy"), (",", 1000, "xfy"), ("=", 700, "xfx"), ("<", 700, "xfx"),
       ("+", 500, "yfx"), ("-", 500, "yfx"), ("*", 400, "yfx")]


def sp(rng, must=False):
    r = rng.random()
    if must:
        return " " if r < 0.85 else rng.choice(["  ", "\n  ", " /* c */ ", "\t"])
    return "" if r < 0.6 else " " if r < 0.9 else rng.choice(["\n  ", " /* c. */ ", " % x. y\n "])


def gen_term(rng, maxp, depth):
    """-> (text, term) with variables named by their text ('_' handled by the caller)"""
    r = rng.random()
    if depth <= 0 or r < 0.30:
        k = rng.random()
        if k < 0.5:
            a = rng.choice(ATOMS); return a[0], ("atom", a[1])
        if k < 0.75:
            v = rng.choice(VARS); return v, ("var", v)
        i = rng.choice(INTS); return i[0], ("int", i[1])
    if r < 0.50:
        f = rng.choice(FUNCTORS)
        n = rng.choice([1, 1, 2, 2, 3])
        args = [gen_term(rng, 999, depth - 1) for _ in range(n)]
        return f[0] + "(" + sp(rng) + ("," + sp(rng)).join(a[0] + sp(rng) for a in args) + ")", ("cmp", f[1], [a[1] for a in args])
    if r < 0.62:
        n = rng.choice([1, 2, 3])
        items = [gen_term(rng, 999, depth - 1) for _ in range(n)]
        txt = "[" + sp(rng) + ("," + sp(rng)).join(a[0] for a in items)
        tail = terms.NIL
        if rng.random() < 0.3:
            t = gen_term(rng, 999, depth - 1)
            txt += sp(rng) + "|" + sp(rng) + t[0]; tail = t[1]
        return txt + sp(rng) + "]", terms.mklist([a[1] for a in items], tail)
    if r < 0.68:
        t = gen_term(rng, 1200, depth - 1)
        return "{" + sp(rng) + t[0] + sp(rng) + "}", ("cmp", "{}", [t[1]])
    if r < 0.73:
        t = gen_term(rng, 1200, depth - 1)
        return "(" + sp(rng) + t[0] + sp(rng) + ")", t[1]
    name, p, ty = rng.choice(OPS)
    la = p if ty == "yfx" else p - 1
    ra = p if ty == "xfy" else p - 1
    l = gen_term(rng, la, depth - 1)
    rr = gen_term(rng, ra, depth - 1)
    if name == ",":
        txt = l[0] + sp(rng) + "," + sp(rng) + rr[0]
    else:
        txt = l[0] + sp(rng, True) + name + sp(rng, True) + rr[0]
    if p > maxp:
        txt = "(" + txt + ")"
    return txt, ("cmp", name, [l[1], rr[1]])


def canon_vars(t):
    """number variables by first occurrence, every '_' fresh"""
    m, cnt = {}, [0]
    def go(t):
        if t[0] == "var":
            if t[1] == "_":
                cnt[0] += 1; return ("var", cnt[0] - 1)
            if t[1] not in m:
                m[t[1]] = cnt[0]; cnt[0] += 1
            return ("var", m[t[1]])
        if t[0] == "cmp":
            return ("cmp", t[1], [go(x) for x in t[2]])
        return t
    return go(t)


ENDS = [".\n"] * 10 + [". ", ".\t", ".%c\n", ". % c. d\n", ".\n\n", ".\r\n"]
GAPS = [""] * 6 + [" ", "\n", "% comment. with dot\n", "/* block. \n 'x */ ", "  \n\t", "/**/", "/* * / */\n"]

TOKEN_RE = re.compile(r"'(?:[^'\\\n]|\\.|'')*'|\"(?:[^\"\\\n]|\\.)*\"|0'(?:\\.|''|[^'])|[A-Za-z_\xc9\xe9∀日][A-Za-z0-9_\xc9\xe9∀日]*|[0-9]+|"
                      r"[#$&*+\-./:<=>?@^~\\]+|\s+|%[^\n]*|.", re.S)
SPECIAL = list("()[]{}|,.'\"`\\%/*;!-+=:<>_") + ["\x00", "\x01", "\x7f", "\x1b", "\t", "\n", " ", "\xa0", "∀", "\xe9", "\xc9", "0", "9", "A", "a", "e", "x"]
STRAY = [")", "]", "}", "|", "(", "[", "{", ",", "=", ":-", "foo", "X", "1", ";", "->", "-", "'q'", "\"s\"", "1.5", "1.0e10", "\\+", "is", "-->", "a.b", ". ", ".\n"]
BADQ = ["'a\\zb'", "'a\\xZZ'", "'\\x41'", "'\\9'", "'\\x110000\\'", "'\\xD800\\'", "\"s\\q\"", "`bq`", "'a\nb'", "'a\tb'", "\"a\nb\"", "'\\e'", "'\\", "0'\\z",
        "0'\n", "'abc", "\"abc", "`abc", "/* oops", "'\\x\\'", "'\\400000000000\\'", "0'\\xZ"]
SOUP = ["a", "b", "foo", "X", "_", "Y1", "1", "42", "0'a", "0'", "0x", "1.5", "1e5", "(", ")", "[", "]", "{", "}", "|", ",", ".", ". ", ".\n", "=", ":-", "+", "-", "*", "<", ";",
        "->", "\\+", "-->", "'q q'", "'unterminated", "\"str\"", "\"unterminated", "`bq`", "% c\n", "/* c */", "/* open", "'\\z'", "\x00", "\x01", "\xa0", "∀", "!", "..",
        "a.b", "is", "mod", "'", "\"", "\\", " ", "\n", "\t", "f(", "g(a)", "[a|b]", "{x}", "- 1", "-1", "0''", "0'''"]


def mutate(rng, clause):
    """one mutation of a clause text (which includes its end token); returns (text, kind)"""
    toks = TOKEN_RE.findall(clause)
    k = rng.random()
    if k < 0.30 and clause:
        i = rng.randrange(len(clause))
        m = rng.random()
        if m < 0.3: return clause[:i] + clause[i + 1:], "char-delete"
        if m < 0.6: return clause[:i] + rng.choice(SPECIAL) + clause[i:], "char-insert"
        if m < 0.8: return clause[:i] + rng.choice(SPECIAL) + clause[i + 1:], "char-replace"
        if i + 1 < len(clause): return clause[:i] + clause[i + 1] + clause[i] + clause[i + 2:], "char-swap"
        return clause[:i], "char-delete"
    if k < 0.60 and toks:
        i = rng.randrange(len(toks))
        m = rng.random()
        if m < 0.25: return "".join(toks[:i] + toks[i + 1:]), "token-delete"
        if m < 0.40: return "".join(toks[:i] + [toks[i], " ", toks[i]] + toks[i + 1:]), "token-duplicate"
        if m < 0.55 and i + 1 < len(toks): return "".join(toks[:i] + [toks[i + 1], toks[i]] + toks[i + 2:]), "token-swap"
        return "".join(toks[:i] + [rng.choice(["", " "]) + rng.choice(STRAY) + rng.choice(["", " "])] + toks[i:]), "token-insert"
    if k < 0.72 and toks:
        i = rng.randrange(len(toks))
        return "".join(toks[:i] + [rng.choice(["", " "]) + rng.choice(BADQ) + rng.choice(["", " "])] + toks[i:]), "bad-quoted-or-comment"
    m = rng.random()
    body = clause.rstrip()
    if m < 0.5 and body.endswith("."): return body[:-1] + clause[len(body):], "end-token-deleted"
    if m < 0.7: return clause.rstrip("\n \t\r"), "end-layout-removed"
    if m < 0.9: return clause + rng.choice(["0'", " 0'", "'", "/*", "foo", "\\"]), "trailing-fragment"
    i = rng.randrange(len(clause) + 1)
    return clause[:i] + rng.choice(["\x00", "\x01", "\x7f", "\xa0", "\x1b"]) + clause[i:], "control-char"


def gen_text(rng):
    """-> (text, kinds, expected terms or None)"""
    if rng.random() < 0.08:
        n = rng.randrange(1, 25)
        parts = []
        for _ in range(n):
            parts.append(rng.choice(SOUP)); parts.append(rng.choice(["", " ", " ", "\n"]))
        tail = rng.choice(["", ".\n", " .\n", ".", "\n"])
        return "".join(parts) + tail, ["soup"], None
    n = rng.choice([1, 2, 2, 3, 3, 4, 5, 6])
    clauses, exp = [], []
    for ci in range(n):
        t = gen_term(rng, 1200, rng.choice([1, 2, 2, 3]))
        clauses.append(rng.choice(GAPS) + t[0] + sp(rng) + (rng.choice(ENDS) if ci + 1 < n or rng.random() < 0.1 else ".\n"))
        exp.append(canon_vars(t[1]))
    r = rng.random()
    nm = 0 if r < 0.12 else 1 if r < 0.75 else 2
    kinds = []
    for _ in range(nm):
        i = rng.randrange(len(clauses))
        clauses[i], kind = mutate(rng, clauses[i])
        kinds.append(kind)
    text = "".join(clauses)
    if rng.random() < 0.08:
        text += rng.choice([" ", "\n", "% end", "/* end */", "\t\n", "% c\n"]); kinds.append("trailing-layout")
    if rng.random() < 0.05 and text.endswith("\n"):
        text = text[:-1]
    return text, kinds, (exp if not kinds else None)


def acceptable(text):
    if re.search(r"[0-9]_", text) or "end_of_file" in text or text.count(".") > 30 or re.search(r"[0-9]{15}", text):
        return False
    return all(ord(c) < 128 or c in ALPHABET_EXTRA for c in text) and len(text) <= 400


# ---------------------------------------------------------------------------------------------- implementation side
def driver(j):
    return ("c17r_%s(S, N, L) :- ( N =< 0 -> L = [cap] ; catch(( read_term(S, T, []), R = ok ), error(E, _), R = err),\n"
            "   ( R == err -> ( nonvar(E), E = syntax_error(A) -> L = [e(A)|L1], N1 is N-1, c17r_%s(S, N1, L1) ; L = [o(E)] )\n"
            "   ; T == end_of_file -> L = [eof]\n"
            "   ; L = [t(T)|L1], N1 is N-1, c17r_%s(S, N1, L1) ) ).\n"
            "c17f_%s(F, L) :- open(F, read, S), catch(c17r_%s(S, 40, L), B, L = [ball(B)]), close(S).\n") % ((j,) * 5)


def run_impl(ctx, d, texts, tag, prelude=""):
    """-> list of ('seq', [items]) | ('fail', key, detail) per text; items: ('t', term) | ('e', atom) | 'eof' | 'cap' | ('o', term) | ('ball', term)"""
    paths = []
    for i, t in enumerate(texts):
        p = os.path.join(d, "%s_%d.pl" % (tag, i))
        with open(p, "w", encoding="utf-8", newline="") as f:
            f.write(t)
        paths.append(p)
    B = 20
    jobs = []
    for j in range(0, len(texts), B):
        jid = "%s%d" % (tag, j // B)
        jobs.append({"id": jid, "consult": prelude + driver(jid), "queries": ["c17f_%s('%s', L)." % (jid, paths[i]) for i in range(j, min(j + B, len(texts)))],
                     "max_answers": 1, "timeout_ms": 5000})
    res = core.vrun_query(ctx.prop, jobs, tag=tag)
    out = [None] * len(texts)
    redo = []
    for bj, job in enumerate(jobs):
        rec = res.get(job["id"], {})
        rs = rec.get("results")
        lo = bj * B
        hi = min(lo + B, len(texts))
        if not isinstance(rs, list) or len(rs) != hi - lo:
            redo.extend(range(lo, hi)); continue
        for i in range(lo, hi):
            o = parse_answer(rs[i - lo])
            if o[0] == "fail" and o[1] in ("reader:panic", "reader:hang"):
                redo.append(i)          # re-run alone on a fresh machine to attribute it to this text
            else:
                out[i] = o
    if redo:
        jobs2 = [{"id": "%sr%d" % (tag, i), "consult": prelude + driver("r%d" % i), "queries": ["c17f_r%d('%s', L)." % (i, paths[i])],
                  "max_answers": 1, "timeout_ms": 5000, "fresh": True} for i in redo]
        res2 = core.vrun_query(ctx.prop, jobs2, tag=tag + "r")
        for i in redo:
            rec = res2.get("%sr%d" % (tag, i), {})
            if "hang" in rec:
                out[i] = ("fail", "reader:hang", "no reaction to the interrupt within 3 s after the 5 s timeout")
            elif "crash" in rec:
                out[i] = ("fail", "reader:panic", "process died rc=%s %s" % (rec.get("crash"), (rec.get("stderr") or "")[-300:]))
            elif isinstance(rec.get("results"), list) and rec["results"]:
                out[i] = parse_answer(rec["results"][0])
            else:
                out[i] = ("fail", "reader:panic", "no result: " + json.dumps(rec)[:300])
    return out


def parse_answer(ans):
    if not ans:
        return ("fail", "reader:driver-failed", "no answer")
    a = ans[0]
    if isinstance(a, dict) and "panic" in a:
        return ("fail", "reader:panic", a["panic"][:300])
    if isinstance(a, dict) and ("err" in a or "exc" in a):
        t = a.get("err") or a.get("exc")
        s = core.term_text(t)
        if "interrupt" in s:
            return ("fail", "reader:hang", s[:300])
        return ("fail", "reader:non-syntax-error:" + functor_of(terms.from_json(t)), s[:300])
    if not (isinstance(a, dict) and "b" in a and "L" in a["b"]):
        return ("fail", "reader:driver-failed", json.dumps(a)[:300])
    items, tail = terms.list_view(terms.from_json(a["b"]["L"]))
    seq = []
    for it in items:
        if it == ("atom", "eof"): seq.append("eof")
        elif it == ("atom", "cap"): seq.append("cap")
        elif it[0] == "cmp" and it[1] in ("t", "e", "o", "ball") and len(it[2]) == 1: seq.append((it[1], it[2][0]))
        else: return ("fail", "reader:driver-failed", repr(it)[:300])
    for it in seq:
        if isinstance(it, tuple) and it[0] in ("o", "ball"):
            s = terms.to_prolog(terms.number_vars([it[1]])[0]) if it[1][0] != "var" else "_"
            if "interrupt" in s:
                return ("fail", "reader:hang", s[:300])
            return ("fail", "reader:non-syntax-error:" + functor_of(it[1]), s[:300])
    return ("seq", seq)


def functor_of(t):
    if t[0] == "cmp":
        if t[1] == "error" and len(t[2]) == 2: return functor_of(t[2][0])
        return "%s/%d" % (t[1], len(t[2]))
    if t[0] == "atom": return t[1]
    return t[0]


def show_seq(seq):
    out = []
    for it in seq:
        if isinstance(it, str): out.append(it)
        elif it[0] == "t": out.append("t(%s)" % terms.to_prolog(terms.number_vars([it[1]])[0]))
        else: out.append("%s(%s)" % (it[0], terms.to_prolog(terms.number_vars([it[1]])[0])))
    return "[" + ", ".join(out) + "]"


# ---------------------------------------------------------------------------------------------- model side
def enc(t):
    out = []
    for ch in t:
        o = ord(ch)
        out.append(ch if 32 <= o < 126 and o != 34 else "~%06X" % o)
    return "".join(out)


def coq_text(t):
    return '(dec "%s")' % enc(t)


def enc_term(t):
    k = t[0]
    if k == "var": return "V%d;" % t[1]
    if k == "int": return "I%d;" % t[1]
    if k == "atom": return "A%d;%s" % (len(t[1]), enc(t[1]))
    if k == "cmp": return "C%d;%s%d;%s" % (len(t[1]), enc(t[1]), len(t[2]), "".join(enc_term(x) for x in t[2]))
    return "F"      # floats, rationals: never equal to a model term


def enc_outs(seq):
    xs = []
    for it in seq:
        if it == "eof": break
        xs.append("T" + enc_term(terms.number_vars([it[1]])[0]) if it[0] == "t" else "E")
    return '"%s"' % "".join(xs)


def coq_eval_ns(prop, exprs, chunk=300, timeout=600, tag="verdicts"):
    """Like core.coq_eval_bools but for expressions of type N: returns (values or None per index, errors)."""
    d = os.path.join(core.WORK, prop, tag)
    shutil.rmtree(d, ignore_errors=True)
    os.makedirs(d)
    shards = [list(range(i, min(i + chunk, len(exprs)))) for i in range(0, len(exprs), chunk)]
    vals, errors = [None] * len(exprs), []
    pending, running = list(enumerate(shards)), []
    while pending or running:
        while pending and len(running) < core.NPROC:
            k, idxs = pending.pop(0)
            path = os.path.join(d, "s%d.v" % k)
            with open(path, "w") as f:
                f.write("From Coq Require Import List ZArith NArith String.\nImport ListNotations.\n" + IMPORTS + "\nOpen Scope string_scope.\n")
                for j, i in enumerate(idxs):
                    f.write("Definition c%d : N := %s.\n" % (j, exprs[i]))
                f.write("Definition all : list N := [%s].\nEval vm_compute in all.\n" % "; ".join("c%d" % j for j in range(len(idxs))))
            running.append((k, idxs, subprocess.Popen(["coqc", "-noglob", "-Q", core.COQ, "V", "-o", path + "o", path],
                                                      stdout=subprocess.PIPE, stderr=subprocess.STDOUT, text=True), time.time()))
        still = []
        for k, idxs, p, t0 in running:
            if p.poll() is None:
                if time.time() - t0 > timeout:
                    p.kill(); errors.append((k, "timeout"))
                else:
                    still.append((k, idxs, p, t0))
                continue
            out = p.stdout.read()
            m = re.search(r"=\s*\[(.*?)\]\s*:\s*list N", out, re.S)
            if p.returncode != 0 or not m:
                errors.append((k, out[-2000:])); continue
            ns = [int(x) for x in re.findall(r"\d+", m.group(1))]
            if len(ns) != len(idxs):
                errors.append((k, "unparsed: " + out[-500:])); continue
            for j, i in enumerate(idxs):
                vals[i] = ns[j]
        running = still
        if running:
            time.sleep(0.05)
    return vals, errors


def coq_show_many(prop, exprs, timeout=300):
    """printed values of several expressions of type list outcome, one coqc run; names as text"""
    if not exprs:
        return []
    d = os.path.join(core.WORK, prop, "show")
    os.makedirs(d, exist_ok=True)
    path = os.path.join(d, "many.v")
    with open(path, "w") as f:
        f.write("From Coq Require Import List ZArith NArith String.\nImport ListNotations.\n" + IMPORTS + "\nOpen Scope string_scope.\n")
        for e in exprs:
            f.write("Eval vm_compute in (%s).\n" % e)
    rc, out = core.sh(["coqc", "-noglob", "-Q", core.COQ, "V", "-o", path + "o", path], timeout=timeout)
    parts = re.split(r"\n\s*: list outcome\s*", out)
    def name(m):
        return "'" + "".join(chr(int(x)) for x in re.findall(r"\d+", m.group(1))) + "'"
    res = []
    for p_ in parts[:len(exprs)]:
        p_ = re.sub(r"\s+", " ", p_).strip().replace("%N", "").replace("%Z", "")
        p_ = re.sub(r"^= ", "", p_)
        res.append(re.sub(r"\[((?:\d+(?:; )?)+)\]", name, p_))
    return res + [""] * (len(exprs) - len(res))


MK = {0: "term", 1: "lexical-error", 2: "syntax-error", 3: "either", 4: "end_of_file", 7: "nofuel"}
IK = {0: "term", 1: "syntax-error", 3: "end_of_file"}


def classify(code, seq):
    """verdict code -> (key, what)"""
    c = code - 1
    ik, mk, lexat, idx = c % 4, (c // 4) % 8, (c // 32) % 64, c // 2048
    here = seq[idx] if idx < len(seq) else "eof"
    if mk == 7:
        return "model:parse-fuel", "the model's parser ran out of fuel at read %d" % idx
    if lexat:
        first = seq[lexat - 1]
        return ("reader:desync:lexical:%s" % functor_of(first[1]),
                "read %d raised the lexical error %s; the following reads do not continue after the offending clause's end token (read %d: expected %s, got %s)"
                % (lexat - 1, functor_of(first[1]), idx, MK[mk], IK.get(ik, "?")))
    if mk == 4 and ik == 1 and idx + 1 < len(seq) and seq[idx + 1] == "eof":
        return ("reader:trailing-layout:syntax-error-before-eof",
                "only layout/comments remain after the last end token, but read %d raises syntax_error(%s) before end_of_file" % (idx, functor_of(here[1])))
    det = ""
    if ik == 1 and isinstance(here, tuple):
        det = ":" + functor_of(here[1])
    return ("reader:mismatch:expected-%s:got-%s%s" % (MK[mk], IK.get(ik, "?"), det),
            "read %d: the reference reader gives %s, the implementation %s" % (idx, MK[mk], IK.get(ik, "?")))


def run(ctx):
    rng = ctx.rng
    n = ctx.scale(2400, 40000)
    corpus = ["a. b. c.\n", "foo('a\\zb', 1). bar. baz.\n", "foo(a b). bar.\n", "foo(a)) . bar.\n", "foo('abc). bar.\n", "foo. /* unterminated bar.\n",
              "foo. bar", "foo. 0'", "foo(\x00). bar.\n", "f(\x01). c.\n", "a.\n\n", "a. % c\n", "f(`abc`). c.\n", "f(\"ab\\zc\"). c.\n", "f(a.\n g(b). h.\n",
              "X = 'a\\x41\\b'. c.\n", "f('a\\\nb'). c.\n", "a :- b, c ; d -> e. x = y. 1 < 2. a* b+c.\n", "f(A,B,A,_). g(_X, Y, Y).\n", "", "f(\xa0). c.\n",
              "Z .\nA", "foo.\nX", "a + ([). b.\n", "f(1.0e400). c.\n", "f(a;b). c.\n", "a.\n% last comment\n", "a. b. ). c. d.\n"]
    cases, seen = [], set()
    for t in corpus:
        cases.append((t, ["corpus"], None)); seen.add(t)
    while len(cases) < n:
        t, kinds, exp = gen_text(rng)
        if t in seen or not acceptable(t):
            continue
        seen.add(t)
        cases.append((t, kinds, exp))

    d = "/var/tmp/verif_c17_%d" % os.getpid()
    shutil.rmtree(d, ignore_errors=True)
    os.makedirs(d)
    t_impl = time.time()
    # texts around '|' and other operator atoms in argument, list and bracket positions, read once with the default
    # operator table and once after library(dcgs) declared '|' as an infix operator (only crashes and hangs are judged here:
    # the reference reader models the default table)
    bar_texts = ["f(|).\n", "g(a, |).\n", "h(k(|), b). c.\n", "[|].\n", "[a|].\n", "[|b].\n", "f((|)).\n", "f(a|b).\n", "(a | b).\n", "a | b.\n", "| .\n", "f(| , a).\n",
                 "{|}.\n", "f(- |).\n", "f(| -).\n", "- | - .\n", "f(|)|g(|).\n", "x :- a | b, c.\n", "f([|]|[|]).\n", "'|'(a,b). c.\n", "f(:-). g(-->). h(*).\n",
                 "f(:- |). c.\n", "[a,b|c|d].\n", "f(a, | , b).\n", "p --> a | b.\n", "p --> | .\n", "f(|||).\n", "||.\n", "f(\\+ |).\n"]
    for _ in range(ctx.scale(150, 3000)):
        t0 = rng.choice(cases)[0]
        toks = re.split(r"(\W)", t0)
        idxs = [k for k, x in enumerate(toks) if x.strip()]
        if not idxs: continue
        for k in rng.sample(idxs, min(len(idxs), rng.choice([1, 1, 2]))):
            toks[k] = "|"
        bar_texts.append("".join(toks))
    try:
        impl = run_impl(ctx, d, [c[0] for c in cases], "t")
        bar1 = run_impl(ctx, d, bar_texts, "b")
        bar2 = run_impl(ctx, d, bar_texts, "d", prelude=":- use_module(library(dcgs)).\n")
    finally:
        shutil.rmtree(d, ignore_errors=True)

    t_impl = time.time() - t_impl
    failures, tie_breaks = [], []
    per_key = {}

    def fail(key, what, text, impl_s, spec_s):
        per_key[key] = per_key.get(key, 0) + 1
        if per_key[key] <= 3:
            failures.append({"key": key, "what": what, "input": repr(text), "impl": impl_s[:600], "spec": spec_s[:600], "property_fails": True})

    exprs, eidx = [], []
    vexprs, vidx = [], []
    dist = {"kinds": {}, "impl_errors": 0, "reads": 0, "agree": 0, "valid_texts": 0, "bar_operator_texts": 2 * len(bar_texts)}
    for tag, outs in (("default-ops", bar1), ("bar-declared-infix", bar2)):
        for t, o in zip(bar_texts, outs):
            if o is None or (o[0] == "fail" and o[1] in ("reader:panic", "reader:hang")):
                key, det = (o[1], o[2]) if o else ("reader:panic", "no result")
                fail(key + ":" + tag, "the reader panicked, died or hung on a text with '|' in operand positions (%s)" % tag, t, det, "a term or syntax_error(_) for every read")
    for i, (t, kinds, exp) in enumerate(cases):
        for k in kinds:
            dist["kinds"][k] = dist["kinds"].get(k, 0) + 1
        o = impl[i]
        if exp is not None:
            dist["valid_texts"] += 1
            vexprs.append('cvs "%s" "%s"' % (enc(t), "".join("T" + enc_term(x) for x in exp))); vidx.append(i)
        if o is None or o[0] == "fail":
            key, det = (o[1], o[2]) if o else ("reader:panic", "no result")
            fail(key, {"reader:panic": "the reader panicked or the process died", "reader:hang": "the reader did not return within the timeout"}.get(
                key, "read_term raised something other than a syntax error or the driver failed"), t, det, "a term or syntax_error(_) for every read, then end_of_file")
            continue
        seq = o[1]
        dist["reads"] += len(seq)
        if any(isinstance(it, tuple) and it[0] == "e" for it in seq):
            dist["impl_errors"] += 1
        if seq[-1] != "eof":
            last = seq[-2] if len(seq) >= 2 else "cap"
            kind = functor_of(last[1]) if isinstance(last, tuple) and last[0] == "e" else ("unbound-term" if isinstance(last, tuple) and last[1][0] == "var" else "term")
            fail("reader:no-progress:" + kind, "40 reads did not reach end_of_file: the reader stopped advancing (every read gives %s)" % kind, t,
                 show_seq(seq[:4]) + " ... x40", "at most %d outcomes then end_of_file" % (t.count(".") + 2))
            continue
        exprs.append('vps "%s" %s' % (enc(t), enc_outs(seq))); eidx.append(i)

    pidx = [i for i in range(len(cases)) if i not in set(eidx)]
    pexprs = ["profile %s" % coq_text(cases[i][0]) for i in pidx]
    t_coq = time.time()
    vals, errs = coq_eval_ns(ctx.prop, exprs + vexprs + pexprs, chunk=300)
    ctx.notes.append("implementation run %.1fs, model evaluation %.1fs" % (t_impl, time.time() - t_coq))
    nontriv = 0
    dist["model"] = {"terms": 0, "lexical_errors": 0, "syntax_errors": 0, "unknown_clauses": 0, "texts_with_error": 0, "texts_resync_exercised": 0}
    profs = [v >> 20 for v in vals[:len(exprs)] if v is not None and v != 4194303] + [v for v in vals[len(exprs) + len(vexprs):] if v is not None]
    for j in range(len(exprs) + len(vexprs)):
        if vals[j] == 4194303:
            tie_breaks.append({"kind": "coq-eval", "what": "the outcome string could not be decoded by the model", "detail": (exprs + vexprs)[j][:600]}); vals[j] = None
    for j in range(len(exprs)):
        if vals[j] is not None: vals[j] &= (1 << 20) - 1
    for pv in profs:
        nt, nl, ns, nu, rs = pv % 32, (pv // 32) % 32, (pv // 1024) % 32, (pv // 32768) % 32, pv // 1048576
        dm = dist["model"]
        dm["terms"] += nt; dm["lexical_errors"] += nl; dm["syntax_errors"] += ns; dm["unknown_clauses"] += nu
        if nl + ns: dm["texts_with_error"] += 1; nontriv += 1
        if rs: dm["texts_resync_exercised"] += 1
    for _, e in errs:
        tie_breaks.append({"kind": "coq-eval", "what": "model evaluation shard failed", "detail": e})
    shows = []
    for j, i in enumerate(eidx):
        v = vals[j]
        if v is None: continue
        if v == 0:
            dist["agree"] += 1; continue
        key, what = classify(v, impl[i][1])
        if key.startswith("model:"):
            tie_breaks.append({"kind": "coq-eval", "what": what, "detail": repr(cases[i][0])}); continue
        before = per_key.get(key, 0)
        fail(key, what, cases[i][0], show_seq(impl[i][1]), "")
        if before < 3:
            shows.append((len(failures) - 1, cases[i][0]))
    for j, i in enumerate(vidx):
        v = vals[len(exprs) + j]
        if v is not None and v != 0:
            tie_breaks.append({"kind": "coq-eval", "what": "the model does not read a generated valid text as the generator's terms", "detail": repr(cases[i][0])})
    for (fi, t), sp_ in zip(shows, coq_show_many(ctx.prop, ["read_all %s" % coq_text(t) for _, t in shows])):
        failures[fi]["spec"] = sp_[:900]
    for f in failures:
        if per_key.get(f["key"], 0) > 3:
            f["what"] += " (%d texts in this run)" % per_key[f["key"]]

    samples = [{"text": cases[i][0], "mutations": cases[i][1], "impl": show_seq(impl[i][1]) if impl[i] and impl[i][0] == "seq" else str(impl[i])}
               for i in list(range(28, min(34, len(cases))))]
    dist["failure_keys"] = per_key
    return {"evaluations": len(exprs) + len(vexprs) + sum(per_key.get(k, 0) for k in per_key if k.startswith("reader:no-progress") or k in ("reader:panic", "reader:hang")),
            "distinct_nontrivial": nontriv,
            "rule": ("texts of 1-6 generated clauses (atoms incl. quoted with escapes/continuation lines, variables, integers incl. 0'c 0x 0b 0o, compounds, lists, curly terms, "
                     "operators , :- = + - * < ; ->, comments and layout between tokens) with 0-2 mutations (character delete/insert/replace/swap with brackets, quotes, "
                     "backslash, NUL/control/non-breaking space; token delete/duplicate/swap/insert; bad escapes, unterminated quotes and block comments, back-quoted strings, "
                     "end token deleted, trailing fragments such as 0' at the end, trailing layout) plus 8% token soup; each text is written to a file and read with "
                     "read_term/3 until end_of_file (cap 40 reads); the whole outcome sequence is compared with read_all of the Coq model (verdict). Unmutated texts are also "
                     "compared with the generator's own terms (check_valid). Non-trivial = distinct text in which the reference reader finds at least one certain "
                     "error (lexical or syntactic); distribution.model counts the texts in which a term is read after an error (resynchronisation exercised)."),
            "samples": samples, "distribution": dist, "failures": failures, "tie_breaks": tie_breaks}
