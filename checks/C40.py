"""C40 -- Inference-limited execution is deterministic and faithful."""
import json
from vlib import core, terms

META = {
    "level": "proof",
    "text": ("Coq theorems, for any cost profile of a goal (solutions with arbitrary costs, ending det / fail / throw) and for both readings of the "
             "limit (budget shared by all solutions -- what iso_ext.pl implements -- or fresh per solution -- what its documentation says): the answers "
             "are a function of (profile, L); they are a prefix of call(G)'s answers followed at most by inference_limit_exceeded "
             "(answers_are_prefix_then_exceeded); limit_monotone; unlimited_equals_call; R_values (! exactly on a last solution without choice "
             "point); least_sufficient_limit (the k-th threshold is the sum of the first k costs); and for a mirror of the CWIL counter: "
             "nested_does_not_disturb_outer, inner_exceeded_reported_by_inner, outer_limit_fires_inside_nested. The implementation is tied to the "
             "model without predicting any inference count: every generated goal is run at EVERY limit 0..Lmax twice; the cost profile is read off "
             "the least sufficient limits and the model must then reproduce the whole table (evaluated in Coq); nested calls must give, as inner "
             "answers, exactly what the model of the inner goal gives at the inner limit."),
    "note": ("PARTIAL: the inference counting itself (which instructions tick, dispatch.rs / machine_state.rs increment_call_count, the Prolog "
             "wrapper in iso_ext.pl) is not modelled -- costs are fitted per goal from the observed thresholds, so the correspondence establishes the "
             "laws (threshold structure, R values, determinism, nesting), not the counts. The counter mirror `go` is tied to struct CWIL by reading only. "
             "Observation (not a failure of the property as stated): the budget is shared across the solutions of G (on backtracking the counter is "
             "re-installed with the remaining budget), whereas the documentation says the limit applies to each solution. "
             "Trusted: Coq kernel + vm_compute; the Python goal generator, table parser and profile fitting; harness vrun."),
    "technique": "Coq proof (limit_monotone, unlimited_equals_call, R_values, answers_are_prefix_then_exceeded, nested_does_not_disturb_outer) over an abstract cost model + a mirror of the CWIL counter; exhaustive limit sweeps on the implementation decided in Coq",
    "design_ref": "DESIGN.md section 8, C40",
    "coq_targets": ["C40/Props.vo"],
    "coq_dirs": ["C40"],
    "props": "C40/Props.v",
    "trusted_base": ["Coq 8.16.1 kernel, vm_compute (no native_compute)", "checks/C40.py goal generator, table parser, profile fitting", "harness/vrun + tools/vlib (correspondence)"],
    "assumptions": ["goals are within the generated space and need fewer inferences than the sweep bound (others are dropped and counted)",
                    "exact inference counts are implementation defined and not predicted"],
}

IMPORTS = "From V Require Import C40.Model."
BIG = 1000000


def prelude(p):
    return (":- use_module(library(iso_ext)).\n:- use_module(library(lists)).\n:- use_module(library(between)).\n"
            "%(p)sone(G, X, L, O) :- catch(call_with_inference_limit(G, L, R), E, R = caught(E)), O = X-R.\n"
            "%(p)sout(G, X, L, Os) :- findall(O, %(p)sone(G, X, L, O), Os).\n"
            "%(p)splain(G, X, Os) :- findall(O, ( catch(G, E, O = caught(E)), ( var(O) -> O = sol(X) ; true ) ), Os).\n"
            "%(p)scd(0).\n%(p)scd(N) :- N > 0, N1 is N-1, %(p)scd(N1).\n"
            "%(p)scdd(N) :- ( N =< 0 -> true ; N1 is N-1, %(p)scdd(N1) ).\n"
            "%(p)slen([], 0).\n%(p)slen([_|T], N) :- %(p)slen(T, M), N is M+1.\n" % {"p": p})


class GoalGen:
    def __init__(self, rng, p):
        self.rng, self.p, self.nv = rng, p, 0

    def var(self):
        self.nv += 1
        return "V%d" % self.nv

    def atoms(self, k):
        return "[%s]" % ",".join(self.rng.choice(["a", "b", "c", "d", "1", "2", "f(z)"]) for _ in range(k))

    def base(self):
        rng, p = self.rng, self.p
        k = rng.choice(["member", "member", "between", "cd", "cdd", "len", "append", "eq", "true"])
        if k == "member":
            return "member(%s, %s)" % (self.var(), self.atoms(rng.randint(1, 4))), k
        if k == "between":
            return "between(1, %d, %s)" % (rng.randint(1, 3), self.var()), k
        if k == "cd": return "%scd(%d)" % (p, rng.randint(0, 8)), k
        if k == "cdd": return "%scdd(%d)" % (p, rng.randint(0, 8)), k
        if k == "len": return "%slen(%s, %s)" % (p, self.atoms(rng.randint(0, 5)), self.var()), k
        if k == "append": return "append(%s, %s, %s)" % (self.var(), self.var(), self.atoms(rng.randint(0, 3))), k
        if k == "eq": return "%s = %s" % (self.var(), rng.choice(["a", "g(1)", "[]"])), k
        return "true", k

    def goal(self, depth, feats):
        rng = self.rng
        r = rng.random()
        if depth == 0 or r < 0.35:
            g, k = self.base()
            feats.add(k)
            return g
        if r < 0.6:
            return "( %s , %s )" % (self.goal(depth - 1, feats), self.goal(depth - 1, feats))
        if r < 0.72:
            feats.add("disjunction")
            return "( %s ; %s )" % (self.goal(depth - 1, feats), self.goal(depth - 1, feats))
        if r < 0.80:
            feats.add("fail")
            return "( %s , fail )" % self.goal(depth - 1, feats)
        if r < 0.88:
            feats.add("throw")
            v = self.var()
            ball = rng.choice(["oops", "ball(1)", "error(type_error(integer, a), ctx)"])
            trig = rng.choice(["throw(%s)" % ball, "atom_length(1, _)", "( Z0 = foo, _ is Z0 + 1 )", "arg(x, f(a), _)"])
            n = rng.randint(1, 3)
            return "( member(%s, [1,2,3]) , ( %s == %d -> %s ; true ) )" % (v, v, n, trig)
        if r < 0.93:
            feats.add("if-then-else")
            return "( %s -> %s ; %s )" % (self.goal(depth - 1, feats), self.goal(depth - 1, feats), self.goal(depth - 1, feats))
        if r < 0.97:
            feats.add("once/naf")
            return rng.choice(["once(%s)", "\\+ %s"]) % self.goal(depth - 1, feats)
        feats.add("findall")
        v = self.var()
        return "findall(t, %s, %s)" % (self.goal(depth - 1, feats), v)


def norm(t):
    return terms.number_vars([t])[0]


def parse_rows(t):
    """list of X-R  ->  list of (X normalised, kind, ball)  kind in true/!/exceeded/caught"""
    out = []
    for e in terms.list_view(t)[0]:
        if not (e[0] == "cmp" and e[1] == "-" and len(e[2]) == 2):
            out.append((norm(e), "leak", None))
            continue
        x, r = e[2][0], e[2][1]
        if r == ("atom", "true"): out.append((norm(x), "true", None))
        elif r == ("atom", "!"): out.append((norm(x), "!", None))
        elif r == ("atom", "inference_limit_exceeded"): out.append((None, "exceeded", None))
        elif r[0] == "cmp" and r[1] == "caught": out.append((None, "caught", norm(r[2][0])))
        else: out.append((norm(x), "odd:" + terms.to_prolog(norm(r))[:60], None))
    return out


def coq_outcomes(row, F):
    o = []
    for i, (x, k, b) in enumerate(row):
        if k in ("true", "!"):
            idx = i if i < len(F) and F[i][0] == x and F[i][1] in ("true", "!") else 900 + i
            o.append("OSol %d %s" % (idx, "RTrue" if k == "true" else "RCut"))
        elif k == "exceeded": o.append("OExceeded")
        elif k == "caught": o.append("OThrew")
        else: o.append("OSol 999 RCut")
    return "[%s]" % "; ".join(o)


def run(ctx):
    rng = ctx.rng
    failures, tie_breaks = [], []
    LMAX = ctx.scale(160, 260)
    njobs = ctx.scale(24, 72)
    per_job = 8
    jobs, meta = [], {}
    for j in range(njobs):
        p = "j%d_" % j
        text = prelude(p)
        goals = []       # (name, kind, info, feats, body)
        for k in range(per_job):
            gg = GoalGen(rng, p)
            feats = set()
            if k == 0 and j % 6 == 0:
                n = rng.choice([10, 14, 18])     # mode probe: two solutions of about n inferences each
                body = "( %scdd(%d), V1 = 1 ; %scdd(%d), V1 = 2 )" % (p, n, p, n)
                gg.nv = 1
                feats.add("mode-probe")
                kind = ("probe", n)
            else:
                body = gg.goal(rng.choice([0, 1, 1, 2, 2, 3]), feats)
                kind = ("base", None)
            vs = ",".join("V%d" % i for i in range(1, gg.nv + 1))
            name = "%sg%d" % (p, k)
            text += "%s([%s]) :- %s.\n" % (name, vs, body)
            goals.append((name, kind, feats, body))
        # nested variants of some base goals
        nb = len(goals)
        for k in range(nb):
            if goals[k][1][0] != "base": continue
            r = rng.random()
            if r < 0.35:
                name = "%sn%d" % (p, k)
                text += "%s(Y-R1) :- call_with_inference_limit(%s(Y), %d, R1).\n" % (name, goals[k][0], 100000)
                goals.append((name, ("generous", k), {"nested-generous"}, None))
            elif r < 0.7:
                ls = rng.choice([0, 1, 2, 3, 5, 8, 12, 20, 30, 50])
                name = "%st%d" % (p, k)
                text += "%s(Y-R1) :- call_with_inference_limit(%s(Y), %d, R1).\n" % (name, goals[k][0], ls)
                goals.append((name, ("tight", k, ls), {"nested-tight"}, None))
        qs = []
        for (name, kind, feats, body) in goals:
            sweep = "findall(L-Os, (between(0, %d, L), %sout(%s(X), X, L, Os)), All)." % (LMAX, p, name)
            qs += [sweep, sweep, "%sout(%s(X), X, %d, Os)." % (p, name, BIG), "%splain(%s(X), X, Os)." % (p, name)]
        # inline (call-compiled) control constructs: one per job, smaller sweep is not possible (cost ~60+), same bound
        jid = "J%d" % j
        jobs.append({"id": jid, "consult": text, "queries": qs, "max_answers": 2, "timeout_ms": 20000})
        meta[jid] = (p, text, goals, qs)
    import time
    t0 = time.time()
    obs = core.vrun_query(ctx.prop, jobs, tag="impl")
    core.log("C40: implementation sweeps %.1fs" % (time.time() - t0))

    def binding(res, var):
        if not res or not isinstance(res[0], dict) or "b" not in res[0]: return None
        v = res[0]["b"].get(var)
        return None if v is None else terms.from_json(v)

    exprs, info = [], []
    dist = {"goals": 0, "dropped_sweep_incomplete": 0, "dropped_run_broken": 0, "with_throw": 0, "failing": 0, "multi_solution": 0,
            "nested_generous": 0, "nested_tight": 0, "nested_tight_inner_exceeded": 0, "probe_ratio_t2_over_t1": []}
    feats_count = {}
    evaluations = 0
    nontrivial = set()
    fail_seen = {}

    def fail(key, what, inp, impl, spec):
        fail_seen[key] = fail_seen.get(key, 0) + 1
        if fail_seen[key] <= 3:
            failures.append({"key": key, "what": what, "input": inp, "impl": impl[:900], "spec": spec[:900], "property_fails": True})

    for jid, (p, text, goals, qs) in meta.items():
        rec = obs.get(jid, {})
        rs = rec.get("results")
        if not rs:
            tie_breaks.append({"kind": "harness", "what": "no result for a job", "detail": json.dumps(rec)[:500]})
            continue
        prof = {}      # goal index -> (sols text, ending text, table rows, F)
        for gi, (name, kind, feats, body) in enumerate(goals):
            dist["goals"] += 1
            a1, a2 = binding(rs[4 * gi], "All"), binding(rs[4 * gi + 1], "All")
            fb, pl = binding(rs[4 * gi + 2], "Os"), binding(rs[4 * gi + 3], "Os")
            inp = text + "?- " + qs[4 * gi]
            if a1 is None or a2 is None or fb is None or pl is None:
                # an uncaught / garbage ball or a panic escaping catch/3
                detail = json.dumps([rs[4 * gi], rs[4 * gi + 2], rs[4 * gi + 3]])[:700]
                if "panic" in detail or "err" in detail or "exc" in detail:
                    fail("cwil:run-broken", "a sweep of call_with_inference_limit/3 inside catch/3 did not return (panic / escaping ball)", inp, detail, "a table of answers")
                dist["dropped_run_broken"] += 1
                continue
            rows1 = [parse_rows(r[2][1]) for r in terms.list_view(a1)[0]]
            rows2 = [parse_rows(r[2][1]) for r in terms.list_view(a2)[0]]
            F = parse_rows(fb)
            evaluations += len(rows1)
            leak = [(L, row) for L, row in enumerate(rows1) if any(k == "leak" for x, k, b in row)]
            if leak:
                L, row = leak[0]
                fail("cwil:findall-leak-on-limit", "when the limit is exceeded inside a findall/3 within G, the partial results of that findall are left behind and appear in the enclosing findall/3",
                     text + "?- %sout(%s(X), X, %d, Os)." % (p, name, L), repr(row)[:600], "Os = [_-inference_limit_exceeded] preceded by the solutions X-R only")
                continue
            if rows1 != rows2:
                L = next(i for i in range(len(rows1)) if rows1[i] != rows2[i])
                fail("cwil:nondeterministic", "two identical runs of call_with_inference_limit(G, L, R) gave different answers", inp + "  (L = %d)" % L, repr(rows1[L]), repr(rows2[L]))
                continue
            # plain call(G): same solutions, same ball
            plain = []
            for e in terms.list_view(pl)[0]:
                if e[0] == "cmp" and e[1] == "sol": plain.append((norm(e[2][0]), "sol", None))
                else: plain.append((None, "caught", norm(e[2][0])))
            fsol = [(x, "sol", None) if k in ("true", "!") else (None, k, b) for x, k, b in F]
            if fsol != plain:
                fb_ball = [b for x, k, b in F if k == "caught"]
                pl_ball = [b for x, k, b in plain if k == "caught"]
                if pl_ball and fb_ball != pl_ball and [f[:2] for f in fsol] == [q[:2] for q in plain]:
                    fail("cwil:error-ball-garbage", "an exception raised inside call_with_inference_limit/3 comes out as a different ball than from call/1",
                         inp, "ball: " + (terms.to_prolog(fb_ball[0]) if fb_ball else "none"), "ball: " + terms.to_prolog(pl_ball[0]))
                else:
                    fail("cwil:unlimited-differs-from-call", "with a limit far above the cost the answers differ from call(G)", inp, repr(F)[:600], repr(plain)[:600])
                continue
            if any(k.startswith("odd") for x, k, b in F):
                fail("cwil:odd-R", "R is neither true, ! nor inference_limit_exceeded", inp, repr(F)[:600], "R in {true, !, inference_limit_exceeded}")
                continue
            if rows1[-1] != F:
                dist["dropped_sweep_incomplete"] += 1
                continue
            # error balls inside the sweep must be the goal's ball
            exp_ball = [b for x, k, b in F if k == "caught"]
            garbage = [(L, b) for L, row in enumerate(rows1) for x, k, b in row if k == "caught" and [b] != exp_ball]
            if garbage:
                fail("cwil:error-ball-garbage", "an exception raised inside call_with_inference_limit/3 comes out as a different ball at some limit",
                     inp + "  (L = %d)" % garbage[0][0], "ball: " + terms.to_prolog(garbage[0][1]), "ball: " + (terms.to_prolog(exp_ball[0]) if exp_ball else "none"))
                continue
            # fit the profile from the least sufficient limits
            n = sum(1 for x, k, b in F if k in ("true", "!"))
            def nsol_prefix(row):
                c = 0
                for i, (x, k, b) in enumerate(row):
                    if k in ("true", "!") and i < n and F[i][0] == x: c += 1
                    else: break
                return c
            t = []
            for kk in range(1, n + 1):
                t.append(next(L for L, row in enumerate(rows1) if nsol_prefix(row) >= kk))
            t_end = next(L for L, row in enumerate(rows1) if row == F)
            costs, prev = [], 0
            for kk in range(n):
                costs.append(max(0, t[kk] - prev)); prev = max(prev, t[kk])
            if F and F[-1][1] == "caught": ending = "(EndThrow %d)" % max(0, t_end - prev); dist["with_throw"] += 1
            elif n > 0 and F[n - 1][1] == "!": ending = "EndDet"
            else: ending = "(EndFail %d)" % max(0, t_end - prev)
            if n == 0 and not (F and F[-1][1] == "caught"): dist["failing"] += 1
            if n >= 2: dist["multi_solution"] += 1
            sols = "[%s]" % "; ".join("(%d, %d)" % (i, c) for i, c in enumerate(costs))
            # segments of equal rows
            # limits above t_end + 2 are not re-evaluated in Coq: there the model gives plain = F by theorem unlimited_equals_call
            # (total cost of the fitted profile = t_end); Python only confirms that those rows equal F
            segs, lo = [], 0
            late_bad = None
            for L in range(1, len(rows1) + 1):
                if L == len(rows1) or rows1[L] != rows1[lo]:
                    if lo <= t_end + 2:
                        segs.append("(%d, %d, %s)" % (lo, min(L, t_end + 3) - lo, coq_outcomes(rows1[lo], F)))
                    if L > t_end + 3 and rows1[lo] != F and late_bad is None: late_bad = lo
                    lo = L
            if late_bad is not None:
                fail("cwil:table-not-threshold-structured", "a limit above the least limit that gives all answers gives different answers (not monotone)",
                     inp + "  (L = %d)" % late_bad, repr(rows1[late_bad])[:600], repr(F)[:600])
                continue
            segs.append("(%d, 1, %s)" % (BIG, coq_outcomes(F, F)))
            exprs.append("check_table true %s %s [%s]" % (sols, ending, "; ".join(segs)))
            info.append((jid, gi, "table", (sols, ending)))
            prof[gi] = (sols, ending, rows1, F, t)
            if kind[0] == "probe" and n == 2 and t[0] > 0:
                dist["probe_ratio_t2_over_t1"].append(round(t[1] / t[0], 2))
        # nesting laws against the model of the inner goal
        for gi, (name, kind, feats, body) in enumerate(goals):
            if kind[0] not in ("generous", "tight") or gi not in prof or kind[1] not in prof: continue
            bsols, bend, brows, bF, bt = prof[kind[1]]
            sols, ending, rows, F, t = prof[gi]
            inp = text + "?- %sout(%s(X), X, %d, Os)." % (p, name, BIG)
            # the inner answers Y-R1 are the solutions X of the nested goal: decode them into outcomes of the inner goal
            inner = []
            okdecode = True
            for (x, k, b) in F:
                if k not in ("true", "!") or x[0] != "cmp" or x[1] != "-":
                    okdecode = False; break
                y, r1 = x[2][0], x[2][1]
                if r1 == ("atom", "true"): inner.append((norm(y), "true", None))
                elif r1 == ("atom", "!"): inner.append((norm(y), "!", None))
                elif r1 == ("atom", "inference_limit_exceeded"): inner.append((None, "exceeded", None))
                else: okdecode = False
            if F and F[-1][1] == "caught":
                okdecode = True
                inner = [q for q in inner] + [(None, "caught", F[-1][2])]
            if not okdecode:
                fail("cwil:nested-answers-malformed", "a nested call_with_inference_limit did not deliver inner answers Y-R1 under a generous outer limit", inp, repr(F)[:600], "Y-R1 pairs")
                continue
            lim = 100000 if kind[0] == "generous" else kind[2]
            dist["nested_" + kind[0]] += 1
            if any(k == "exceeded" for x, k, b in inner): dist["nested_tight_inner_exceeded"] += 1
            exprs.append("outcomes_eqb (run true %d %s %s) %s" % (lim, bsols, bend, coq_outcomes(inner, bF)))
            info.append((jid, gi, "nested", (lim, bsols, bend)))
            # the enclosing count advances inside: no solution prefix of the nested goal is cheaper than for the inner goal alone
            for kk in range(min(len(t), len(bt)) if kind[0] == "generous" else 0):
                if t[kk] < bt[kk]:
                    fail("cwil:nested-threshold-lower", "a solution is reached under a smaller outer limit when the goal is wrapped in a nested call_with_inference_limit: inner inferences are not counted by the outer limit",
                         inp, "nested thresholds %s" % t, "plain thresholds %s" % bt)
                    break

    t0 = time.time()
    bad, errs = core.coq_eval_bools(ctx.prop, IMPORTS, exprs, chunk=ctx.scale(60, 80), tag="cases")
    core.log("C40: coq evaluation of %d expressions %.1fs" % (len(exprs), time.time() - t0))
    for k, e in errs:
        tie_breaks.append({"kind": "coq-eval", "what": "model evaluation shard failed", "detail": str(e)[-1500:]})
    badset = set(bad)
    shown = 0
    for idx, (jid, gi, what, x) in enumerate(info):
        p, text, goals, qs = meta[jid]
        name, kind, feats, body = goals[gi]
        if what == "nested": evaluations += 1
        if idx in badset:
            spec = ""
            if shown < 4:
                shown += 1
                if what == "table":
                    spec = core.coq_eval_show(ctx.prop, IMPORTS, "map (fun L => (L, run true L %s %s)) [0;1;2;3;5;8;13;21;34;55;89;144]" % x)
                else:
                    spec = core.coq_eval_show(ctx.prop, IMPORTS, "run true %d %s %s" % x)
                spec = spec[:900]
            if what == "table":
                fail("cwil:table-not-threshold-structured", "the answers over all limits 0..%d are not those of any cost profile: not a monotone prefix structure / wrong R values" % LMAX,
                     text + "?- " + qs[4 * gi], exprs[idx][:900], spec)
            else:
                fail("cwil:nested-inner-outcome-differs", "the answers of a nested call_with_inference_limit(G, %d, R1) under a generous outer limit differ from those of G alone at limit %d" % (x[0], x[0]),
                     text + "?- %sout(%s(X), X, %d, Os)." % (p, name, BIG), exprs[idx][-700:], spec)
        else:
            nontrivial.add((jid, gi, what))
            for f in feats: feats_count[f] = feats_count.get(f, 0) + 1
    pr = dist["probe_ratio_t2_over_t1"]
    dist["budget_shared_across_solutions"] = (sum(1 for r in pr if r > 1.5), len(pr))
    dist["probe_ratio_t2_over_t1"] = pr[:12]
    dist["features_in_agreeing_goals"] = feats_count
    dist["failures_by_key"] = fail_seen
    j0 = meta["J0"]
    samples = [{"goals": [g[3] for g in j0[2][:4]], "query": j0[3][0]}]
    return {"evaluations": evaluations, "distinct_nontrivial": len(nontrivial),
            "rule": ("goals built from member/between/count-downs (with and without a remaining choice point)/length/append/unification combined by "
                     "conjunction, disjunction, failure, throw (user balls and type/evaluation errors), if-then-else, once, \\+, findall, defined as predicates; plus "
                     "nested call_with_inference_limit wrappers of them with a generous or a tight inner limit; each goal is run at every limit 0..160 (260 in the thorough tier) twice, at 10^6 "
                     "and by call/1; evaluations = (goal, limit) runs compared + nested comparisons; non-trivial = distinct goals whose complete table is reproduced "
                     "by the fitted model in Coq + nested goals whose inner answers equal the model of the inner goal at the inner limit; goals needing more than "
                     "the sweep bound are dropped (counted)"),
            "samples": samples, "distribution": dist, "failures": failures, "tie_breaks": tie_breaks}
