"""C16 -- Numeric literals and number/text conversions are exact."""
import json, math, re, struct, time
from fractions import Fraction
from vlib import core

META = {
    "level": "proof",
    "text": ("Coq theorems over an impl-mirror of lexer.rs number_token and of parse_number_from_string: radix and decimal literals denote "
             "exactly sum d_i*r^i (radix_literal_exact), digit-group separators do not change the value (digit_groups_ignored), 0'c literals "
             "denote the code point (char_code_literal_exact), every integer written in decimal reads back as itself (int_text_roundtrip), and a "
             "list of malformed spellings is rejected (syntax_error_cases). The decimal->binary64 conversion used as the specification of float "
             "literals is proved total (dec_round_total, dec_to_float_total: no fuel exhaustion, any m > 0, any exponent) and correct against an "
             "independent specification over the real numbers (coq/C16/Round.v): dec_to_float_correct says that for every 0 <= m < 10^nd and every "
             "e the result is the canonical finite binary64 nearest to m*10^e among all m'*2^e' with |m'| < 2^53, e' >= -1074, with an even mantissa "
             "on a tie -- normal, subnormal and underflow-to-zero results alike -- and that it is the overflow result exactly when "
             "m*10^e >= 2^1024 - 2^970 (which the lexer reports as a syntax error); dec_to_float_is_flocq_round identifies it with Flocq's "
             "round radix2 (FLT_exp (-1074) 53) ZnearestE; parse_float_correct lifts this to the token texts I.F, I.FeX, I.Fe+X, I.Fe-X; "
             "float_text_roundtrip_partial: a decimal whose nearest-even binary64 is the finite double b (ryu's contract, as hypothesis) reads "
             "back as exactly b. The mirror is tied to the code by running grammar-generated spellings (every branch of number_token, valid and "
             "malformed) through number_codes/2, number_chars/2, read_from_chars/2 and read_term_from_chars/3 and comparing value/IEEE "
             "bits/syntax_error with the model inside Coq, together with the agreement of the entry points; number->text->number round trips "
             "for boundary integers and >= 20000 doubles are compared bit for bit."),
    "note": ("Trusted: Coq kernel + vm_compute; the Python generator; harness vrun. Modelled, not verified: lexical's float parser (specified as "
             "correct rounding; that it equals the proved-correct model is differential), ryu/fmt_float and Rust's {:?} float printing (only "
             "checked: the text reads back as the same double and has digits on both sides of a dot; in float_text_roundtrip_partial the "
             "printer's contract is a hypothesis, so the float round trip for every double is theorem for the reading half and differential "
             "for the printing half), i64/dashu from_str_radix (as Horner evaluation), Unicode White_Space/Cc tables for 0'c (listed in the "
             "model). The sign of a float literal is applied outside the conversion (magnitudes only in the theorems). atom_number/2 does not "
             "exist in this tree. Axioms: the theorems about real numbers (dec_to_float_correct, dec_to_float_is_flocq_round, "
             "parse_float_correct, is_nearest_even_determines, float_text_roundtrip_partial) use Flocq 4.1 and the standard library's "
             "real-number axioms ClassicalDedekindReals.sig_forall_dec, ClassicalDedekindReals.sig_not_dec, "
             "FunctionalExtensionality.functional_extensionality_dep and Classical_Prop.classic; all other theorems, including the two "
             "totality theorems, are closed under the global context."),
    "technique": "Coq proof (radix_literal_exact, digit_groups_ignored, int_text_roundtrip, char_code_literal_exact, dec_to_float_total, dec_to_float_correct, dec_to_float_is_flocq_round, parse_float_correct, float_text_roundtrip_partial, syntax_error_cases) over an impl-mirror model + differential correspondence evaluated in Coq",
    "design_ref": "DESIGN.md section 8, C16",
    "coq_targets": ["C16/Props.vo"],
    "coq_dirs": ["C16"],
    "props": "C16/Props.v",
    "trusted_base": ["Coq 8.16.1 kernel, vm_compute (no native_compute)", "Flocq 4.1.0 + Coq Reals axioms (rounding theorems only)", "harness/vrun + tools/vlib (correspondence)",
                     "lexical / ryu / dashu primitives modelled, not verified", "Python spelling generator"],
    "assumptions": ["doubles are constructed inside Prolog as M * 2.0**E1 * 2.0**E2 (exact) and their bits are read from the answer channel",
                    "the sign of a zero float is not compared"],
}

IMPORTS = "From Coq Require Import Uint63.\nFrom V Require Import C16.Model."

# ------------------------------------------------------------------ helpers
def bits_of(x):
    return struct.unpack(">Q", struct.pack(">d", x))[0]


def float_of(bits):
    return struct.unpack(">d", struct.pack(">Q", bits))[0]


def coq_str(s):
    return '"' + s.replace('"', '""') + '"'


def coq_codes(s):
    """Coq expression for the code point list of a spelling, through string literals only (numeric literals parse slowly)"""
    if all(32 <= ord(c) < 127 for c in s):
        return "(cs %s)" % coq_str(s)
    return '(hx "%s")' % " ".join("%x" % ord(c) for c in s)


def coq_int(z):
    return '(zdec "%d")' % z


def coq_bits(b):
    return '(zhex "%x")' % (b & ((1 << 63) - 1))


def coq_obs(o):
    k = o[0]
    if k == "int":
        return '(oi "%d")' % o[1]
    if k == "flt":
        b = o[1]
        return '(ofl %s "%x")' % ("true" if b >> 63 else "false", b & ((1 << 63) - 1))
    return {"syn": "OSyn", "nonnum": "ONonNum"}.get(k, "OOther")


def pack_spelling(s):
    cps = [ord(c) for c in s]
    out = [len(cps)]
    for i in range(0, len(cps), 3):
        g = cps[i:i + 3] + [0, 0]
        out.append(g[0] | (g[1] << 21) | (g[2] << 42))
    return out


def pack_obs(o, prev=None):
    if prev is not None and o == prev:
        return [5]
    k = o[0]
    if k == "syn": return [0]
    if k == "nonnum": return [1]
    if k == "int":
        z = abs(o[1]); ls = []
        while z:
            ls.append(z & ((1 << 60) - 1)); z >>= 60
        return [3, 1 if o[1] < 0 else 0, len(ls)] + ls
    if k == "flt":
        return [4, o[1] >> 63, o[1] & ((1 << 63) - 1)]
    return [2]


def packed(fn, ints):
    return "%s [%s]%%uint63" % (fn, ";".join(str(x) for x in ints))


def pack_case(s, o):
    ints = pack_spelling(s)
    prev = None
    for x in o:
        ints += pack_obs(x, prev); prev = x
    return packed("chkp", ints)


def obs_of(t):
    """vrun JSON term -> observation tuple"""
    if t is None:
        return ("other", "missing")
    if "i" in t:
        return ("int", int(t["i"]))
    if "f" in t:
        return ("flt", int(t["f"], 16))
    if t.get("a") == "syn":
        return ("syn",)
    if t.get("a") == "nonnum":
        return ("nonnum",)
    return ("other", core.term_text(t))


def obs_text(o):
    if o[0] == "int": return str(o[1])
    if o[0] == "flt": return "float#%016x (%r)" % (o[1], float_of(o[1]))
    if o[0] == "other": return "other: " + str(o[1])[:200]
    return o[0]


PROG = """:- use_module(library(charsio)).
:- use_module(library(lists)).
c16_cls_J(syntax_error(_), syn) :- !.
c16_cls_J(E, other(E)).
c16_nc_J(Cs, R) :- catch((number_codes(X, Cs), R = X), error(E, _), c16_cls_J(E, R)).
c16_nh_J(Cs, R) :- atom_codes(A, Cs), atom_chars(A, Chs), catch((number_chars(X, Chs), R = X), error(E, _), c16_cls_J(E, R)).
c16_num_J(T, R) :- ( number(T) -> R = T ; R = nonnum ).
c16_rd_J(Cs, R) :- atom_codes(A, Cs), atom_chars(A, Chs), catch((read_from_chars(Chs, T), c16_num_J(T, R)), error(E, _), c16_cls_J(E, R)).
c16_rt_J(Cs, R) :- atom_codes(A, Cs), atom_chars(A, Chs), catch((read_term_from_chars(Chs, T, []), c16_num_J(T, R)), error(E, _), c16_cls_J(E, R)).
c16_all_J(Cs, R1, R2, R3, R4) :- c16_nc_J(Cs, R1), c16_nh_J(Cs, R2), append(Cs, [32,46], C3), c16_rd_J(C3, R3), append(Cs, [46], C4), c16_rt_J(C4, R4).
c16_f_J(X, Y1, A1, Y2, A2, Y3) :-
    number_codes(X, Cs), atom_codes(A1, Cs), catch(number_codes(Y1, Cs), error(E1, _), c16_cls_J(E1, Y1)),
    number_chars(X, Chs), atom_chars(A2, Chs), catch(number_chars(Y2, Chs), error(E2, _), c16_cls_J(E2, Y2)),
    append(Chs, [' ', '.'], Ch3), catch((read_from_chars(Ch3, T), c16_num_J(T, Y3)), error(E3, _), c16_cls_J(E3, Y3)).
"""


# ------------------------------------------------------------------ spelling generator
LAYOUTS = ["", "", " ", "\n", " \t", " % c\n", "/* c */", " /* c */ ", "\n\n", "\r\n", "/**/", "/***/", "% 1\n% 2\n"]
BAD_AFTER_US = ["", " ", "_", "a", "/", "/*", "/* x", "/* x *", "%", "% x", "% x\n", ".", ".5", "e", "/ 2", "'", "\n"]


def rdigits(rng, k, alphabet="0123456789"):
    return "".join(rng.choice(alphabet) for _ in range(k))


def gen_int(rng):
    r = rng.random()
    if r < 0.35:
        return rdigits(rng, rng.choice([1, 1, 2, 3, 5, 9]))
    if r < 0.5:
        return "0" * rng.choice([1, 2, 3]) + rdigits(rng, rng.choice([0, 1, 4]))
    if r < 0.75:
        k = rng.choice([31, 32, 53, 55, 56, 62, 63, 64, 65, 100])
        return str((1 << k) + rng.choice([-2, -1, 0, 1, 2]))
    return rng.choice("123456789") + rdigits(rng, rng.choice([17, 18, 19, 20, 25, 40, 90]))


def gen_grouped(rng):
    n = rng.choice([2, 2, 3, 4])
    parts = [rdigits(rng, rng.choice([1, 2, 3, 3, 6])) for _ in range(n)]
    s = parts[0]
    for p in parts[1:]:
        s += "_" + rng.choice(LAYOUTS) + p
    return s


def gen_bad_group(rng):
    base = rdigits(rng, rng.choice([1, 2, 3]))
    r = rng.random()
    if r < 0.6:
        return base + "_" + rng.choice(LAYOUTS) + rng.choice(BAD_AFTER_US)
    if r < 0.8:
        return base + "_" + rng.choice(LAYOUTS) + rdigits(rng, 2) + "_" + rng.choice(BAD_AFTER_US)
    return rng.choice(["_1", "1__0", "1_ _0", "1_0_", "0_x1", "0_'a", "0_0x1", "0_.5", "1_0.5", "1_0.5e1", "1._5", "1.5_0", "1.5e_1", "1.5e1_0"])


RADIX = {"x": "0123456789abcdefABCDEF", "o": "01234567", "b": "01"}


def gen_radix(rng):
    p = rng.choice("xob")
    r = rng.random()
    if r < 0.5:
        return "0" + p + rdigits(rng, rng.choice([1, 2, 4, 8, 15, 16, 17, 30]), RADIX[p])
    if r < 0.65:
        return "0" + p + rdigits(rng, rng.choice([1, 3]), RADIX[p]) + rng.choice(["g", "8", "2", "9", "_1", ".5", "x", " 1", "G", "z"])
    if r < 0.8:
        return "0" + p + rng.choice(["", "g", "_1", " 1", ".", "-1", "x1", "or 1", "'"])
    if r < 0.9:
        return "0" + p.upper() + rdigits(rng, 2, RADIX[p])
    return rng.choice(["00", "0", "000"]) + p + rdigits(rng, 2, RADIX[p]) if rng.random() < 0.5 else "1" + p + rdigits(rng, 2, RADIX[p])


ESC_TAILS = ["n", "t", "r", "a", "b", "f", "v", "e", "s", "d", "z", "0", "\\", "'", "\"", "`", "\n", "\nx", "\n'", "x", "", " ",
             "101\\", "101", "8\\", "7\\", "0\\", "1\\", "777\\", "7777777\\", "77777777777777\\", "12a\\", "10",
             "x41\\", "x41", "x41g", "xg\\", "x\\", "x", "xD7FF\\", "xD800\\", "xDFFF\\", "xE000\\", "x10FFFF\\", "x110000\\",
             "xFFFFFFFFF\\", "x00041\\", "xe9\\", "x1F600\\", "x1\\", "X41\\"]
NONASCII = [0xE9, 0x65E5, 0xA0, 0x85, 0x2028, 0x1F600, 0xAD, 0x200B, 0xB2, 0x661, 0x3000, 0x9F, 0xA1, 0x2003, 0x1680, 0xFEFF, 0x7F, 0x80]


def gen_char(rng):
    r = rng.random()
    if r < 0.4:
        c = chr(rng.randrange(32, 127))
        return "0'" + c
    if r < 0.5:
        return "0'" + rng.choice(["\t", "\n", "\r", "\x0b", "\x0c", "\x01", "\x1f", "\x7f"])
    if r < 0.6:
        return "0'" + rng.choice(["'", "''", "'''", "''''", "'a", "'a'", "' ", "'.", "''.", "\"", "\"\"", "`", "``"])
    if r < 0.9:
        return "0'\\" + rng.choice(ESC_TAILS)
    return "0'" + chr(rng.choice(NONASCII))


def gen_float(rng):
    if rng.random() < 0.15:
        # long fractions: many leading zeros before the first significant digit, or significant digits far to the right
        k = rng.choice([10, 17, 18, 19, 20, 22, 23, 24, 25, 26, 28, 30, 33, 40, 60])
        sig = rdigits(rng, rng.choice([1, 1, 3, 7, 17, 20])).lstrip("0") or "1"
        ip0 = rng.choice(["0", "0", "0", "00", "7", "123"])
        t = ip0 + "." + "0" * k + sig
        r = rng.random()
        if r < 0.4: return t
        if r < 0.8: return t + rng.choice("eE") + rng.choice(["", "+"]) + str(k + rng.choice([-3, -1, 0, 1, 2, 5, 10]))
        return t + rng.choice("eE") + "-" + str(rng.choice([1, 5, 280, 290, 300]))
    ip = rng.choice([rdigits(rng, rng.choice([1, 1, 2, 5])), "0", "00", str(rng.randrange(1, 10 ** 16))])
    fp = rng.choice([rdigits(rng, rng.choice([1, 1, 2, 5, 17, 25])), "0", "5", "000", "10"])
    r = rng.random()
    if r < 0.3:
        return ip + "." + fp
    e = rng.choice("eE")
    sg = rng.choice(["", "+", "-"])
    if r < 0.75:
        ex = rng.choice(["0", "1", "5", "05", "10", "22", "23", "100", "300", "307", "308", "309", "310", "320", "323", "324", "325", "330", "400",
                         "0000000001", str(rng.randrange(0, 340))])
        return ip + "." + fp + e + sg + ex
    if r < 0.9:   # back-off forms
        return rng.choice([ip + "." + e + "5", ip + "." + fp + e, ip + "." + fp + e + "+", ip + "." + fp + e + "-", ip + "." + fp + e + sg + "x",
                           ip + "." + fp + e + "+-1", ip + "." + fp + e + " 5", ip + ".", ip + ".x", ip + "..", ip + ".e", ip + ". 5", ip + "." + fp + ".",
                           ip + "." + fp + "." + fp, ip + "e5", ip + "E+5", ip + "." + fp + "f", ip + "." + fp + "Inf", ip + "." + fp + "NaN", ip + ".Inf"])
    return ip + "." + fp + e + sg + rng.choice(["99999999999999999999", "4294967296", "2147483648", "18446744073709551616", "1000"])


PREFIXES = [" ", "\n", "-", "- ", "-\n", " - ", "/* c */", "% c\n", "--", "+", "-/**/", "- /* c */", "-% c\n", "\t-", "- -", "-.", "-(", " \t\n"]
SUFFIXES = [" ", ".", "x", "_", "e", "%", "\n", ")", "'", "0'", ". ", ".\n", ".%", ".x", " .", "e5", "E", "_1", " 1", "/* c */", "% c", "/*", ","]


def gen_spelling(rng):
    r = rng.random()
    if r < 0.16: tag, s = "int", gen_int(rng)
    elif r < 0.30: tag, s = "group", gen_grouped(rng)
    elif r < 0.40: tag, s = "badgroup", gen_bad_group(rng)
    elif r < 0.55: tag, s = "radix", gen_radix(rng)
    elif r < 0.75: tag, s = "char", gen_char(rng)
    else: tag, s = "float", gen_float(rng)
    r = rng.random()
    if r < 0.18:
        s = rng.choice(PREFIXES) + s; tag += "+prefix"
    r = rng.random()
    if r < 0.18:
        s = s + rng.choice(SUFFIXES); tag += "+suffix"
    if rng.random() < 0.08 and s:
        i = rng.randrange(len(s) + 1)
        op = rng.random()
        c = rng.choice("0123456789_.eE+-' x\\\n/*%ob")
        if op < 0.4: s = s[:i] + c + s[i:]
        elif op < 0.7 and i < len(s): s = s[:i] + s[i + 1:]
        elif i < len(s): s = s[:i] + c + s[i + 1:]
        tag += "+mut"
    return tag, s


FIXED_SPELLINGS = [
    "0", "1", "12", "007", "1_000", "1_ 000", "1_\n000", "1_ /* c */ 000", "1_", "1_ ", "1_/", "1__0", "1_a",
    "0x", "0xg", "0xff", "0xFF", "0XFF", "0o", "0o17", "0o8", "0b", "0b101", "0b2", "0xor 1", "00x1",
    "0'a", "0''", "0'''", "0'", "0' ", "0'\\n", "0'\\x41\\", "0'\\x41", "0'\\\\", "0'\\'", "0'\\\n", "0'\\\n'", "0'ab", "0'\\101\\",
    "1.", "1.e5", "1.0e", "1.0e+", "1.0e-", "1.0e+5", "1.0E-3", "1.0e5", "1.5", "1.5e10", "1.0Inf", "1.0e400", "1.0e-400",
    "-1", "- 1", "-1.5", "- 1.5", "-0.0", "+1", "--1", " 12", "12 ", "\n12", "/* c */ 12", "% c\n12", "", " ", "-", "a", "-a", ".5", "1 .0",
    "1.0e309", "1.0e308", "0.0e99999999999999999999", "1.0e99999999999999999999", "1.0e-99999999999999999999",
]

HARD_FLOATS = [
    "0.0000000000000000000000001", "0.00000000000000000000001234567", "0.00000000000000000000000000001e29", "0.000000000000000000000000000000000001e36",
    "123.000000000000000000000000000000000456e3", "0.00000000000000000000000099999999999999999999", "7.0000000000000000000000000000000000000001",
    "9007199254740993.0", "9007199254740992.0", "9007199254740994.0", "9007199254740995.0", "9007199254740993.0000000001",
    "9007199254740992.9999999999", "9007199254740993.00000000000000000000000000001", "0.1", "0.2", "0.3", "5.0e-324", "4.9e-324",
    "2.4703282292062327e-324", "2.4703282292062328e-324", "2.47e-324", "2.48e-324", "7.4e-324", "7.5e-324",
    "1.7976931348623157e308", "1.7976931348623158e308", "1.7976931348623159e308", "1.797693134862315807e308", "1.797693134862315808e308",
    "2.2250738585072011e-308", "2.2250738585072012e-308", "2.2250738585072014e-308", "2.2250738585072009e-308", "2.225073858507201e-308",
    "1.0e23", "8.41e21", "1.0e22", "9.0e22", "8.5e21", "1.0e-5", "1.0e15", "1.0e16", "123456789012345678.0", "0.000001", "4.35e-322",
    "1.00000000000000011102230246251565404236316680908203125", "1.00000000000000011102230246251565404236316680908203126",
    "1.00000000000000011102230246251565404236316680908203124", "1.0000000000000002", "0.99999999999999994", "0.99999999999999995",
    "0.500000000000000166533453693773481063544750213623046875", "3.0e-324", "17976931348623157.0e292", "179769313486231580793728971405303415079934132710037826936173778980444968292764750946649017977587207096330286416692887910946555547851940402630657488671505820681908902000708383676273854845817711531764475730270069855571366959622842914819860834936475292719074168444365510704342711559699508093042880177904174497791.999",
    "2.2250738585072011360574097967091319759348195463516456480234261097248222220210769455165295239081350879141491589130396211068700864386945946455276572074078206217433799881410632673292535522868813721490129811224514518898490572223072852551331557550159143974763979834118019993239625482890171070818506906306666559949382757725720157630626906633326475653000092458883164330377797918696120494973903778297049050510806099407302629371289589500035837999672072543043602840788957717961509455167482434710307026091446215722898802581825451803257070188608721131280795122334262883686223215037756666225039825343359745688844239002654981983854879482922068947216898310996983658468140228542433306603398508864458040010349339704275671864433837704860378616227717385456230658746790140867233276367187499e-308",
]


def gen_hard(rng, n):
    """decimal spellings at and around the exact midpoints between adjacent doubles"""
    out = []
    for _ in range(n):
        r = rng.random()
        if r < 0.5:
            ex = rng.randrange(-40, 90)
        elif r < 0.8:
            ex = rng.randrange(-10, 60)
        else:
            ex = rng.choice([-1074, -1073, -1060, -1023, -1022, 1023, 1022, 500, -500])
        if ex <= -1023:
            m = rng.randrange(1, 1 << 20) if ex < -1060 else rng.randrange(1, 1 << 52)
            lo = Fraction(m, 1 << 1074); ulp = Fraction(1, 1 << 1074)
        else:
            m = (1 << 52) | rng.getrandbits(52)
            if rng.random() < 0.2: m = rng.choice([1 << 52, (1 << 53) - 1, (1 << 52) + 1])
            lo = Fraction(m) * Fraction(2) ** (ex - 52); ulp = Fraction(2) ** (ex - 52)
        mid = lo + ulp / 2
        # exact decimal expansion of mid (finite): digits and exponent
        den = mid.denominator
        k = den.bit_length() - 1      # den = 2^k
        num = mid.numerator * 5 ** k  # mid = num / 10^k
        ds = str(num)
        variant = rng.random()
        if len(ds) > 60:
            # too long to write exactly: truncate to 18..40 digits -> below the midpoint; or bump -> above
            keep = rng.choice([17, 18, 19, 20, 21, 25, 30, 40])
            e10 = len(ds) - keep - k
            d2 = ds[:keep]
            if variant < 0.5:
                d2 = str(int(d2) + 1)
            out.append(("hard-trunc", d2[0] + "." + (d2[1:] or "0") + "e" + str(e10 + len(d2) - 1)))
            continue
        if variant < 0.34:
            pass                                       # exact tie
        elif variant < 0.67:
            ds = ds + "0" * rng.choice([0, 1, 5, 12]) + "1"; k += len(ds) - len(str(num))   # just above
        else:
            ds = str(num * 10 ** 3 - 1); k += 3        # just below
        if k <= 0:
            txt = ds + "0" * (-k) + ".0"
        elif k >= len(ds):
            txt = "0." + "0" * (k - len(ds)) + ds
        else:
            txt = ds[:-k] + "." + ds[-k:]
        if rng.random() < 0.3 and "." in txt:
            # move the point: scientific form
            a, b = txt.split(".")
            if a.strip("0"):
                a = a.lstrip("0") or "0"
                txt = a[0] + "." + (a[1:] + b) + "e" + str(len(a) - 1)
        out.append(("hard-mid", txt))
    return out


def sig_digits(s):
    m = re.match(r"^\s*-?\s*(\d+)\.(\d+)", s.replace("_", ""))
    if not m: return 0
    return len((m.group(1) + m.group(2)).lstrip("0"))


# ------------------------------------------------------------------ doubles for the round trip
def gen_doubles(rng, n):
    ds = set()
    spec = ["0.1", "0.2", "0.3", "5e-324", "1.7976931348623157e308", "2.2250738585072011e-308", "2.2250738585072014e-308", "1e23", "8.41e21",
            "9007199254740993", "1e15", "1e16", "1e17", "1e-5", "1e-4", "1e-7", "123456.789", "1e21", "1e22", "4.35e-322", "1.5", "100.0", "1e100", "1e-100",
            "0.001", "1e-6", "123456789012345680.0", "3.141592653589793", "2.718281828459045", "1e300", "1e-300", "4.9406564584124654e-324", "0.5", "2.5e-5"]
    for s in spec:
        ds.add(bits_of(float(s)))
    for k in range(-1074, 1024, 7):
        b = bits_of(math.ldexp(1.0, k))
        for d in (-1, 0, 1):
            if 0 < b + d < 0x7FF0000000000000: ds.add(b + d)
    for k in range(0, 23):
        ds.add(bits_of(float(10 ** k)))
        ds.add(bits_of(float(10 ** k)) + 1)
    while len(ds) < n:
        r = rng.random()
        if r < 0.45:
            b = rng.getrandbits(63)
            if b >= 0x7FF0000000000000: continue
        elif r < 0.6:
            b = rng.getrandbits(52)            # subnormals
            if rng.random() < 0.3: b = rng.getrandbits(rng.randrange(1, 52))
        elif r < 0.8:
            b = bits_of(rng.uniform(-1, 1) * 10 ** rng.randrange(-8, 24)) & ((1 << 63) - 1)
        elif r < 0.9:
            b = bits_of(float(rng.randrange(1, 10 ** rng.randrange(1, 18))) / 10 ** rng.randrange(0, 8))
        else:
            b = bits_of(float(rng.randrange(1, 1 << rng.randrange(1, 64))))
        if b == 0: continue
        ds.add(b)
    out = []
    for b in sorted(ds):
        out.append(b | (1 << 63) if rng.random() < 0.25 else b)
    rng.shuffle(out)
    return out


def double_expr(bits):
    """Prolog arithmetic expression that constructs the double exactly, without reading a float literal"""
    neg = bits >> 63
    mag = bits & ((1 << 63) - 1)
    e = mag >> 52
    f = mag & ((1 << 52) - 1)
    if e == 0:
        m, ex = f, -1074
    else:
        m, ex = f | (1 << 52), e - 1075
    while m % 2 == 0 and m:
        m //= 2; ex += 1
    e1 = max(ex, -1000)
    e2 = ex - e1
    s = "%d * 2.0 ** (%d) * 2.0 ** (%d)" % (m, e1, e2)
    return ("-(%s)" % s) if neg else s


def gen_ints(rng):
    pool = [0, 1, -1, 2, -2, 9, 10, -10, 99, 100]
    for k in (31, 32, 53, 55, 56, 62, 63, 64, 65, 100, 128, 200):
        for d in (-1, 0, 1):
            pool += [(1 << k) + d, -(1 << k) + d]
    for _ in range(80):
        pool.append(rng.getrandbits(rng.choice([20, 56, 64, 70, 128, 300, 300])) * rng.choice([1, -1]))
    for k in (1, 5, 18, 19, 20, 30, 60):
        pool += [10 ** k, 10 ** k - 1, -(10 ** k)]
    return sorted(set(pool))


def int_expr(z):
    """construct the integer from 30-bit pieces (small literals only)"""
    neg = z < 0
    a = abs(z)
    parts = []
    i = 0
    while a:
        parts.append("%d * 2 ^ %d" % (a & ((1 << 30) - 1), 30 * i)); a >>= 30; i += 1
    s = " + ".join(parts) if parts else "0"
    return "-(%s)" % s if neg else s


# ------------------------------------------------------------------ classification of failures
def agree_class(s):
    if re.search(r"_(\s|%[^\n]*\n?|/\*.*?\*/|/\*?$|/$)*$", s, re.S) and re.search(r"\d_", s):
        return "digit-sep-before-eof"
    return "other"


def ulp_apart(a, b):
    return a[0] == "flt" and b[0] == "flt" and (a[1] >> 63) == (b[1] >> 63) and abs(a[1] - b[1]) == 1


def run(ctx):
    rng = ctx.rng
    failures, tie_breaks, notes = [], [], []
    dist = {"spelling_tags": {}, "model_outcomes": {}}

    # ---------------- part A: spellings through the four entry points
    n_sp = ctx.scale(2900, 120000)
    n_hard = ctx.scale(500, 30000)
    cases, seen = [], set()

    def add(tag, s):
        if s in seen or "\x00" in s: return
        seen.add(s); cases.append((tag, s))
    for s in FIXED_SPELLINGS: add("fixed", s)
    for s in HARD_FLOATS: add("hard-fixed", s)
    for tag, s in gen_hard(rng, n_hard): add(tag, s)
    tries = 0
    while len(cases) < n_sp + n_hard + len(FIXED_SPELLINGS) + len(HARD_FLOATS) and tries < 20 * n_sp:
        tries += 1
        tag, s = gen_spelling(rng)
        add(tag, s)
    for tag, _ in cases:
        t = tag.split("+")[0]
        dist["spelling_tags"][t] = dist["spelling_tags"].get(t, 0) + 1

    B = 50
    jobs = []
    for j in range(0, len(cases), B):
        jid = "a%d" % j
        prog = PROG.replace("_J", "_" + jid)
        qs = ["c16_all_%s([%s], R1, R2, R3, R4)." % (jid, ",".join(str(ord(c)) for c in s)) for _, s in cases[j:j + B]]
        jobs.append({"id": jid, "consult": prog, "queries": qs, "timeout_ms": 20000})
    t0 = time.time()
    res = core.vrun_query(ctx.prop, jobs, tag="spell")
    notes.append("spellings impl %.1fs" % (time.time() - t0)); t0 = time.time()
    obs = []
    for j in range(0, len(cases), B):
        rec = res.get("a%d" % j) or {}
        rs = rec.get("results")
        for i in range(len(cases[j:j + B])):
            o = None
            if rs is not None and i < len(rs) and rs[i] and isinstance(rs[i][0], dict) and "b" in rs[i][0]:
                b = rs[i][0]["b"]
                o = tuple(obs_of(b.get(k)) for k in ("R1", "R2", "R3", "R4"))
            else:
                why = json.dumps(rs[i] if rs is not None and i < len(rs) else rec)[:300]
                o = (("other", why),) * 4
            obs.append(o)

    exprs = [pack_case(s, o) for (_, s), o in zip(cases, obs)]
    bad, errs = core.coq_eval_bools(ctx.prop, IMPORTS, exprs, chunk=600, tag="spellcases")
    notes.append("spellings coq %.1fs" % (time.time() - t0)); t0 = time.time()
    for k, t in errs:
        tie_breaks.append({"kind": "coq-eval", "what": "model evaluation shard failed (spellings)", "detail": t})

    # diagnose the failing cases: which conjunct, what the model says
    if bad:
        dist["failing_spellings"] = len(bad)
        # diagnose a bounded subset: first the cases that the two known classes do not explain, then tag-diverse
        def explained(i):
            (_, s), o = cases[i], obs[i]
            if agree_class(s) == "digit-sep-before-eof" and o[0][0] == "int" and o[2][0] == "syn":
                return True
            if o[0][0] == "flt" and sig_digits(s) > 19:
                try:
                    return ulp_apart(("flt", bits_of(float(s.replace("_", "").replace(" ", "").replace("\n", "")))), o[0])
                except Exception:
                    return False
            return False
        unexplained = [i for i in bad if not explained(i)]
        dist["failing_spellings_unexplained_by_known_classes"] = len(unexplained)
        by_tag, pick = {}, list(unexplained[:40])
        for i in bad:
            if i in pick: continue
            t = cases[i][0].split("+")[0]
            by_tag.setdefault(t, []).append(i)
        while len(pick) < 60 and any(by_tag.values()):
            for t in sorted(by_tag):
                if by_tag[t] and len(pick) < 60:
                    pick.append(by_tag[t].pop(0))
        bad = sorted(pick)
        d_exprs = []
        for i in bad:
            (_, s), o = cases[i], obs[i]
            pc = pack_case(s, o)[len("chkp "):]
            d_exprs += ["diagp %d%%uint63 %s" % (c, pc) for c in range(5)]
        dbad, derrs = core.coq_eval_bools(ctx.prop, IMPORTS, d_exprs, chunk=500, tag="diag")
        dbad = set(dbad)
        names = ["number_codes", "number_chars", "read_from_chars(S+' .')", "read_term_from_chars(S+'.')"]
        shown = {}
        per_key = {}
        for n_, i in enumerate(bad):
            (tag, s), o = cases[i], obs[i]
            for c in range(5):
                if 5 * n_ + c not in dbad: continue
                if c < 4:
                    # expected by Python's correctly rounded float() when the spelling is a plain float, for classification only
                    key = "model-mismatch:%s:%s" % (names[c].split("(")[0], tag.split("+")[0])
                    what = "%s differs from the model of the lexer" % names[c]
                    if o[c][0] == "flt":
                        try:
                            ref = ("flt", bits_of(float(s.replace("_", "").replace(" ", ""))))
                        except Exception:
                            ref = None
                        if ref and ulp_apart(ref, o[c]):
                            key = "float-parse:lossy-1ulp:" + ("many-digits" if sig_digits(s) > 19 else s)
                            what = "float literal is read 1 ulp away from the correctly rounded value (%s)" % names[c]
                else:
                    key = "entry-agree:" + agree_class(s)
                    what = "number_chars/number_codes and the reader disagree on this spelling"
                if (key, s) in shown: continue
                shown[(key, s)] = 1
                per_key[key] = per_key.get(key, 0) + 1
                if per_key[key] > 3: continue
                failures.append({"key": key, "what": what, "input": json.dumps(s), "entry": names[c] if c < 4 else "number_chars(S) vs read(S+' .')",
                                 "impl": {n: obs_text(x) for n, x in zip(names, o)}, "spec_expr": "(number_chars_model %s, read_model (%s ++ cs \" .\"))" % (coq_codes(s), coq_codes(s)),
                                 "property_fails": True})
        dist["failing_spellings_by_key"] = per_key
        # one batched show for the specs
        if failures:
            ex = "[" + "; ".join(f["spec_expr"] for f in failures[:12]) + "]"
            txt = core.coq_eval_show(ctx.prop, IMPORTS, ex)
            for f in failures:
                f["spec"] = txt[:3000]

    # ---------------- part B: number -> text -> number
    n_dbl = ctx.scale(20000, 400000)
    dbls = gen_doubles(rng, n_dbl)
    ints = gen_ints(rng)
    jobs = []
    for j in range(0, len(dbls), 100):
        jid = "f%d" % j
        qs = ["X is %s, c16_f_%s(X, Y1, A1, Y2, A2, Y3)." % (double_expr(b), jid) for b in dbls[j:j + 100]]
        jobs.append({"id": jid, "consult": PROG.replace("_J", "_" + jid), "queries": qs, "timeout_ms": 30000})
    for j in range(0, len(ints), 100):
        jid = "i%d" % j
        qs = ["X is %s, c16_f_%s(X, Y1, A1, Y2, A2, Y3)." % (int_expr(z), jid) for z in ints[j:j + 100]]
        jobs.append({"id": jid, "consult": PROG.replace("_J", "_" + jid), "queries": qs, "timeout_ms": 30000})
    notes.append("diagnosis %.1fs" % (time.time() - t0)); t0 = time.time()
    res = core.vrun_query(ctx.prop, jobs, tag="round")
    notes.append("roundtrip impl %.1fs" % (time.time() - t0)); t0 = time.time()
    rt_eval = 0
    text_checks = []     # Coq expressions
    n_int_texts = [0]
    nodot = 0
    rt_fail = {}

    def rt_failure(key, what, inp, impl):
        rt_fail[key] = rt_fail.get(key, 0) + 1
        if rt_fail[key] <= 3:
            failures.append({"key": key, "what": what, "input": inp, "impl": impl, "spec": "the text reads back as the identical number", "property_fails": True})

    def one(values, prefix, is_float):
        nonlocal rt_eval, nodot
        for j in range(0, len(values), 100):
            rec = res.get("%s%d" % (prefix, j)) or {}
            rs = rec.get("results")
            for i, v in enumerate(values[j:j + 100]):
                q = "X is %s, number_codes(X, Cs), number_codes(Y, Cs)." % (double_expr(v) if is_float else int_expr(v))
                if rs is None or i >= len(rs) or not rs[i] or not isinstance(rs[i][0], dict) or "b" not in rs[i][0]:
                    rt_failure("roundtrip:no-answer", "round trip query gave no answer", q, json.dumps(rs[i] if rs and i < len(rs) else rec)[:300])
                    continue
                b = rs[i][0]["b"]
                x = obs_of(b.get("X"))
                want = ("flt", v) if is_float else ("int", v)
                if x != want:
                    rt_failure("roundtrip:construction", "the operand could not be constructed exactly (harness-side)", q, obs_text(x))
                    continue
                a1, a2 = b.get("A1", {}).get("a"), b.get("A2", {}).get("a")
                if a1 is None or a2 is None:
                    # purely numeric atoms come back as atoms too; anything else is unexpected
                    rt_failure("roundtrip:text", "printed text not observable", q, json.dumps(b)[:300])
                    continue
                for nm, y, txt in (("number_codes", obs_of(b.get("Y1")), a1), ("number_chars", obs_of(b.get("Y2")), a2), ("number_chars+read", obs_of(b.get("Y3")), a2)):
                    rt_eval += 1
                    if y == want:
                        continue
                    if y[0] == "syn" and is_float and re.match(r"^-?\d+e-?\d+$", txt):
                        rt_failure("roundtrip:%s:float-text-without-dot" % nm.split("+")[0],
                                   "%s prints the float as %r, which %s itself rejects with a syntax error" % (nm, txt, nm), q, "text %r -> syntax_error" % txt)
                    elif ulp_apart(y, want):
                        rt_failure("float-parse:lossy-1ulp:roundtrip", "printed float reads back 1 ulp away", q, "text %r -> %s, expected %s" % (txt, obs_text(y), obs_text(want)))
                    else:
                        rt_failure("roundtrip:%s:%s" % (nm.split("+")[0], "float" if is_float else "int"), "number -> text -> number is not the identity", q,
                                   "text %r -> %s, expected %s" % (txt, obs_text(y), obs_text(want)))
                if is_float:
                    for txt in (a1, a2):
                        if re.match(r"^-?\d+\.\d", txt):
                            text_checks.append(packed("textp", pack_spelling(txt) + pack_obs(("flt", v))))
                        else:
                            nodot += 1
                else:
                    text_checks.append(packed("textp", pack_spelling(a1) + pack_obs(("int", v))))
                    text_checks.append(packed("textp", pack_spelling(a2) + pack_obs(("int", v))))
                    n_int_texts[0] += 2
    one(dbls, "f", True)
    one(ints, "i", False)
    dist["roundtrip"] = {"doubles": len(dbls), "integers": len(ints), "float_texts_without_dot": nodot, "failures_by_key": rt_fail}

    # the model reads the printed texts back: a sample of the float texts, all integer texts
    n_txt = ctx.scale(1400, 60000)
    it = text_checks[len(text_checks) - n_int_texts[0]:]      # integers are processed last
    ft = sorted(set(text_checks[:len(text_checks) - n_int_texts[0]]))
    rng.shuffle(ft)
    sample = ft[:n_txt] + sorted(set(it))
    tbad, terrs = core.coq_eval_bools(ctx.prop, IMPORTS, sample, chunk=600, tag="textcases")
    notes.append("texts coq %.1fs" % (time.time() - t0))
    for k, t in terrs:
        tie_breaks.append({"kind": "coq-eval", "what": "model evaluation shard failed (printed texts)", "detail": t})
    for i in tbad[:5]:
        failures.append({"key": "print:text-not-exact", "what": "the printed text of a number does not denote that number according to the model reader (or has no digits around the dot)",
                         "input": sample[i], "impl": sample[i], "spec": "float_text_ok / int_text_ok = true", "property_fails": True})

    # ---------------- counting
    def nontrivial(tag, s):
        return bool(re.search(r"[_.'eExob]", s)) or not s.strip().lstrip("-").strip().isdigit()
    nt = sum(1 for tag, s in cases if nontrivial(tag, s)) + len(dbls) + sum(1 for z in ints if abs(z) >= (1 << 55))
    samples = []
    for idx in list(range(0, len(cases), max(1, len(cases) // 8)))[:8]:
        (tag, s), o = cases[idx], obs[idx]
        samples.append({"spelling": json.dumps(s), "tag": tag, "number_codes": obs_text(o[0]), "number_chars": obs_text(o[1]),
                        "read(S+' .')": obs_text(o[2]), "read(S+'.')": obs_text(o[3])})
    outcome = {}
    for o in obs:
        k = "/".join(x[0] for x in o)
        outcome[k] = outcome.get(k, 0) + 1
    dist["impl_outcomes(nc/nh/rd/rt)"] = dict(sorted(outcome.items(), key=lambda kv: -kv[1])[:12])
    return {
        "evaluations": 4 * len(cases) + rt_eval + len(sample),
        "distinct_nontrivial": nt,
        "rule": ("spellings from a grammar of number_token's branches (plain/grouped/malformed-group integers, 0x/0o/0b with valid, invalid and missing digits, "
                 "0'c with every ASCII class, quote forms, escapes and non-ASCII, floats with exponent/sign/back-off forms, layout/comment/sign prefixes, junk "
                 "suffixes, single-character mutations) plus decimal expansions at and next to the midpoints of adjacent doubles; each goes through "
                 "number_codes, number_chars, read_from_chars(S+' .') and read_term_from_chars(S+'.') and is compared with the model in Coq (value, IEEE bits or "
                 "syntax_error) together with the agreement of the entry points; plus number->text->number for boundary integers and doubles built exactly "
                 "by arithmetic (bits compared), with the printed texts read back by the model. Non-trivial = distinct spelling other than a plain digit "
                 "string, each distinct double, each integer beyond 2^55"),
        "samples": samples,
        "distribution": dist,
        "failures": failures,
        "tie_breaks": tie_breaks,
        "notes": notes,
    }
