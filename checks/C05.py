"""C05 -- Equal integers behave identically regardless of how they were produced."""
import importlib.util, json, os, re, struct
from vlib import core, terms

META = {
    "level": "proof",
    "text": ("Coq theorems over mirrors of the integer consumers (unify_fixnum/unify_big_integer, the Integer category of the standard order, "
             "sorting with it, first-argument clause selection by value, type tests) and over C01's arithmetic mirror: a bignum cell holding a "
             "small-integer value is indistinguishable from the small-integer cell under every consumer (repr_irrelevant_*, repr_irrelevant_all), "
             "every result of the non-renormalising arithmetic mirror is consumed as if normalised (results_normalised_or_irrelevant), and the mirrors "
             "compare by value (unify_by_value, compare_by_value, sort_by_value). The correspondence runs a matrix values x production paths x "
             "consumers on the implementation: every path must give what the literal gives, and for the modelled consumers what the model gives."),
    "note": ("Trusted: Coq kernel + vm_compute; C01's model of arithmetic (which representation a result has); the clause-selection consumer is "
             "modelled BY VALUE (the specification), not as a mirror of switch_on_constant's hash lookup on raw cells -- the implementation is tied "
             "to it only by the correspondence; consumers without a Coq model (arg/3, functor/3, between/3, format ~d, number_codes, assertz/retract, "
             "findall/copy_term, length/2, nth0/3, succ/2) are compared differentially against the literal path only; harness vrun; Python generator. No axioms."),
    "technique": "Coq proof (repr_irrelevant_unify/_compare/_sortkey/_indexkey/_typetest/_arith/_all, results_normalised_or_irrelevant) over impl-mirror consumers + matrix correspondence (differential against the literal, modelled consumers evaluated in Coq)",
    "design_ref": "DESIGN.md section 8, C05",
    "coq_targets": ["C05/Props.vo"],
    "coq_dirs": ["C05"],
    "props": "C05/Props.v",
    "trusted_base": ["Coq 8.16.1 kernel, vm_compute (no native_compute)", "gen/fixnum.py translator", "C01 arithmetic mirror", "harness/vrun + tools/vlib (correspondence)"],
    "assumptions": ["dashu num_eq / cmp between machine integers and big integers are exact"],
}

IMPORTS = "From V Require Import C01.Model C05.Model."


def gen(ctx):
    spec = importlib.util.spec_from_file_location("gen_fixnum", os.path.join(core.ROOT, "gen", "fixnum.py"))
    m = importlib.util.module_from_spec(spec)
    spec.loader.exec_module(m)
    m.generate(core.REPO, os.path.join(core.COQ, "Gen", "Fixnum.v"))


def fix_bounds():
    s = open(os.path.join(core.COQ, "Gen", "Fixnum.v")).read()
    a = int(re.search(r"fix_min_bits : Z := (\d+)", s).group(1))
    b = int(re.search(r"fix_max_bits : Z := (\d+)", s).group(1))
    return -(1 << a), (1 << b) - 1


def lit(n):
    return "(%d)" % n if n < 0 else str(n)


def zc(n):
    if abs(n) < (1 << 62):
        return "(%d)" % n
    m, limbs = abs(n), []
    while m:
        limbs.append(str(m & ((1 << 60) - 1)))
        m >>= 60
    t = "(zl [%s])" % ";".join(limbs)
    return "(- %s)" % t if n < 0 else t


VALUES = [0, 1, 2, 255, 1 << 31, (1 << 55) - 1, 1 << 55, -(1 << 55), -(1 << 55) - 1, 1 << 63, 1 << 64]
TABLE_KEYS = VALUES + [1 << 70, 3, -1]          # first arguments of the static / dynamic tables (plus an atom and a float clause)


def tag(n):
    return "k%s" % (str(n) if n >= 0 else "m%d" % -n)


def program():
    p = [":- use_module(library(lists)).\n:- use_module(library(format)).\n:- use_module(library(dcgs)).\n:- use_module(library(charsio)).\n"
         ":- use_module(library(between)).\n:- use_module(library(iso_ext)).\n"]
    rows = [(lit(k), tag(k)) for k in TABLE_KEYS]
    rows.insert(4, ("foo", "atom"))
    rows.insert(9, ("1.5", "flt"))
    for name, extra in (("sp", False), ("sq", True)):
        for k, t in rows:
            p.append("%s(%s, %s).\n" % (name, k, t))
        if extra:
            p.append("%s(_, any).\n" % name)
    p.append(":- dynamic(dp/2).\n")
    for k, t in rows:
        p.append("dp(%s, %s).\n" % (k, t))
    p.append(":- dynamic(ar/2).\n")
    tags = [t for _, t in rows]
    return "".join(p), rows, tags


# production paths: (id, applicable, goal binding X, representation in C01's model)
def paths(v, fb):
    inr = fb[0] <= v <= fb[1]
    norm = "Fix" if inr else "Big"
    out = [("literal", "X = %s" % lit(v), norm),
           ("number_codes", "atom_codes('%d', PCs0), number_codes(X, PCs0)" % v, norm),
           ("number_chars", "number_chars(X, \"%d\")" % v, norm),
           ("read_term", "read_from_chars(\"%d. \", X)" % v, norm),
           ("through-bignum", "X is 2^60-2^60+%s" % lit(v), "Big"),
           ("mul-div", "X is (%s*2^70)//2^70" % lit(v), "Big"),
           ("rdiv", "X is %s*3 rdiv 3" % lit(v), None)]
    if 0 <= v <= 255:
        out.append(("length", "findall(a, between(1,%d,_), PL0), length(PL0, X)" % v, norm))
        out.append(("atom_length", "findall(0'a, between(1,%d,_), PCs0), atom_codes(PA0, PCs0), atom_length(PA0, X)" % v, norm))
    if v >= 1:
        out.append(("succ", "PP0 = %d, succ(PP0, X)" % (v - 1), norm))
    if v >= 0:
        out.append(("succ-inverse", "PS0 = %d, succ(X, PS0)" % (v + 1), norm))
    if int(float(v)) == v:
        out.append(("truncate-float", "X is truncate(float(%s))" % lit(v), norm))
    return out


YN = "(%s -> %s = y ; %s = n)"
LIMIT = int(os.environ.get("C05_REPORT_LIMIT", "3"))


def consumers(v):
    V, N1, P1 = lit(v), lit(v + 1), lit(v - 1)
    c = [
        ("unify", "%s, %s, %s, R = [A,B,C]" % (YN % ("X = " + V, "A", "A"), YN % ("X = " + N1, "B", "B"), YN % ("f(X) = f(%s)" % V, "C", "C"))),
        ("eq", "%s, %s, %s, %s, R = [A,B,C,D]" % (YN % ("X == " + V, "A", "A"), YN % ("X \\== " + V, "B", "B"), YN % ("X == " + N1, "C", "C"),
                                                  YN % ("g(X,a) == g(%s,a)" % V, "D", "D"))),
        ("compare", "compare(A, X, %s), compare(B, X, %s), compare(C, %s, X), compare(D, f(X), f(%s)), %s, %s, R = [A,B,C,D,E,F]"
         % (V, P1, N1, V, YN % ("X @< " + N1, "E", "E"), YN % ("X @>= " + V, "F", "F"))),
        ("sort", "sort([%s, X, %s, %s], A), keysort([%s-a, X-b, %s-c, %s-d], B), sort([f(X), f(%s)], C), R = [A,B,C]" % (N1, P1, V, N1, P1, V, V)),
        ("static", "findall(T, sp(X,T), A), findall(T, sq(X,T), B), R = [A,B]"),
        ("dynamic", "findall(T, dp(X,T), A), (clause(dp(X,T2), true) -> B = T2 ; B = none), R = [A,B]"),
        ("assert-retract", "retractall(ar(_,_)), assertz(ar(X,t)), %s, retractall(ar(_,_)), assertz(ar(%s,t)), %s, retractall(ar(_,_)), R = [A,B]"
         % (YN % ("retract(ar(%s,t))" % V, "A", "A"), V, YN % ("retract(ar(X,t))", "B", "B"))),
        ("arg", "(arg(X, f(a,b,c), A0) -> A = A0 ; A = none), R = [A]"),
        ("between", "between(X, X, A), %s, %s, R = [A,B,C]" % (YN % ("between(%s, X, %s)" % (P1, V), "B", "B"), YN % ("between(X, %s, %s)" % (N1, V), "C", "C"))),
        ("format", "phrase(format_(\"~d\",[X]), A), phrase(format_(\"~w ~q ~a\", [X,X,abc]), B), R = [A,B]"),
        ("number_codes", "number_codes(X, A), number_chars(X, B), R = [A,B]"),
        ("types", "%s, %s, %s, %s, %s, %s, R = [A,B,C,D,E,F]" % tuple(YN % ("%s(X)" % t, x, x) for t, x in
                                                                     (("integer", "A"), ("number", "B"), ("atomic", "C"), ("float", "D"), ("atom", "E"), ("var", "F")))),
        ("arith", "%s, %s, %s, %s, Y is X + 1, %s, R = [A,B,C,D,E]" % (YN % ("X =:= " + V, "A", "A"), YN % ("X =\\= " + N1, "B", "B"), YN % ("X < " + N1, "C", "C"),
                                                                       YN % ("X >= " + V, "D", "D"), YN % ("Y == " + N1, "E", "E"))),
        ("findall-copy", "findall(X, true, [Y]), %s, copy_term(f(X), f(Z)), %s, R = [A,B]" % (YN % ("Y == " + V, "A", "A"), YN % ("Z == " + V, "B", "B"))),
    ]
    if 0 <= v <= 255:
        c.append(("functor", "functor(T, foo, X), functor(T, _, A), R = [A]"))
        c.append(("length-nth", "length(L, X), length(L, A), (nth0(X, [a,b,c,d], B0) -> B = B0 ; B = none), %s, R = [A,B,C]" % (YN % ("length([a,b], X)", "C", "C"))))
    if v >= 0:
        c.append(("succ", "succ(X, A), R = [A]"))
    return c


def norm_json(t):
    """a rational cell n/1 is == to the integer n; the answer channel prints it as a rational"""
    if isinstance(t, dict):
        if "r" in t and t["r"][1] == "1":
            return {"i": t["r"][0]}
        return {k: norm_json(x) for k, x in t.items()}
    if isinstance(t, list):
        return [norm_json(x) for x in t]
    return t


def outcome(ans):
    if ans and isinstance(ans[0], dict):
        a = ans[0]
        if "b" in a and "R" in a["b"]:
            return ("val", json.dumps(norm_json(a["b"]["R"]), sort_keys=True))
        f = core.error_formal(a)
        if f is not None:
            return ("err", json.dumps(f, sort_keys=True))
        if "panic" in a:
            return ("panic", a["panic"][:200])
    return ("other", json.dumps(ans)[:200])


def show(o):
    if o[0] in ("val", "err"):
        try:
            return o[0] + ":" + core.term_text(json.loads(o[1]))
        except Exception:
            pass
    return o[0] + ":" + o[1][:200]


def yn(t):
    return t.get("a") == "y"


def run(ctx):
    fb = fix_bounds()
    prog, rows, tags = program()
    sp_keys = "[" + "; ".join("KAtom 0%N" if k == "foo" else ("KFlt 0" if k == "1.5" else "KInt %s" % zc(int(k.strip("()")))) for k, _ in rows) + "]"
    sq_keys = sp_keys[:-1] + "; KAny]"
    jobs, index = [], {}
    for v in VALUES:
        qs, meta = [], []
        for pid, pgoal, rep in paths(v, fb):
            for cid, cgoal in consumers(v):
                qs.append("%s, %s." % (pgoal, cgoal))
                meta.append((pid, cid, rep))
        jobs.append({"id": "v%d" % v, "consult": prog, "queries": qs, "timeout_ms": 60000, "fresh": True, "max_answers": 1})
        index[v] = (qs, meta)
    res = core.vrun_query(ctx.prop, jobs, tag="matrix")
    failures, tie_breaks = [], []
    dist = {"cells": 0, "by_path": {}, "by_consumer": {}, "coq_cells": 0}
    nontrivial = set()
    bools, bmeta = [], []
    reported = {}
    evaluations = 0

    def report(key, what, q, impl, spec):
        if reported.get(key, 0) >= LIMIT:
            reported[key] = reported.get(key, 0) + 1
            return
        reported[key] = reported.get(key, 0) + 1
        failures.append({"key": key, "what": what, "input": q, "impl": impl, "spec": spec, "property_fails": True})

    def fkey(cid, pid):
        if cid in ("static", "dynamic"):
            k = "index:literal-bignum-key" if pid == "literal" else ("index:rational-key" if pid == "rdiv" else "index:computed-bignum-key")
            return k + ("-dynamic" if cid == "dynamic" else "")
        return "%s:%s" % (cid, pid)

    for v in VALUES:
        qs, meta = index[v]
        r = res.get("v%d" % v)
        rs = r.get("results") if r else None
        if rs is None or len(rs) != len(qs):
            tie_breaks.append({"kind": "harness", "what": "matrix job gave no/partial results", "detail": json.dumps(r)[:400]})
            continue
        outs = [outcome(a) for a in rs]
        expected = {cid: outs[i] for i, (pid, cid, rep) in enumerate(meta) if pid == "literal"}
        # does the path produce the value at all?  (first answer of the arith consumer: X =:= v)
        wrong = set()
        for i, (pid, cid, rep) in enumerate(meta):
            if cid == "arith":
                o = outs[i]
                ok = o[0] == "val" and json.loads(o[1]).get("s", "?")[0:1] == "y"
                if not ok:
                    wrong.add(pid)
                    xq = qs[i].split(", (X =:=")[0] + "."
                    report("path:%s:wrong-value" % pid, "the production path does not yield the integer %d" % v, xq, show(o) + " for [X=:=v, X=\\=v+1, X<v+1, X>=v, X+1==v+1]", "X =:= %d" % v)
        for i, (pid, cid, rep) in enumerate(meta):
            o = outs[i]
            if pid in wrong:
                evaluations += 1
                continue
            evaluations += 1
            dist["cells"] += 1
            dist["by_path"][pid] = dist["by_path"].get(pid, 0) + 1
            dist["by_consumer"][cid] = dist["by_consumer"].get(cid, 0) + 1
            if pid != "literal":
                nontrivial.add((v, pid, cid))
                if o != expected[cid]:
                    report(fkey(cid, pid), "an integer produced by `%s` is treated differently from the literal by `%s`" % (pid, cid), qs[i],
                           show(o), "what the literal %d gives: %s" % (v, show(expected[cid])))
            # modelled consumers: the model decides, also for the literal
            if rep is None or o[0] != "val":
                continue
            R = json.loads(o[1])
            R = [{"a": ch} for ch in R["s"]] if "s" in R else R["l"]      # a list of one-character atoms comes back as a string
            a = "(%s %s)" % (rep, zc(v))
            try:
                if cid == "unify":
                    cs = ["check_unify %s %s %s" % (a, zc(v), "true" if yn(R[0]) else "false"), "check_unify %s %s %s" % (a, zc(v + 1), "true" if yn(R[1]) else "false")]
                elif cid == "eq":
                    cs = ["check_compare %s %s %s" % (a, zc(v), zc(0 if yn(R[0]) else 1)), "check_compare %s %s %s" % (a, zc(v + 1), zc(0 if yn(R[2]) else -1))]
                elif cid == "compare":
                    code = {"<": -1, "=": 0, ">": 1}
                    cs = ["check_compare %s %s %s" % (a, zc(v), zc(code[R[0]["a"]])), "check_compare %s %s %s" % (a, zc(v - 1), zc(code[R[1]["a"]])),
                          "check_compare %s %s %s" % (a, zc(v + 1), zc(-code[R[2]["a"]]))]
                elif cid == "sort":
                    s1 = [int(x["i"]) for x in R[0]["l"]]
                    s2 = [int(x["c"][1]["i"]) for x in R[1]["l"]]
                    cs = ["check_sort true %s [%s] [%s; %s] [%s]" % (a, zc(v + 1), zc(v - 1), zc(v), "; ".join(zc(x) for x in s1)),
                          "check_sort false %s [%s] [%s; %s] [%s]" % (a, zc(v + 1), zc(v - 1), zc(v), "; ".join(zc(x) for x in s2))]
                elif cid == "static":
                    ia = [tags.index(x["a"]) for x in R[0]["l"]]
                    ib = [tags.index(x["a"]) if x["a"] != "any" else len(tags) for x in R[1]["l"]]
                    cs = ["check_select %s %s [%s]" % (sp_keys, a, "; ".join("%d%%N" % x for x in ia)), "check_select %s %s [%s]" % (sq_keys, a, "; ".join("%d%%N" % x for x in ib))]
                elif cid == "dynamic":
                    ia = [tags.index(x["a"]) for x in R[0]["l"]]
                    cs = ["check_select %s %s [%s]" % (sp_keys, a, "; ".join("%d%%N" % x for x in ia))]
                elif cid == "types":
                    cs = ["check_types %s [%s]" % (a, "; ".join("true" if yn(x) else "false" for x in R))]
                elif cid == "arith":
                    cs = ["check_arith_eq %s %s %s" % (a, zc(v), "true" if yn(R[0]) else "false"), "check_arith_eq %s %s %s" % (a, zc(v + 1), "false" if yn(R[1]) else "true")]
                else:
                    cs = []
            except Exception as ex:
                tie_breaks.append({"kind": "harness", "what": "unexpected answer shape", "detail": "%s: %s (%r)" % (qs[i], o[1][:200], ex)})
                cs = []
            for c in cs:
                bools.append(c)
                bmeta.append((v, pid, cid, qs[i], o))
    dist["coq_cells"] = len(bools)
    bad, errs = core.coq_eval_bools(ctx.prop, IMPORTS, bools, chunk=300)
    tie_breaks += [{"kind": "coq-eval", "what": "model evaluation shard failed", "detail": t} for _, t in errs]
    for i in bad:
        v, pid, cid, q, o = bmeta[i]
        report(fkey(cid, pid), "`%s` on the integer %d produced by `%s` differs from the by-value model" % (cid, v, pid), q, show(o),
               "model: " + bools[i] + " must hold")
    dist["failure_counts"] = reported
    samples = []
    for v in (2, 1 << 55):
        qs, meta = index[v]
        rs = (res.get("v%d" % v) or {}).get("results") or []
        for i in range(0, min(len(qs), len(rs)), max(1, len(qs) // 3)):
            samples.append({"query": qs[i][:160], "outcome": show(outcome(rs[i]))[:120]})
    return {
        "evaluations": evaluations + len(bools),
        "distinct_nontrivial": len(nontrivial),
        "rule": ("matrix: values {0,1,2,255,2^31,2^55-1,2^55,-2^55,-2^55-1,2^63,2^64} x production paths {literal, number_codes, number_chars, read_from_chars, "
                 "2^60-2^60+v, (v*2^70)//2^70, v*3 rdiv 3, length/2 and atom_length/2 (v<=255), succ/2 both directions, truncate(float(v)) when exact} x consumers "
                 "{=, ==, compare/3 and @<, sort/2 and keysort/2 among v-1,v,v+1, static clause heads of two multi-clause predicates keyed by integers of all sizes "
                 "(with and without a catch-all clause), dynamic clause heads + clause/2, assertz+retract both ways, arg/3, functor/3, between/3, format ~d ~w ~q, "
                 "number_codes/number_chars, type tests, =:= =\\= < >= and X+1, findall/copy_term, length/nth0, succ/2}; expected = the literal's outcome, and for "
                 "=, ==, compare, sort, clause selection, type tests, =:= also the Coq model's outcome (literal included); non-trivial = distinct (value, non-literal "
                 "path, consumer) cell"),
        "samples": samples[:8],
        "distribution": dist,
        "failures": failures,
        "tie_breaks": tie_breaks,
    }
