"""C04 -- Arithmetic comparison is exact and self-consistent."""
import json, math, os, re, struct
from fractions import Fraction
from vlib import core, terms

META = {
    "level": "proof",
    "text": ("Coq theorems over an arm-by-arm mirror of `impl Ord for Number` (src/arithmetic.rs), which every comparison instruction of "
             "dispatch.rs consults: integer/rational pairs compare exactly as rationals (cmp_int_exact, cmp_rat_exact), any pair with a float "
             "compares the two sides as doubles by value after a conversion proved to yield a double within half a quantum of the exact value "
             "(cmp_mixed_is_float_cmp, conversion_yields_double, conversion_nearest, int_to_float_exact_53), the order is antisymmetric "
             "(cmp_antisym), exactly one of <, =:=, > holds (trichotomy), the six predicates agree with each other and under operand swap "
             "(six_consistent) and Fixnum/bignum cells of one value are indistinguishable (eq_repr_irrelevant). The mirror is tied to the code by "
             "running model and implementation on boundary-biased pairs (small ints, bignums, rationals, floats and their float neighbours), "
             "six predicates each, as compiled clause bodies with literal operands, compiled with variable operands, and meta-called."),
    "note": ("Trusted: Coq kernel + vm_compute; dashu IBig/RBig comparison modelled as Z comparison / cross multiplication; `i64 as f64`, "
             "IBig::to_f64 and RBig::to_f64 modelled as the correctly rounded (nearest, ties-to-even) conversion written in Z arithmetic "
             "(conversion_nearest proves the half-quantum bound for it, not uniqueness of the tie choice); OrderedFloat comparison of finite doubles "
             "modelled as comparison of the decoded values (-0.0 = 0.0); NaN/infinite float cells are excluded (wf) because arithmetic never "
             "produces them; gen/fixnum.py; harness vrun; the Python generator. No axioms."),
    "technique": "Coq proof (cmp_int_exact, cmp_rat_exact, cmp_mixed_is_float_cmp, cmp_antisym, trichotomy, six_consistent, eq_repr_irrelevant, conversion_nearest) over an impl-mirror model + differential correspondence evaluated in Coq",
    "design_ref": "DESIGN.md section 8, C04",
    "coq_targets": ["C04/Props.vo"],
    "coq_dirs": ["C04"],
    "props": "C04/Props.v",
    "trusted_base": ["Coq 8.16.1 kernel, vm_compute (no native_compute)", "gen/fixnum.py translator", "harness/vrun + tools/vlib (correspondence)",
                     "dashu IBig/RBig comparison and to_f64, Rust `as f64`, OrderedFloat modelled, not verified"],
    "assumptions": ["dashu integer/rational comparison is exact", "float cells are finite (arithmetic raises instead of producing inf/NaN)"],
}

IMPORTS = "From V Require Import C04.Model."


def gen(ctx):
    import importlib.util
    spec = importlib.util.spec_from_file_location("gen_fixnum", os.path.join(core.ROOT, "gen", "fixnum.py"))
    m = importlib.util.module_from_spec(spec)
    spec.loader.exec_module(m)
    m.generate(core.REPO, os.path.join(core.COQ, "Gen", "Fixnum.v"))


def fix_bounds():
    s = open(os.path.join(core.COQ, "Gen", "Fixnum.v")).read()
    a = int(re.search(r"fix_min_bits : Z := (\d+)", s).group(1))
    b = int(re.search(r"fix_max_bits : Z := (\d+)", s).group(1))
    return -(1 << a), (1 << b) - 1


def f2b(x):
    return struct.unpack(">Q", struct.pack(">d", x))[0]


def b2f(b):
    return struct.unpack(">d", struct.pack(">Q", b))[0]


FMAX = 1.7976931348623157e308


def nearest_float(q):
    """correctly rounded double of an int / Fraction (Python's int/int true division is correctly rounded)"""
    try:
        if isinstance(q, int):
            return float(q)
        return q.numerator / q.denominator
    except OverflowError:
        return None


def dashu_r2f(n, d):
    """RBig::to_f64 of dashu-ratio 0.4.2 (quotient of 53 or 54 bits rounded to an integer, then f64::encode rounds again)."""
    if n == 0:
        return 0.0
    sign = -1 if n < 0 else 1
    n = abs(n)
    shift = n.bit_length() - d.bit_length() - 53
    num, den = (n, d << shift) if shift >= 0 else (n << -shift, d)
    if shift >= 1024:
        return sign * math.inf
    if shift < -1074 - 53:
        return sign * 0.0
    man, r = divmod(num, den)
    if r != 0:
        if 2 * r > den or (2 * r == den and man & 1):
            man += 1
    try:
        return sign * float(Fraction(float(man)) * Fraction(2) ** shift)   # float(man): second rounding (ties to even)
    except OverflowError:
        return sign * math.inf


def zc(n):
    """Coq text of an integer; long literals are slow to parse in Coq, so big values are limb lists for Model.zl"""
    if abs(n) < (1 << 62):
        return "(%d)" % n
    m, limbs = abs(n), []
    while m:
        limbs.append(str(m & ((1 << 60) - 1)))
        m >>= 60
    t = "(zl [%s])" % ";".join(limbs)
    return "(- %s)" % t if n < 0 else t


# ------------------------------------------------------------------ numbers
# a number: dict(kind in Fix/Big/Rat/Flt, val (int|Fraction|float bits), pl (operand text), coq)
def mk_int(z, fb, computed=False):
    inr = fb[0] <= z <= fb[1]
    lit = "(%d)" % z if z < 0 else str(z)
    if computed and inr:
        return {"kind": "Big", "val": z, "pl": "(%s+2^70-2^70)" % lit, "coq": "(Big %s)" % zc(z)}
    return {"kind": "Fix" if inr else "Big", "val": z, "pl": lit, "coq": "(%s %s)" % ("Fix" if inr else "Big", zc(z))}


def mk_rat(k, d):
    q = Fraction(k, d)
    kl = "(%d)" % k if k < 0 else str(k)
    return {"kind": "Rat", "val": q, "pl": "(%s rdiv %d)" % (kl, d), "coq": "(Rat %s %s)" % (zc(q.numerator), zc(q.denominator))}


def mk_flt(x):
    b = f2b(x)
    s = terms.flt_text(b)
    return {"kind": "Flt", "val": b, "pl": "(%s)" % s if s.startswith("-") else s, "coq": "(Flt %d)" % b}


def exact_value(n):
    if n["kind"] == "Flt":
        return Fraction(b2f(n["val"]))
    return Fraction(n["val"])


def int_pool(rng):
    pool = [0, 1, -1, 2, -2, 3, -3, 7, -7, 10, 100]
    for k in (31, 32, 52, 53, 54, 55, 56, 62, 63, 64, 65, 100, 200, 1023, 1024):
        for d in (-2, -1, 0, 1, 2):
            pool += [(1 << k) + d, -(1 << k) + d]
    for _ in range(40):
        bits = rng.choice([8, 20, 53, 54, 56, 60, 64, 70, 128, 400])
        pool.append(rng.getrandbits(bits) * rng.choice([1, -1]))
    pool += [1 << 1100, -(1 << 1100), (1 << 1024) - (1 << 970), (1 << 1024) - (1 << 970) + 1, (1 << 1024) - (1 << 969)]
    return pool


SPECIAL_FLOATS = [0.0, -0.0, 1.0, -1.0, 0.5, 0.1, -0.1, 1.5, 2.0 ** 53, 2.0 ** 53 + 2, 2.0 ** 53 - 1, -(2.0 ** 53), 2.0 ** 55, 2.0 ** 55 - 4, 2.0 ** 63, 2.0 ** 64,
                  1e308, FMAX, -FMAX, 5e-324, -5e-324, 2.2250738585072014e-308, 2.225073858507201e-308, 1e-310, 3.0, 1e22, 1e23, 0.3333333333333333,
                  0.33333333333333337, 1.0000000000000002, 0.9999999999999999]


def neighbours(x):
    out = [x]
    if x is None:
        return [FMAX]
    if math.isinf(x):
        return [math.copysign(FMAX, x)]
    for t in (math.inf, -math.inf):
        y = math.nextafter(x, t)
        if not math.isinf(y):
            out.append(y)
    return out


def gen_pairs(ctx, fb):
    rng = ctx.rng
    ints = int_pool(rng)
    exact = []
    for z in ints:
        exact.append(mk_int(z, fb))
        if fb[0] <= z <= fb[1] and rng.random() < 0.6:
            exact.append(mk_int(z, fb, computed=True))
    rats = []
    for z in ints:
        if abs(z) < (1 << 1030):
            rats.append(mk_rat(z, 3))
            if rng.random() < 0.5:
                rats.append(mk_rat(z, 1 << 60))
    # rationals whose 54-bit quotient sits just above / below / on a rounding midpoint
    for _ in range(ctx.scale(60, 600)):
        d = rng.choice([3, 5, 7, 10, 12, 1 << 60, (1 << 60) + 1, rng.getrandbits(40) | 1])
        e = rng.choice([0, 1, 5, 20, 60, 200, -3, -60, -300, -1070])
        m = (1 << 53) | rng.getrandbits(53)           # 54-bit quotient
        if rng.random() < 0.7:
            m |= 1
        num = m * d + rng.choice([0, 1, 1, d // 2, d - 1])
        if e >= 0:
            rats.append(mk_rat(num << e, d))
        else:
            q = Fraction(num, d << -e)
            rats.append({"kind": "Rat", "val": q, "pl": "(%d rdiv (%d*2^%d))" % (num, d, -e), "coq": "(Rat %s %s)" % (zc(q.numerator), zc(q.denominator))})
    for k in (1, -1, 2, 5, 1 << 53):
        for e in (1074, 1075, 1076, 1022, 1023, 1080):
            q = Fraction(k, 1 << e)
            rats.append({"kind": "Rat", "val": q, "pl": "(%d rdiv 2^%d)" % (k, e) if k > 0 else "((%d) rdiv 2^%d)" % (k, e),
                         "coq": "(Rat %s %s)" % (zc(q.numerator), zc(q.denominator))})
    exact += rats
    floats = [mk_flt(x) for x in SPECIAL_FLOATS]
    pairs = []
    # (1) every exact number against the doubles around it
    for n in exact:
        for y in neighbours(nearest_float(n["val"])):
            f = mk_flt(y)
            pairs.append((n, f) if rng.random() < 0.5 else (f, n))
    # (2) exact numbers against their own neighbours (value +-1, same value in the other cell kind, thirds)
    for n in exact:
        if n["kind"] in ("Fix", "Big"):
            z = n["val"]
            for o in (mk_int(z, fb), mk_int(z, fb, computed=True), mk_int(z + 1, fb), mk_int(z - 1, fb, computed=rng.random() < 0.5), mk_rat(3 * z + 1, 3), mk_rat(3 * z, 3)):
                if rng.random() < 0.5:
                    pairs.append((n, o) if rng.random() < 0.5 else (o, n))
        else:
            q = n["val"]
            for o in (mk_int(math.floor(q), fb), mk_int(math.ceil(q), fb), mk_rat(q.numerator * 3 + 1, q.denominator * 3) if q.denominator < (1 << 200) else n, n):
                if rng.random() < 0.4:
                    pairs.append((n, o) if rng.random() < 0.5 else (o, n))
    # (3) random pairs over everything
    everything = exact + floats
    for _ in range(ctx.scale(2000, 60000)):
        pairs.append((rng.choice(everything), rng.choice(everything)))
    for f in floats:
        for g in floats:
            if rng.random() < 0.3:
                pairs.append((f, g))
    seen, out = set(), []
    for a, b in pairs:
        k = (a["pl"], b["pl"])
        if k not in seen:
            seen.add(k)
            out.append((a, b))
    limit = ctx.scale(4500, 120000)
    if len(out) > limit:
        head = out[: limit // 2]
        rest = out[limit // 2:]
        rng.shuffle(rest)
        out = head + rest[: limit - len(head)]
    return out


OPS = ["<", "=:=", ">", "=<", ">=", "=\\="]


def mask_of(ans):
    """answer list of a findall query -> int mask or ('err', text)"""
    if ans and isinstance(ans[0], dict) and "b" in ans[0]:
        return ans[0]["b"]
    return None


def list_mask(t):
    if t is None or "l" not in t:
        return None
    m = 0
    for x in t["l"]:
        m |= 1 << (int(x["i"]) - 1)
    return m


def run_impl(ctx, pairs, tag="impl"):
    B = 30
    jobs = []
    for j0 in range(0, len(pairs), B):
        chunk = pairs[j0:j0 + B]
        jid = "j%d" % j0
        prog = [":- use_module(library(lists)).\n"]
        for k, op in enumerate(OPS, 1):
            prog.append("vv_%s(%d,A,B) :- A %s B.\n" % (jid, k, op))
        prog.append("mm_%s(A,B,L) :- findall(I, (member(I-Op,[1-(<),2-(=:=),3-(>),4-(=<),5-(>=),6-(=\\=)]), call(Op,A,B)), L).\n" % jid)
        prog.append("gg_%s(A,B,L) :- findall(I, (member(I-Op,[1-(<),2-(=:=),3-(>),4-(=<),5-(>=),6-(=\\=)]), G =.. [Op,A,B], call(G)), L).\n" % jid)
        qs = []
        for i, (a, b) in enumerate(chunk):
            for k, op in enumerate(OPS, 1):
                prog.append("c_%s_%d(%d) :- %s %s %s.\n" % (jid, i, k, a["pl"], op, b["pl"]))
            qs.append("findall(I, c_%s_%d(I), L)." % (jid, i))
            qs.append("A is %s, B is %s, findall(I, vv_%s(I,A,B), L1), mm_%s(A,B,L2), gg_%s(A,B,L3)." % (a["pl"], b["pl"], jid, jid, jid))
        jobs.append({"id": jid, "consult": "".join(prog), "queries": qs, "timeout_ms": 30000, "fresh": (j0 // B) % 40 == 0})
    res = core.vrun_query(ctx.prop, jobs, tag=tag)
    out = []
    for j0 in range(0, len(pairs), B):
        chunk = pairs[j0:j0 + B]
        r = res.get("j%d" % j0)
        rs = r.get("results") if r else None
        for i in range(len(chunk)):
            if rs is None or 2 * i + 1 >= len(rs):
                out.append({"bad": "no result: %s" % json.dumps(r)[:300]})
                continue
            c, m = rs[2 * i], rs[2 * i + 1]
            rec = {"raw": [c, m]}
            bc, bm = mask_of(c), mask_of(m)
            rec["literal"] = list_mask(bc.get("L")) if bc else None
            rec["variable"] = list_mask(bm.get("L1")) if bm else None
            rec["call3"] = list_mask(bm.get("L2")) if bm else None
            rec["univ"] = list_mask(bm.get("L3")) if bm else None
            rec["A"] = bm.get("A") if bm else None
            rec["B"] = bm.get("B") if bm else None
            out.append(rec)
    return out


PATHS = ["literal", "variable", "call3", "univ"]


def coq_of(n, back):
    """model operand; for floats the bits the implementation reports for the literal are used (the parser is not this property's subject)"""
    if n["kind"] == "Flt" and back is not None and "f" in back:
        b = int(back["f"], 16)
        if b != n["val"] and not (b == 0 and n["val"] == (1 << 63)):
            return "(Flt %d)" % b, True
    return n["coq"], False


def mask_text(m):
    if m is None:
        return "error/none"
    return "{" + ",".join(op for k, op in enumerate(OPS) if m >> k & 1) + "}"


def py_mask(c):
    lt, eq, gt = c < 0, c == 0, c > 0
    return lt | eq << 1 | gt << 2 | (lt or eq) << 3 | (gt or eq) << 4 | (not eq) << 5


def run(ctx):
    fb = fix_bounds()
    pairs = gen_pairs(ctx, fb)
    impl = run_impl(ctx, pairs)
    bools, meta = [], []
    dist = {"kinds": {}, "masks": {}, "float_literal_reparsed": 0}
    nontrivial = set()
    failures, tie_breaks = [], []
    seen_cases = {}
    evaluations = 0
    for (a, b), rec in zip(pairs, impl):
        kk = "%s-%s" % (a["kind"], b["kind"])
        dist["kinds"][kk] = dist["kinds"].get(kk, 0) + 1
        if "bad" in rec:
            tie_breaks.append({"kind": "harness", "what": "no result for a comparison job", "detail": rec["bad"]})
            continue
        ca, ra = coq_of(a, rec["A"])
        cb, rb = coq_of(b, rec["B"])
        dist["float_literal_reparsed"] += int(ra) + int(rb)
        va, vb = exact_value(a), exact_value(b)
        if a["kind"] != b["kind"] or a["kind"] in ("Big", "Rat") or va == vb:
            nontrivial.add((a["coq"], b["coq"]))
        for p in PATHS:
            m = rec[p]
            evaluations += 6
            dist["masks"][mask_text(m)] = dist["masks"].get(mask_text(m), 0) + 1
            key = (ca, cb, m)
            if m is None:
                failures.append({"key": "cmp:error:%s" % kk, "what": "a comparison of two numbers raised / gave no truth values", "path": p,
                                 "input": "%s  vs  %s" % (a["pl"], b["pl"]), "impl": json.dumps(rec["raw"])[:400], "spec": "six truth values", "property_fails": True})
                continue
            if key not in seen_cases:
                seen_cases[key] = len(bools)
                bools.append("check_cmp %s %s %d" % (ca, cb, m))
                meta.append((a, b, p, m, ca, cb))
    bad, errs = core.coq_eval_bools(ctx.prop, IMPORTS, bools, chunk=500)
    tie_breaks += [{"kind": "coq-eval", "what": "model evaluation shard failed", "detail": t} for _, t in errs]
    reported = {}
    for i in bad:
        a, b, p, m, ca, cb = meta[i]
        kinds = sorted([a["kind"], b["kind"]])
        key = "cmp:" + ",".join(kinds)
        # is the observed outcome explained by dashu's double rounding in RBig::to_f64 ?
        if kinds == ["Flt", "Rat"]:
            r, f = (a, b) if a["kind"] == "Rat" else (b, a)
            conv = dashu_r2f(r["val"].numerator, r["val"].denominator)
            fv = b2f(f["val"])
            c = (conv > fv) - (conv < fv)
            if a["kind"] == "Flt":
                c = -c
            if py_mask(c) == m and conv != nearest_float(r["val"]):
                key = "cmp:rat-to-float-double-rounding"
        if key in reported and reported[key] >= 3:
            continue
        reported[key] = reported.get(key, 0) + 1
        spec = core.coq_eval_show(ctx.prop, IMPORTS, "num_cmp %s %s" % (ca, cb))
        q = "A is %s, B is %s, A %s B." % (a["pl"], b["pl"], "=:=" if m & 2 else ("<" if m & 1 else ">"))
        failures.append({"key": key, "what": "comparison predicates disagree with comparing the values (after correctly rounded conversion to double when one side is a float)",
                         "input": q, "path": p, "impl": "holds: " + mask_text(m), "spec": spec, "property_fails": True})
    samples = []
    for (a, b), rec in list(zip(pairs, impl))[:: max(1, len(pairs) // 8)][:8]:
        samples.append({"a": a["pl"][:60], "b": b["pl"][:60], "holds": mask_text(rec.get("literal")), "meta": mask_text(rec.get("call3"))})
    return {
        "evaluations": evaluations,
        "distinct_nontrivial": len(nontrivial),
        "rule": ("pairs over: the C01 integer boundary pool (0, +-1..7, +-2^k+d for k in 31..1024, random bignums, values around the largest finite double), "
                 "the same small integers held in bignum cells (z+2^70-2^70), rationals k/3 and k/2^60, rationals with a 54-bit quotient at or next to a "
                 "rounding midpoint, k/2^e down to below the smallest subnormal, the special doubles, and for every exact number the nearest double and "
                 "its two neighbours; each pair: six predicates x four paths (clause body with literal operands, clause body with variable operands, "
                 "call/3, =.. + call/1), compared in Coq with `mask`; non-trivial = distinct pair whose operands are of different cell kinds, or are "
                 "bignum/rational cells, or have equal values"),
        "samples": samples,
        "distribution": dist,
        "failures": failures,
        "tie_breaks": tie_breaks,
    }
