"""C03 -- Arithmetic does not depend on how the expression reaches is/2."""
import importlib.util, json, os, re
from vlib import core, terms

META = {
    "level": "proof",
    "text": ("The two name->operation tables of the implementation (compiled path: push_literal/get_unary_instr/get_binary_instr -> Instruction -> "
             "*_instr body; run-time path: the `match name` arms of arith_eval_by_metacall) are regenerated from the current source by "
             "gen/eval_tables.py into one vocabulary (the arithmetic_ops.rs function finally invoked, operand order, result wrappers). Coq proves "
             "tables_agree (same operation for every key of the union, default arm elsewhere) by computation over the regenerated key list and, "
             "from it, context_independent: an abstract post-order evaluator gives the same value or error through either table, whatever the "
             "shared operations do. The tables are tied to the implementation per key (evaluable or not on each path, evaluated in Coq), and every "
             "generated expression is run in seven context variants (consulted clause, is/2 on a variable, findall/3, assertz-ed clause, "
             "call(is,X,E), =:=/< on a run-time term, =:= in a consulted clause) which must agree on the value (floats by bits) or the error formal."),
    "note": ("Trusted: Coq kernel + vm_compute; gen/eval_tables.py (regex/bracket matching over the Rust source; raises on any unrecognised shape); "
             "both paths are assumed to share the operand fetch get_number and the operation functions themselves (that is what the vocabulary "
             "names), so the theorem is about dispatch, not about what add/pow/... compute (C01/C02/C04); expressions are limited to arities 0-2 in "
             "the abstract evaluator; harness vrun; Python generator. Expressions with a non-numeric/unbound leaf keep every other operand "
             "error-free (one error source per expression), except the dedicated `two error sources` probes. -0.0 and 0.0 are not distinguished. No axioms."),
    "technique": "Coq proof (tables_agree by vm_compute over tables regenerated from the source, context_independent by induction) + per-key tie evaluated in Coq + differential run of every expression in seven contexts",
    "design_ref": "DESIGN.md section 8, C03",
    "coq_targets": ["C03/Props.vo"],
    "coq_dirs": ["C03"],
    "props": "C03/Props.v",
    "trusted_base": ["Coq 8.16.1 kernel, vm_compute (no native_compute)", "gen/eval_tables.py translator", "harness/vrun + tools/vlib (correspondence)"],
    "assumptions": ["both evaluators call the same operation functions of arithmetic_ops.rs with operands fetched by get_number (checked differentially, not proved)"],
}

IMPORTS = "From V Require Import Gen.EvalTables C03.Model."
_TABLES = {}


def _translator():
    spec = importlib.util.spec_from_file_location("gen_eval_tables", os.path.join(core.ROOT, "gen", "eval_tables.py"))
    m = importlib.util.module_from_spec(spec)
    spec.loader.exec_module(m)
    return m


def gen(ctx):
    m = _translator()
    c, t = m.generate(core.REPO, os.path.join(core.COQ, "Gen", "EvalTables.v"))
    _TABLES["compiled"], _TABLES["meta"] = dict(c), dict(t)


# ------------------------------------------------------------------ expression text
ALNUM = re.compile(r"^[a-z][A-Za-z0-9_]*$")


def fun_text(name, args):
    """canonical functional notation; symbolic atoms are quoted"""
    f = name if ALNUM.match(name) else "'%s'" % name.replace("\\", "\\\\").replace("'", "\\'")
    if not args:
        return f if ALNUM.match(name) else "(%s)" % f
    return "%s(%s)" % (f, ",".join(args))


def expr_text(e, var=None):
    """e: ('n', text) number literal | ('c', text, kind) culprit | ('op', name, [args]).  var: text put in place of the culprit"""
    if e[0] == "n":
        return e[1]
    if e[0] == "c":
        return var if var is not None else e[1]
    return fun_text(e[1], [expr_text(a, var) for a in e[2]])


def culprit_of(e):
    if e[0] == "c":
        return e
    if e[0] == "op":
        for a in e[2]:
            c = culprit_of(a)
            if c:
                return c
    return None


def subexprs(e):
    yield e
    if e[0] == "op":
        for a in e[2]:
            yield from subexprs(a)


def esize(e):
    return sum(1 for _ in subexprs(e))


INTS = ["0", "1", "2", "3", "(-1)", "(-7)", "10", "255", "36028797018963967", "36028797018963968", "(-36028797018963969)",
        "9223372036854775807", "9223372036854775808", "18446744073709551617", "(-1180591620717411303424)", "717897987691852588770249"]
FLOATS = ["0.0", "1.0", "(-1.5)", "0.1", "2.5", "1.0e10", "1.0e308", "4.0", "0.5", "(-0.0)", "9007199254740993.0", "1.0e-320", "3.0"]
CONSTS = [("op", "pi", []), ("op", "e", []), ("op", "epsilon", [])]
RATS = [("op", "rdiv", [("n", "1"), ("n", "3")]), ("op", "rdiv", [("n", "(-7)"), ("n", "2")]),
        ("op", "rdiv", [("n", "1180591620717411303424"), ("n", "3")]), ("op", "rdiv", [("n", "6"), ("n", "3")])]
SAFE_NUMS = ["1", "2", "3", "5", "2.0", "0.5", "7"]
CULPRITS = [("c", "_", "unbound"), ("c", "a", "atom"), ("c", "foo(1)", "compound"), ("c", "\"abc\"", "string"), ("c", "[1]", "list1"), ("c", "[1,2]", "list2"),
            ("c", "[]", "nil"), ("c", "max_tagged_integer", "atom"), ("c", "inf", "atom"), ("c", "nan", "atom"), ("c", "random", "atom"),
            ("c", "cputime", "atom"), ("c", "max_integer", "atom"), ("c", "(1+a)", "nested"), ("c", "foo(_)", "compound"), ("c", "(a:b)", "compound"),
            ("c", "'+'(1,2,3)", "arity3"), ("c", "{1}", "curly"), ("c", "(_ + 1)", "nested-unbound")]
BOUNDED2 = ("<<", ">>", "^", "**")
SMALL2 = ["0", "1", "2", "3", "5", "(-1)", "(-3)", "0.5", "64", "2.0"]
SAFE_OPS1 = ["-", "+", "abs", "sign"]
SAFE_OPS2 = ["+", "-", "*", "max", "min"]


def leaf(rng):
    r = rng.random()
    if r < 0.45:
        return ("n", rng.choice(INTS))
    if r < 0.75:
        return ("n", rng.choice(FLOATS))
    if r < 0.85:
        return rng.choice(CONSTS)
    return rng.choice(RATS)


def gen_exprs(ctx, keys):
    rng = ctx.rng
    un = sorted(k[0] for k in keys if k[1] == 1)
    bi = sorted(k[0] for k in keys if k[1] == 2)
    out = []
    # every functor x operand classes (exhaustive on a class grid)
    classes = {"int": ["1", "2", "(-7)", "0"], "big": ["18446744073709551617", "(-1180591620717411303424)"], "flt": ["0.5", "(-1.5)", "4.0", "0.0"],
               "rat": None, "const": None}

    def pick(cls):
        if cls == "rat": return rng.choice(RATS)
        if cls == "const": return rng.choice(CONSTS)
        return ("n", rng.choice(classes[cls]))
    for f in un:
        for c in classes:
            for _ in range(2):
                out.append(("op", f, [pick(c)]))
    for f in bi:
        for c1 in classes:
            for c2 in classes:
                if f in BOUNDED2:          # huge exponents / shift counts exhaust memory (DESIGN.md section 10 item 9)
                    out.append(("op", f, [pick(c1), ("n", rng.choice(SMALL2))]))
                else:
                    out.append(("op", f, [pick(c1), pick(c2)]))
    for c in CONSTS:
        out.append(c)
    for t in INTS + FLOATS:
        out.append(("n", t))

    # random nested expressions
    def rnd(d):
        if d == 0 or rng.random() < 0.3:
            return leaf(rng)
        if rng.random() < 0.35:
            return ("op", rng.choice(un), [rnd(d - 1)])
        f = rng.choice(bi)
        if f in BOUNDED2:
            return ("op", f, [rnd(d - 1), ("n", rng.choice(SMALL2))])
        return ("op", f, [rnd(d - 1), rnd(d - 1)])
    for _ in range(ctx.scale(4000, 60000)):
        out.append(rnd(rng.choice([1, 2, 2, 3, 4])))

    # culprits: directly under every functor at every position, siblings error-free, error-free context above
    def wrap(e):
        for _ in range(rng.choice([0, 0, 1, 2])):
            if rng.random() < 0.4:
                e = ("op", rng.choice(SAFE_OPS1), [e])
            else:
                s = ("n", rng.choice(SAFE_NUMS))
                e = ("op", rng.choice(SAFE_OPS2), [e, s] if rng.random() < 0.5 else [s, e])
        return e
    for c in CULPRITS:
        out.append(c)
        for f in un:
            if rng.random() < ctx.scale(0.35, 1.0):
                out.append(wrap(("op", f, [c])))
        for f in bi:
            if rng.random() < ctx.scale(0.35, 1.0):
                s = ("n", rng.choice(SAFE_NUMS))
                out.append(wrap(("op", f, [c, s] if rng.random() < 0.5 else [s, c])))
    # two error sources in one expression: a culprit operand next to an operand that raises by itself
    zd = ("op", "//", [("n", "1"), ("n", "0")])
    for c in (CULPRITS[0], CULPRITS[1], CULPRITS[2]):
        out.append(("op", "+", [c, zd], "two-errors"))
        out.append(("op", "+", [zd, c], "two-errors"))
        out.append(("op", "max", [c, ("op", "mod", [("n", "2"), ("n", "0")])], "two-errors"))
    seen, res = set(), []
    for e in out:
        t = expr_text(e)
        if t not in seen and len(t) < 600:
            seen.add(t); res.append(e)
    return res


# ------------------------------------------------------------------ implementation side
def norm_term(t):
    if isinstance(t, dict):
        if "f" in t and t["f"] == "8000000000000000":
            return {"f": "0000000000000000"}
        return {k: norm_term(v) for k, v in t.items()}
    if isinstance(t, list):
        return [norm_term(x) for x in t]
    return t


def strip_vars(t):
    """variable names inside error culprits are not stable"""
    if isinstance(t, dict):
        if "v" in t:
            return {"v": "_"}
        return {k: strip_vars(v) for k, v in t.items()}
    if isinstance(t, list):
        return [strip_vars(x) for x in t]
    return t


def obs(ans, var="X"):
    """one query's answers -> ('val', json) | ('err', json) | ('other', text)"""
    if ans and isinstance(ans[0], dict):
        a = ans[0]
        if "b" in a and var in a["b"]:
            return ("val", json.dumps(norm_term(a["b"][var]), sort_keys=True))
        f = core.error_formal(a)
        if f is not None:
            return ("err", json.dumps(strip_vars(norm_term(f)), sort_keys=True))
    if ans and ans[0] == "true":
        return ("true", "")
    return ("other", json.dumps(ans)[:300])


CTX_NAMES = ["consulted-clause", "is-on-variable", "findall", "assertz-clause", "call-is", "compare-runtime", "compare-consulted"]


def run_contexts(ctx, exprs, tag="ctx"):
    B = 25
    jobs = []
    for j0 in range(0, len(exprs), B):
        chunk = exprs[j0:j0 + B]
        jid = "j%d" % j0
        prog = ["cmpctx_%s(E, R) :- catch(X0 is E, _, true), ( var(X0) -> E =:= 0, R = noerror ; ( E =:= X0 -> R1 = eq ; R1 = ne ), ( E < X0 -> R2 = lt ; R2 = nlt ), "
                "( X0 =< E -> R3 = le ; R3 = nle ), R = r(R1,R2,R3) ).\n" % jid]
        qs = []
        for i, e in enumerate(chunk):
            c = culprit_of(e)
            lit = expr_text(e, "V")
            full = expr_text(e)
            carg = c[1] if c else "0"
            prog.append("k_%s_%d(X,V) :- X is %s.\n" % (jid, i, lit))
            prog.append("q_%s_%d(X0,V) :- %s =:= X0.\n" % (jid, i, lit))
            qs.append("k_%s_%d(X,%s)." % (jid, i, carg))
            qs.append("E = %s, X is E." % full)
            qs.append("E = %s, findall(Y, Y is E, [X])." % full)
            qs.append("assertz((a_%s_%d(X,V) :- X is %s)), a_%s_%d(X,%s)." % (jid, i, lit, jid, i, carg))
            qs.append("E = %s, call(is, X, E)." % full)
            qs.append("E = %s, cmpctx_%s(E, X)." % (full, jid))
            qs.append("E = %s, catch(X0 is E, _, X0 = 0), q_%s_%d(X0,%s)." % (full, jid, i, carg))
        jobs.append({"id": jid, "consult": "".join(prog), "queries": qs, "timeout_ms": 30000, "fresh": (j0 // B) % 30 == 0})
    res = core.vrun_query(ctx.prop, jobs, tag=tag)
    out = []
    for j0 in range(0, len(exprs), B):
        chunk = exprs[j0:j0 + B]
        r = res.get("j%d" % j0)
        rs = r.get("results") if r else None
        for i in range(len(chunk)):
            if rs is None or 7 * i + 6 >= len(rs):
                out.append(None if rs is None else [("other", "missing")] * 7)
                if rs is None:
                    out[-1] = [("other", "no result: " + json.dumps(r)[:200])] * 7
                continue
            o = [obs(rs[7 * i + k]) for k in range(7)]
            o[6] = obs(rs[7 * i + 6], var="\0")       # success or error only
            out.append(o)
    return out


OK_CMP = ("val", json.dumps({"c": ["r", {"a": "eq"}, {"a": "nlt"}, {"a": "le"}]}, sort_keys=True))


def verdict(o):
    """None when the seven observations agree, else a description"""
    base = o[0]
    for k in range(1, 5):
        if o[k] != base:
            return "%s gives %s but %s gives %s" % (CTX_NAMES[0], show(base), CTX_NAMES[k], show(o[k]))
    if base[0] == "val":
        if o[5] != OK_CMP:
            return "value %s but %s gives %s" % (show(base), CTX_NAMES[5], show(o[5]))
        if o[6][0] not in ("true",) and not (o[6][0] == "other" and o[6][1].startswith("[{\"b\"")):
            return "value %s but %s gives %s" % (show(base), CTX_NAMES[6], show(o[6]))
    elif base[0] == "err":
        for k in (5, 6):
            if o[k] != base:
                return "%s gives %s but %s gives %s" % (CTX_NAMES[0], show(base), CTX_NAMES[k], show(o[k]))
    else:
        return "unexpected outcome %s" % show(base)
    return None


def show(o):
    if o[0] in ("val", "err"):
        try:
            return o[0] + ":" + core.term_text(json.loads(o[1]))
        except Exception:
            return o[0] + ":" + o[1][:200]
    return o[0] + ":" + o[1][:200]


# ------------------------------------------------------------------ per-key tie of the tables to the implementation
PROBES = [("foo", 1), ("cot", 1), ("atan", 2), ("truncate", 2), ("max", 1), ("min", 3), ("+", 3), ("e", 1), ("pi", 1), ("max_tagged_integer", 0),
          ("min_tagged_integer", 0), ("inf", 0), ("nan", 0), ("random", 0), ("cputime", 0), ("realtime", 0), ("log", 2), ("log2", 1), ("msb", 1),
          ("ceiling", 2), ("integer", 1), ("random_float", 0), ("sinh", 1), ("cosh", 1), ("tanh", 1), ("asinh", 1), ("copysign", 2), ("nexttoward", 2),
          ("trunc", 1), ("divmod", 2), ("cmpflags", 0), ("max_integer", 0), ("min_integer", 0), ("float_overflow", 0), ("number", 1), ("succ", 1), ("plus", 2)]


def key_probe(ctx, keys):
    jobs, order = [], []
    for n, (name, ar) in enumerate(keys):
        t = fun_text(name, ["1"] * ar)
        order.append((name, ar))
        jobs.append({"id": "p%d" % n, "consult": "", "timeout_ms": 10000, "fresh": n % 40 == 0, "queries": [
            "catch((assertz((kp_%d(X) :- X is %s)), kp_%d(_)), error(Er,_), true)." % (n, t, n),
            "E = %s, catch(X is E, error(Er,_), true)." % t]})
    res = core.vrun_query(ctx.prop, jobs, tag="keys")
    out = []
    for n, (name, ar) in enumerate(order):
        r = res.get("p%d" % n, {}).get("results")
        oks = []
        for k in range(2):
            ok = None
            if r and k < len(r) and r[k] and isinstance(r[k][0], dict) and "b" in r[k][0]:
                er = r[k][0]["b"].get("Er")
                ok = True
                if er is not None and "c" in er and er["c"][0] == "type_error" and er["c"][1].get("a") == "evaluable":
                    ind = er["c"][2]
                    if "c" in ind and ind["c"][0] == "/" and ind["c"][1].get("a") == name and ind["c"][2].get("i") == str(ar):
                        ok = False
            oks.append(ok)
        out.append(((name, ar), oks, r))
    return out


def coq_str(s):
    return '"' + s.replace('"', '""') + '"'


def parse_witness(text):
    m = re.search(r'Some\s*\(\s*\(?\s*"((?:[^"]|"")*)"\s*,\s*(\d+)%N', text)
    if not m:
        return None
    return (m.group(1).replace('""', '"'), int(m.group(2)))


# ------------------------------------------------------------------ run
def run(ctx):
    if "compiled" not in _TABLES:
        try:
            gen(ctx)
        except Exception:
            pass
    ct, mt = _TABLES.get("compiled", {}), _TABLES.get("meta", {})
    union = sorted(set(ct) | set(mt))
    failures, tie_breaks = [], []
    dist = {"keys": len(union), "table_differences": [], "outcomes": {}, "contexts": CTX_NAMES}

    # ---- T1: when the table theorem no longer checks, print the Coq witness and replay it
    diff_keys = [k for k in union if ct.get(k) != mt.get(k)]
    witness = None
    if ctx.proof_broken or diff_keys:
        w = core.coq_eval_show(ctx.prop, IMPORTS, "tables_counterexample")
        witness = parse_witness(w)
        dist["coq_witness"] = w[:400]
        if witness and witness not in diff_keys:
            diff_keys.append(witness)
    for k in diff_keys:
        dist["table_differences"].append({"key": "%s/%d" % k, "compiled": ct.get(k), "meta": mt.get(k)})

    # ---- per-key tie: evaluable / not evaluable on each path, decided by the regenerated tables inside Coq
    probe_keys = union + [p for p in PROBES if p not in union]
    probed = key_probe(ctx, probe_keys)
    bools, bmeta = [], []
    for (name, ar), oks, raw in probed:
        if None in oks:
            tie_breaks.append({"kind": "harness", "what": "evaluability probe gave no usable answer", "detail": "%s/%d: %s" % (name, ar, json.dumps(raw)[:300])})
            continue
        if oks[0] != oks[1]:
            t = fun_text(name, ["1"] * ar)
            failures.append({"key": "ctx:%s/%d" % (name, ar), "what": "functor is evaluable on one evaluation path only",
                             "input": "assertz((p(X) :- X is %s)), p(X).   versus   E = %s, X is E." % (t, t),
                             "impl": "compiled clause body: %s; run-time term: %s" % ("evaluates" if oks[0] else "type_error(evaluable,%s/%d)" % (name, ar),
                                                                                     "evaluates" if oks[1] else "type_error(evaluable,%s/%d)" % (name, ar)),
                             "spec": "the same outcome in both contexts (tables: compiled=%s, run-time=%s)" % (ct.get((name, ar)), mt.get((name, ar))),
                             "property_fails": True})
        bools.append("check_key %s %d%%N %s %s" % (coq_str(name), ar, "true" if oks[0] else "false", "true" if oks[1] else "false"))
        bmeta.append(((name, ar), oks))
    bad, errs = core.coq_eval_bools(ctx.prop, IMPORTS, bools, chunk=200, tag="keycases")
    tie_breaks += [{"kind": "coq-eval", "what": "model evaluation shard failed", "detail": t} for _, t in errs]
    for i in bad:
        (name, ar), oks = bmeta[i]
        if oks[0] == oks[1]:
            tie_breaks.append({"kind": "model", "what": "the regenerated tables disagree with the implementation about %s/%d" % (name, ar),
                               "detail": "implementation: compiled %s, run-time %s; tables: compiled=%s run-time=%s" % (oks[0], oks[1], ct.get((name, ar)), mt.get((name, ar)))})

    # ---- T2: every expression in every context
    keys_for_gen = [k for k in union if k in ct and k in mt] or union
    exprs = gen_exprs(ctx, keys_for_gen)
    # functors known to one table only are exercised too (run-time contexts and assertz decide)
    for k in diff_keys:
        if k[1] == 1:
            exprs += [("op", k[0], [("n", v)]) for v in ("1", "(-7)", "0.5", "(-1.5)", "18446744073709551617")]
        elif k[1] == 2:
            exprs += [("op", k[0], [("n", a), ("n", b)]) for a, b in (("1", "2"), ("2", "1"), ("7", "3"), ("(-7)", "2"), ("0.5", "(-1.5)"), ("4.0", "2"))]
        elif k[1] == 0:
            exprs.append(("op", k[0], []))
    observed = run_contexts(ctx, exprs)
    nontrivial = set()
    failing = []
    for e, o in zip(exprs, observed):
        v = verdict(o)
        kind = o[0][0]
        if kind == "err":
            f = json.loads(o[0][1])
            kind += "/" + (f["c"][0] + ":" + core.term_text(f["c"][1]) if "c" in f else f.get("a", "?"))
        dist["outcomes"][kind] = dist["outcomes"].get(kind, 0) + 1
        if e[0] == "op" or e[0] == "c":
            nontrivial.add(expr_text(e))
        if v:
            failing.append((e, o, v))
    if failing:
        # shrink: smallest failing subexpression
        subs, seen = [], set()
        for e, o, v in failing[:40]:
            for s in subexprs(e):
                t = expr_text(s)
                if t not in seen:
                    seen.add(t); subs.append(s)
        sobs = run_contexts(ctx, subs, tag="shrink")
        sfail = sorted(((s, o, verdict(o)) for s, o in zip(subs, sobs) if verdict(o)), key=lambda x: esize(x[0]))
        rep = {}
        for s, o, v in (sfail or failing):
            if s[0] == "op" and len(s) > 3:
                key = "ctx:error-order:culprit-" + ("left" if culprit_of(s[2][0]) else "right") + "-of-error"
            elif s[0] == "op":
                key = "ctx:%s/%d" % (s[1], len(s[2]))
                c = culprit_of(s)
                if c is not None:
                    key += ":" + c[2]
            elif s[0] == "c":
                key = "ctx:leaf:" + s[2]
            else:
                key = "ctx:number"
            if rep.get(key, 0) >= 2 or len(rep) >= 12:
                continue
            rep[key] = rep.get(key, 0) + 1
            failures.append({"key": key, "what": "evaluation contexts disagree", "input": "E = %s" % expr_text(s),
                             "impl": v, "spec": "all contexts give the same value or the same error formal",
                             "all_contexts": {n: show(x) for n, x in zip(CTX_NAMES, o)}, "property_fails": True})
    # a literal non-evaluable functor over an argument that raises by itself: rejected when the clause is compiled vs evaluated at run time
    pr = core.vrun_query(ctx.prop, [{"id": "ne", "consult": "", "fresh": True, "timeout_ms": 10000, "queries": [
        "catch((assertz((ne_p(X) :- X is foo(1//0))), ne_p(_)), error(Er,_), true).", "E = foo(1//0), catch(X is E, error(Er,_), true).",
        "catch((assertz((ne_q(X) :- X is foo(1))), ne_q(_)), error(Er,_), true).", "E = foo(1), catch(X is E, error(Er,_), true)."]}], tag="neprobe")
    prr = pr.get("ne", {}).get("results") or []
    ers = [json.dumps(strip_vars(a[0]["b"].get("Er")), sort_keys=True) if a and isinstance(a[0], dict) and "b" in a[0] else json.dumps(a)[:200] for a in prr]
    dist["nonevaluable_probe"] = ers
    if len(ers) == 4:
        if ers[2] != ers[3]:
            failures.append({"key": "ctx:foo/1", "what": "non-evaluable functor reported differently when literal in an asserted clause and at run time",
                             "input": "assertz((p(X) :- X is foo(1))), p(X).  versus  E = foo(1), X is E.", "impl": "%s versus %s" % (ers[2], ers[3]),
                             "spec": "the same error formal", "property_fails": True})
        if ers[0] != ers[1]:
            failures.append({"key": "ctx:error-order:nonevaluable-functor-over-error", "what": "an expression with two error sources raises a different error when it is literal in an asserted clause",
                             "input": "assertz((p(X) :- X is foo(1//0))), p(X).  versus  E = foo(1//0), X is E.", "impl": "%s versus %s" % (ers[0], ers[1]),
                             "spec": "the same error formal in every context", "property_fails": True})
    else:
        tie_breaks.append({"kind": "harness", "what": "non-evaluable probe gave no answers", "detail": json.dumps(pr)[:300]})
    samples = []
    for e, o in list(zip(exprs, observed))[:: max(1, len(exprs) // 8)][:8]:
        samples.append({"expr": expr_text(e)[:100], "outcome": show(o[0])[:100], "agree": verdict(o) is None})
    return {
        "evaluations": 7 * len(exprs) + 2 * len(probe_keys),
        "distinct_nontrivial": len(nontrivial),
        "rule": ("(1) every key of the union of the two regenerated tables plus %d non-evaluable probe functors: evaluable or not on the compiled "
                 "path (assertz-ed clause) and on the run-time path, compared in Coq with the tables (check_key); (2) expressions: every evaluable "
                 "functor x operand class grid (int, bignum, float, rational via rdiv, constants pi/e/epsilon), random nested expressions to depth 4, "
                 "and every non-numeric/unbound culprit (unbound, atoms incl. max_tagged_integer/inf/nan, compound, string, lists, arity-3 term) directly "
                 "under every functor at either position with error-free siblings; each evaluated in seven contexts (clause body consulted, is/2 on a "
                 "variable, findall/3, assertz-ed clause, call(is,X,E), =:=,<,=< on the run-time term, =:= in a consulted clause); culprits reach "
                 "clause bodies through a clause variable because a literal non-evaluable leaf is rejected when the clause is compiled; non-trivial = "
                 "distinct expression with at least one functor or culprit" % len([p for p in PROBES if p not in union])),
        "samples": samples,
        "distribution": dist,
        "failures": failures,
        "tie_breaks": tie_breaks,
    }
