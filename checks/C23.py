"""C23 -- Term construction and inspection builtins match a term model."""
import json
from vlib import core, terms
from checks.C10 import Gen, expand, prolog_text, dec, has_str, gsize

META = {
    "level": "proof",
    "text": ("Coq theorems over a reference model of functor/3, arg/3, =../2, copy_term/2, term_variables/2, ground/1 and subsumes_term/2 on "
             "the shared term datatype: =.. is consistent with functor/arg, the copy is a variant by an injective renaming onto fresh variables "
             "(so sharing is preserved and the original untouched), term_variables lists exactly the variables once each in depth-first "
             "left-to-right first-occurrence order (and equals the one-pass accumulator traversal), ground iff no variables, and the matching "
             "procedure behind subsumes_term decides ISO 8.2.4 (exists theta with General theta = Specific and Specific theta = Specific). "
             "Each builtin is modelled by mode with its ISO error table; model and implementation are run on generated calls in every "
             "instantiation pattern, including ill-typed arguments, through the meta-call and the compiled-clause path, and results "
             "(failure, error formal, bindings of all query variables up to variance) are compared inside Coq."),
    "note": ("Trusted: Coq kernel + vm_compute; the unification model of C10 (proved sound/most general there) used for the final unification of "
             "computed results with the arguments; canon_l/check_call comparison functions; harness vrun; Python generator; Prolog-side encoder of "
             "answers (uses =../2 of the implementation). When several ISO error conditions hold at once any of the corresponding errors is "
             "accepted. arg/3 with an unbound first argument is an instantiation_error in this implementation (ISO 8.5.2.3 a), there is no "
             "enumeration mode to check. Not covered: attributed variables (copy_term/2 then also copies attributes, copy_term/3), numbervars, "
             "cyclic arguments (C24). The error tables are the model's reading of ISO + the implementation's clause letters, not proved against a text."),
    "technique": ("Coq proof (univ_functor_arg_consistent, copy_is_variant, copy_fresh, copy_preserves_sharing, term_variables_dfs_nodup, "
                  "ground_iff_no_vars, subsumes_spec) over a reference model + differential correspondence evaluated in Coq"),
    "design_ref": "DESIGN.md section 8, C23",
    "coq_targets": ["C23/Props.vo"],
    "coq_dirs": ["C23", "C10"],
    "props": "C23/Props.v",
    "trusted_base": ["Coq 8.16.1 kernel, vm_compute (no native_compute)", "harness/vrun + tools/vlib (correspondence)",
                     "Prolog-side helper predicates c23_* consulted into the implementation", "C10 unification model, canon_l / check_call of the Coq models"],
    "assumptions": ["terms are finite trees without attributed variables", "0.0 and -0.0 are one float; n rdiv 1 is the integer n"],
}

IMPORTS = "From V Require Import Base.Term C10.Model C23.Model."

SUPPORT = r"""
c23_enc(_, _, N, _) :- N =< 0, !, throw(c23_too_big).
c23_enc(T, v(T), N0, N) :- var(T), !, N is N0 - 1.
c23_enc(T, T, N0, N) :- atomic(T), !, N is N0 - 1.
c23_enc([H|T], l(EH,ET), N0, N) :- !, N1 is N0 - 1, c23_enc(H, EH, N1, N2), c23_enc(T, ET, N2, N).
c23_enc(T, s(F, EAs), N0, N) :- T =.. [F|As], N1 is N0 - 1, c23_encl(As, EAs, N1, N).
c23_encl([], [], N, N).
c23_encl([A|As], [E|Es], N0, N) :- c23_enc(A, E, N0, N1), c23_encl(As, Es, N1, N).
c23_run(G, Vs, Out) :-
    catch(( call(G) -> c23_encl(Vs, Es, 8000, _), Out = ok(Es) ; Out = no ),
          error(E, _), ( c23_enc(E, EE, 8000, _), Out = err(EE) )).
"""

V = lambda i: ("var", "X%d" % i)
A = lambda s: ("atom", s)
I = lambda n: ("int", n)


def small(g, maxsize=15, depth=None):
    for _ in range(50):
        t = g.term(depth if depth is not None else g.rng.choice([1, 2, 2, 3, 3]))
        if gsize(t) <= maxsize:
            return t
    return g.leaf()


def nonvar(g, maxsize=15):
    for _ in range(50):
        t = small(g, maxsize)
        if t[0] != "var":
            return t
    return A("a")


def compound(g, maxsize=15):
    for _ in range(80):
        t = small(g, maxsize, depth=g.rng.choice([1, 2, 3]))
        if t[0] in ("cmp", "str"):
            return t
    return ("cmp", "f", [A("a"), V(0)])


def name_args(t):
    """name and arguments as generator terms (arithmetic-made numbers stay 'calc' leaves: a rational has no literal syntax)"""
    if t[0] == "str":
        t = terms.mkstring(t[1])
    if t[0] == "cmp":
        return A(t[1]), t[2]
    return t, []


def gen_calls(ctx):
    rng = ctx.rng
    n = ctx.scale(5200, 60000)
    calls, seen = [], set()
    O1, O2, O3 = V(7), V(8), V(9)          # fresh "output" variables, disjoint from the pool X0..X4
    BADNAME = [I(3), ("flt", terms.flt(1.5)[1]), ("cmp", "f", [A("x")]), ("str", "ab"), V(6), ("cmp", "g", [V(0), A("b")])]
    ARITIES = [I(0), I(1), I(2), I(3), I(7), I(255), I(256), I(-1), I(2 ** 70), I(-2 ** 70), ("flt", terms.flt(1.0)[1]), A("foo"), V(6),
               ("cmp", "f", [A("x")]), ("calc", "4 rdiv 2", I(2)), ("calc", "1 rdiv 2", ("rat", 1, 2))]

    def add(kind, sub, *args):
        key = json.dumps([kind] + list(args))
        if key in seen: return
        seen.add(key)
        if kind == "arg" and args[0][0] == "calc": sub = "int-valued-rational-index"
        elif kind == "arg" and args[0][0] == "int" and args[0][1] >= 2 ** 63: sub = "huge-index"
        elif kind == "functor" and args[2][0] == "calc": sub += "-rational-arity"
        calls.append({"kind": kind, "sub": sub, "args": list(args)})

    # a few fixed boundary cases (always present)
    add("functor", "construct", O1, A("foo"), I(255)); add("functor", "construct", O1, A("foo"), I(256))
    add("functor", "construct", O1, A("."), I(2)); add("functor", "construct", O1, A("[]"), I(0))
    add("univ", "construct", O1, terms.mklist([A("f")] + [I(k) for k in range(255)]))
    add("univ", "construct", O1, terms.mklist([A("f")] + [I(k) for k in range(256)]))
    add("univ", "inspect", ("str", "ab"), O1); add("univ", "construct", O1, ("str", "ab"))
    add("arg", "string", I(1), ("str", "ab"), O1); add("arg", "string", I(2), ("str", "ab"), O1); add("arg", "string", I(2), ("str", "a"), O1)
    add("arg", "string", I(3), ("str", "ab"), O1); add("arg", "string", I(0), ("str", "ab"), O1)
    add("copy", "fixed", ("cmp", "f", [V(0), V(1), V(0), ("str", "ab"), terms.mklist([I(1)], V(2))]), O1)
    add("subsumes", "fixed", V(0), ("cmp", "f", [V(0)])); add("subsumes", "fixed", ("cmp", "f", [V(0), V(1)]), ("cmp", "f", [V(1), A("a")]))
    add("subsumes", "fixed", ("cmp", "f", [V(0), V(0)]), ("cmp", "f", [V(1), V(2)])); add("subsumes", "fixed", ("cmp", "f", [V(0), V(1)]), ("cmp", "f", [V(2), V(2)]))
    add("tvars", "fixed", ("cmp", "f", [V(0), V(1)]), terms.mklist([V(1), V(0)]))

    tries = 0
    while len(calls) < n and tries < 30 * n:
        tries += 1
        g = Gen(rng, rng.choice([1, 2, 3, 3, 4, 5]), rng.random() < 0.08)
        r = rng.random()
        if r < 0.2:
            # functor/3
            if rng.random() < 0.5:
                t = nonvar(g)
                nm, args = name_args(t)
                nmc = rng.choice([O1, O1, nm, nm, A("zz"), rng.choice(BADNAME), O2])
                ar = rng.choice([O2, O2, I(len(args)), I(len(args)), I(len(args) + 1), rng.choice(ARITIES), O1])
                add("functor", "inspect", t, nmc, ar)
            else:
                nmc = rng.choice([A("foo"), A("a"), A("[]"), A("."), A("foo bar"), rng.choice(BADNAME), rng.choice(BADNAME)])
                add("functor", "construct", rng.choice([O1, V(0)]), nmc, rng.choice(ARITIES))
        elif r < 0.38:
            # arg/3
            t = rng.choice([compound(g), compound(g), compound(g), nonvar(g), V(6)])
            nm, args = name_args(t)
            nn = rng.choice([I(1), I(1), I(2), I(2), I(3), I(0), I(4), I(-1), I(2 ** 70), V(6), A("a"), ("flt", terms.flt(1.0)[1]),
                             I(len(args)), I(len(args) + 1), ("calc", "4 rdiv 2", I(2)), ("cmp", "f", [I(1)])])
            k = nn[1] if nn[0] == "int" else 0
            right = args[k - 1] if 1 <= k <= len(args) else A("a")
            a3 = rng.choice([O1, O1, right, g.generalise(right, 0.4), small(g, 6), ("cmp", "g", [O1, O1])])
            add("arg", "any", nn, t, a3)
        elif r < 0.58:
            # =../2
            if rng.random() < 0.5:
                t = nonvar(g)
                nm, args = name_args(t)
                full = [nm] + args
                k = rng.randrange(len(full) + 1)
                L = rng.choice([O1, O1, terms.mklist(full), terms.mklist(full[:k], O1), terms.mklist(full[:k] + [O2], O1),
                                terms.mklist([g.generalise(x, 0.4) for x in full]), terms.mklist(full + [A("extra")]), A("foo"),
                                terms.mklist(full[:k], A("foo")), terms.NIL, terms.mklist([O1] + args), terms.mklist([I(1)] + args),
                                terms.mklist([("cmp", "g", [A("x")])] + args), terms.mklist([("cmp", "g", [A("x")])])])
                add("univ", "inspect", t, L)
            else:
                k = rng.choice([0, 0, 1, 1, 2, 3])
                args = [small(g, 5) for _ in range(k)]
                h = rng.choice([A("foo"), A("foo"), A("."), A("[]"), A("a"), I(7), ("flt", terms.flt(1.5)[1]), ("cmp", "g", [A("x")]), V(6), ("str", "ab")])
                L = rng.choice([terms.mklist([h] + args), terms.mklist([h] + args), terms.mklist([h] + args, O2), terms.mklist([h] + args, A("foo")),
                                terms.NIL, O2, ("str", "abc"), A("foo"), terms.mklist([h] + args, ("str", "bc"))])
                add("univ", "construct", rng.choice([O1, V(0)]), L)
        elif r < 0.72:
            t = small(g)
            c = rng.choice([O1, O1, O1, g.generalise(t, 0.4), t, small(g, 8), g.mutate(g.generalise(t, 0.3)), ("cmp", "-", [O1, V(0)])])
            add("copy", "any", t, c)
        elif r < 0.84:
            t = small(g)
            vs = terms.term_vars(expand(t))
            perm = list(vs); rng.shuffle(perm)
            L = rng.choice([O1, O1, terms.mklist([O1], O2), terms.mklist([O1, O2]), A("foo"), terms.mklist([O1], A("foo")),
                            terms.mklist([("var", v) for v in perm]), terms.mklist([("var", v) for v in vs]), terms.mklist([("var", v) for v in vs[:1]], O1),
                            terms.NIL, terms.mklist([A("a")], O1), ("str", "ab"), terms.mklist([O1, O1])])
            add("tvars", "any", t, L)
        elif r < 0.9:
            t = small(g) if rng.random() < 0.5 else ground_term(rng)
            add("ground", "any", t)
        else:
            s = small(g)
            k = rng.random()
            if k < 0.35: a, b = g.generalise(s, 0.3), s
            elif k < 0.5: a, b = s, g.generalise(s, 0.3)
            elif k < 0.65: a, b = g.generalise(s, 0.3), g.generalise(s, 0.15)
            elif k < 0.75: a, b = s, s
            elif k < 0.9:
                # general side over its own variables (the usual use): rename the pool apart
                a, b = rename(g.generalise(s, 0.35), 10), s
            else: a, b = small(g), small(g)
            add("subsumes", "any", a, b)
    return calls


def rename(t, off):
    if t[0] == "var": return ("var", "X%d" % (int(t[1][1:]) + off))
    if t[0] == "cmp": return ("cmp", t[1], [rename(x, off) for x in t[2]])
    return t


def ground_term(rng):
    g = Gen(rng, 1, False)
    def strip(t):
        if t[0] == "var": return A("v")
        if t[0] == "cmp": return ("cmp", t[1], [strip(x) for x in t[2]])
        return t
    return strip(small(g))


PRED = {"functor": ("functor", "CFunctor"), "arg": ("arg", "CArg"), "univ": ("=..", "CUniv"), "copy": ("copy_term", "CCopy"),
        "tvars": ("term_variables", "CTVars"), "ground": ("ground", "CGround"), "subsumes": ("subsumes_term", "CSubsumes")}


def goal_text(c, calcs):
    args = [prolog_text(a, calcs) for a in c["args"]]
    if c["kind"] == "univ":
        return "(%s) =.. (%s)" % (args[0], args[1])
    return "%s(%s)" % (PRED[c["kind"]][0], ", ".join(args))


def build_jobs(calls):
    jobs, index = [], []
    B = 40
    for j0 in range(0, len(calls), B):
        prog, qs = [SUPPORT], []
        for off, c in enumerate(calls[j0:j0 + B]):
            i = j0 + off
            calcs = []
            goal = goal_text(c, calcs)
            pre = "".join("K%d is %s, " % (k, e) for k, e in enumerate(calcs))
            vs = sorted(set(v for a in c["args"] for v in terms.term_vars(expand(a))), key=lambda v: int(v[1:]))
            c["vs"] = vs
            vl = "[%s]" % ",".join(vs)
            qs.append("%sfindall(O, c23_run(%s, %s, O), L)." % (pre, goal, vl))
            index.append((i, "call", len(jobs), len(qs) - 1))
            prog.append("c23_t%d(Out) :- %scatch(( %s -> c23_encl(%s, Es, 8000, _), Out = ok(Es) ; Out = no ), error(E, _), "
                        "( c23_enc(E, EE, 8000, _), Out = err(EE) )).\n" % (i, pre, goal, vl))
            qs.append("findall(O, c23_t%d(O), L)." % i)
            index.append((i, "body", len(jobs), len(qs) - 1))
        jobs.append({"id": str(len(jobs)), "consult": "".join(prog), "queries": qs, "max_answers": 3, "timeout_ms": 20000,
                     "fresh": len(jobs) % 40 == 0})
    return jobs, index


def classify(ans):
    try:
        a = terms.answers(ans)
        if a and a[0] == ("ball", ("atom", "c23_too_big")):
            return "ICyclic", "succeeds with cyclic bindings"
        if not a or a[0][0] != "sol":
            return "IOther", json.dumps(ans)[:200]
        items, tail = terms.list_view(a[0][1]["L"])
        if len(items) != 1:
            return "IOther", "%d solutions: %s" % (len(items), json.dumps(ans)[:200])
        out = items[0]
        if out == ("atom", "no"):
            return "IFail", "fails"
        vmap = {}
        if out[0] == "cmp" and out[1] == "err":
            f = dec(out[2][0], vmap)
            return "(IErr %s)" % terms.to_coq(f), "error(%s,_)" % terms.to_prolog(terms.number_vars([f])[0])
        if out[0] == "cmp" and out[1] == "ok":
            items, tail = terms.list_view(out[2][0])
            bs = [dec(x, vmap) for x in items]
            return "(IOk [%s])" % "; ".join(terms.to_coq(x) for x in bs), "succeeds, bindings %s" % terms.to_prolog(terms.mklist(terms.number_vars(bs)))
        return "IOther", json.dumps(ans)[:200]
    except Exception as e:
        return "IOther", "unreadable answer %s: %s" % (e, json.dumps(ans)[:200])


def coq_call(c):
    varnum = {v: int(v[1:]) for v in c["vs"]}
    args = " ".join(terms.to_coq(expand(a), varnum) for a in c["args"])
    vs = "[%s]%%N" % "; ".join(str(varnum[v]) for v in c["vs"]) if c["vs"] else "[]"
    return "(%s %s)" % (PRED[c["kind"]][1], args), vs


def run(ctx):
    import time
    calls = gen_calls(ctx)
    jobs, index = build_jobs(calls)
    t0 = time.time()
    res = core.vrun_query(ctx.prop, jobs, tag="impl")
    core.log("C23: %d queries on the implementation in %.1fs" % (len(index), time.time() - t0))
    obs = {}
    for (i, path, jid, qi) in index:
        r = res.get(str(jid))
        if r is None or "results" not in r or qi >= len(r["results"]):
            o = ("IOther", "no result: %s" % json.dumps(r)[:200])
        else:
            o = classify(r["results"][qi])
        obs.setdefault(i, []).append((path, o))
    exprs, meta = [], []
    for i, c in enumerate(calls):
        cc, vs = coq_call(c)
        done = set()
        for path, o in obs[i]:
            if o[0] in done: continue
            done.add(o[0])
            exprs.append("check_call %s %s %s" % (cc, vs, o[0]))
            meta.append((i, o))
    t0 = time.time()
    bad, errs = core.coq_eval_bools(ctx.prop, IMPORTS, exprs, chunk=max(300, -(-len(exprs) // core.NPROC)))
    core.log("C23: %d Coq evaluations in %.1fs" % (len(exprs), time.time() - t0))
    tie_breaks = [{"kind": "coq-eval", "what": "model evaluation shard failed", "detail": t} for _, t in errs]
    failures, per_key = [], {}
    for k in bad:
        i, o = meta[k]
        c = calls[i]
        calcs = []
        goal = goal_text(c, calcs)
        pre = "".join("K%d is %s, " % (j, e) for j, e in enumerate(calcs))
        paths = [p for p, oo in obs[i] if oo[0] == o[0]]
        kind = "panic" if "panic" in o[1] else {"IFail": "fail", "IOther": "other", "ICyclic": "cyclic"}.get(o[0], "error" if o[0].startswith("(IErr") else "ok")
        key = "builtin:%s:%s:%s" % (c["kind"], c["sub"], kind)
        per_key[key] = per_key.get(key, 0) + 1
        if per_key[key] > 4 or len(failures) >= 40:
            continue
        cc, vs = coq_call(c)
        spec = core.coq_eval_show(ctx.prop, IMPORTS, "run_call %s" % cc)[:1500] if len(failures) < 4 else "(see run_call in C23/Model.v)"
        failures.append({"key": key, "what": "%s differs from the term model (paths: %s)" % (PRED[c["kind"]][0], ",".join(paths)),
                         "input": "%s%s.   %% variables %s" % (pre, goal, ",".join(c["vs"])), "impl": o[1], "spec": spec, "property_fails": True})
    if per_key:
        ctx.notes.append("failing observations per key: %s" % json.dumps(per_key, sort_keys=True))
    dist = {"builtin": {}, "impl_outcome": {}, "with_strings": 0}
    nontrivial = 0
    for i, c in enumerate(calls):
        dist["builtin"][c["kind"]] = dist["builtin"].get(c["kind"], 0) + 1
        o = obs[i][0][1]
        k = {"IFail": "fail", "IOther": "other", "ICyclic": "cyclic"}.get(o[0], "error" if o[0].startswith("(IErr") else "ok")
        dist["impl_outcome"][c["kind"] + ":" + k] = dist["impl_outcome"].get(c["kind"] + ":" + k, 0) + 1
        if any(has_str(a) for a in c["args"]): dist["with_strings"] += 1
        if any(expand(a)[0] == "cmp" for a in c["args"]) or k == "error":
            nontrivial += 1
    samples = []
    for i in range(0, len(calls), max(1, len(calls) // 10)):
        c = calls[i]
        samples.append({"goal": goal_text(c, []), "impl": obs[i][0][1][:160]})
    n_obs = sum(len(v) for v in obs.values())
    return {
        "evaluations": n_obs,
        "distinct_nontrivial": nontrivial,
        "rule": ("calls of functor/3, arg/3, =../2, copy_term/2, term_variables/2, ground/1, subsumes_term/2 over terms of <= 15 nodes with shared "
                 "variables, strings, partial/improper lists, all number kinds; every argument in the modes unbound / correct / partially "
                 "instantiated / wrong / ill-typed (incl. arity 255/256, negative and huge arities, non-list and improper-list arguments); each "
                 "through the meta-call and the compiled-body path; outcome (failure, error formal, bindings of all query variables up to "
                 "variance, single solution) compared in Coq by check_call. evaluations = (call, path) observations; non-trivial = distinct calls "
                 "with a compound argument or an error outcome"),
        "samples": samples,
        "distribution": dist,
        "failures": failures,
        "tie_breaks": tie_breaks,
        "notes": ["%d Coq evaluations for %d observations of %d distinct calls" % (len(exprs), n_obs, len(calls))],
    }
