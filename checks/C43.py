"""C43 -- op/3 and current_op/3 maintain a consistent operator table."""
import importlib.util, json, os, re, time
from vlib import core, terms

META = {
    "level": "proof",
    "text": ("Coq theorems over a reference model of the operator table (coq/C43): for every sequence of op/3 calls from the default table "
             "(regenerated from ast.rs default_op_dir and ops_and_meta_predicates.pl, well-formedness by vm_compute) no name is both infix and "
             "postfix, ',' [] {} never change, '|' stays infix >= 1001, priority 0 removes, a rejected call (also the list form: all or nothing) "
             "leaves the table unchanged, and current_op/3 enumerates exactly the table. The model is tied to builtins.pl/system_calls.rs "
             "differentially: histories of <= 6 calls on a fresh machine; after every call the outcome (success or error formal) and the "
             "current_op/3 enumerations (all arguments unbound, by name, by specifier, by priority, fully bound) are compared in Coq with the model."),
    "note": ("Reference model (ISO 8.14.3/8.14.4 + Cor.2), not an impl-mirror. When several error conditions apply to one call the "
             "implementation may report any of them (7.12); the model lists all and names the first in the order of the standard. "
             "Operator arguments in the correspondence are atoms, proper lists (possibly with a variable or non-atom element), variables, "
             "numbers and compounds; partial and improper lists are modelled but not generated (the answer channel cannot carry them). "
             "Error cases of current_op/3 itself and the reader's use of the table are not compared here. No axioms."),
    "technique": ("Coq proof (invariants by induction over call sequences, all-or-nothing, enumeration = table) over a reference model + "
                  "regenerated default operator table + differential correspondence evaluated in Coq"),
    "design_ref": "DESIGN.md section 8, C43",
    "coq_targets": ["C43/Props.vo"],
    "coq_dirs": ["C43", "Gen"],
    "props": "C43/Props.v",
    "trusted_base": ["Coq 8.16.1 kernel, vm_compute", "gen/default_ops.py translator", "harness vrun + tools/vlib (queries, JSON terms)",
                     "the reference model coq/C43/Model.v as the reading of ISO 8.14.3, 8.14.4 and Cor.2",
                     "Python generator, observation encoder and the rest-of-table equality (impl vs impl) in checks/C43.py"],
    "assumptions": ["operators not named in a history are compared with the same machine's initial enumeration (which is compared with the regenerated default table)"],
}

IMPORTS = "From V Require Import Base.Term C43.Model."


def gen(ctx):
    spec = importlib.util.spec_from_file_location("gen_default_ops", os.path.join(core.ROOT, "gen", "default_ops.py"))
    m = importlib.util.module_from_spec(spec)
    spec.loader.exec_module(m)
    m.generate(core.REPO, os.path.join(core.COQ, "Gen", "DefaultOps.v"))


A = lambda s: ("atom", s)
I = lambda n: ("int", n)
C = lambda f, *a: ("cmp", f, list(a))
VAR = ("var", "_")

NAMES = ["a", "+", "-", "mod", "|", ",", "[]", "{}", "xx"]
SPECS = ["xfx", "xfy", "yfx", "fy", "fx", "xf", "yf"]
PRIOS = [I(0), I(1), I(200), I(700), I(1000), I(1001), I(1200), I(1201), I(-1), A("foo"), VAR]
BAD_SPECS = [A("foo"), A("yfy"), I(1), VAR, C("xfx", A("a"))]
BAD_ELEMS = [I(1), C("f", A("x")), VAR]
BAD_OPERATORS = [I(1), C("f", A("x")), VAR, terms.flt(1.5)]


def qtext(t):
    """query text of an argument; every atom is bracketed so that no operator declaration in play changes how the query reads"""
    k = t[0]
    if k == "var":
        return "_"
    if k == "int" and t[1] < 0:
        return "M%d" % -t[1]          # bound by c43_neg/2 at the start of the query
    if k == "atom":
        if t[1] in ("[]", "{}"):
            return t[1]
        return "(%s)" % terms.quote_atom(t[1])
    if k == "cmp" and t[1] == "." and len(t[2]) == 2:
        items, tail = terms.list_view(t)
        assert tail == terms.NIL
        return "[%s]" % ",".join(qtext(x) for x in items)
    if k == "cmp":
        return "%s(%s)" % (terms.quote_atom(t[1]), ",".join(qtext(x) for x in t[2]))
    return terms.to_prolog(t)


def negs(*ts):
    out = set()
    def go(t):
        if t[0] == "int" and t[1] < 0: out.add(-t[1])
        if t[0] == "cmp":
            for x in t[2]: go(x)
    for t in ts: go(t)
    return "".join("c43_neg(%d,M%d), " % (n, n) for n in sorted(out))


def cq(t):
    k = t[0]
    if k == "var":
        return "(Var 0%N)"
    if k == "atom":
        return '(A "%s")' % t[1].replace('"', '""') if t[1].isascii() and t[1].isprintable() else terms.to_coq(t)
    if k == "cmp":
        f = '(nm "%s")' % t[1].replace('"', '""') if t[1].isascii() and t[1].isprintable() else terms.coq_name(t[1])
        return "(Cmp %s [%s])" % (f, "; ".join(cq(x) for x in t[2]))
    return terms.to_coq(t)


def cname(s):
    return '(nm "%s")' % s.replace('"', '""') if s.isascii() and s.isprintable() else terms.coq_name(s)


def call_coq(c):
    return "Call %s %s %s" % (cq(c[0]), cq(c[1]), cq(c[2]))


def call_query(c):
    p, s, o = c
    return "%scatch((op(%s,%s,%s) -> R = succ ; R = fail), error(E,_), true)." % (negs(p, s, o), qtext(p), qtext(s), qtext(o))


def enum_query(q):
    p, s, n = q
    return "%sfindall(op(P,T,N), (P = %s, T = %s, N = %s, current_op(P,T,N)), L)." % (negs(p), qtext(p), qtext(s), qtext(n))


FULL = (VAR, VAR, VAR)


# ---------------------------------------------------------------- generator
def rnd_name(rng):
    # the five unrestricted names three times as often as ',' [] {} '|'
    return A(rng.choice(["a", "+", "-", "mod", "xx"] * 3 + NAMES))


def rnd_operator(rng):
    r = rng.random()
    if r < 0.55:
        return rnd_name(rng)
    if r < 0.94:
        n = rng.choice([1, 2, 2, 3])
        els = [rnd_name(rng) if rng.random() < 0.95 else rng.choice(BAD_ELEMS) for _ in range(n)]
        return terms.mklist(els)
    return rng.choice(BAD_OPERATORS)


def rnd_call(rng):
    r = rng.random()
    p = rng.choice(PRIOS) if r < 0.55 else I(rng.choice([0, 0, 1, 200, 200, 400, 500, 700, 999, 1000, 1001, 1100, 1200]))
    s = A(rng.choice(SPECS)) if rng.random() < 0.92 else rng.choice(BAD_SPECS)
    return (p, s, rnd_operator(rng))


def rnd_enum_queries(rng, calls):
    """current_op modes beyond the full enumeration, about operators likely to be in the table"""
    qs = []
    n = A(rng.choice([x for x in NAMES if x not in ("[]", "{}")]))
    qs.append((VAR, VAR, n))
    r = rng.random()
    pri = rng.choice([I(200), I(400), I(500), I(700), I(1000), I(1100), I(1200)] +
                     [c[0] for c in calls if c[0][0] == "int" and 0 < c[0][1] <= 1200])
    sp = A(rng.choice(SPECS))
    if r < 0.25:
        qs.append((VAR, sp, VAR))
    elif r < 0.5:
        qs.append((pri, VAR, VAR))
    elif r < 0.65:
        qs.append((pri, VAR, n))
    elif r < 0.8:
        qs.append((pri, sp, VAR))
    elif r < 0.9:
        qs.append((VAR, sp, n))
    else:
        qs.append((pri, sp, n))
    return qs


def gen_histories(ctx):
    rng = ctx.rng
    hs = []
    # single calls: every priority x specifier (valid + invalid) x a few operators, on a fresh machine
    singles = []
    for p in PRIOS:
        for s in [A(x) for x in SPECS] + BAD_SPECS:
            for o in rng.sample([A(x) for x in NAMES], 2) + [rnd_operator(rng)]:
                singles.append((p, s, o))
    rng.shuffle(singles)
    for c in singles[: ctx.scale(150, 1500)]:
        hs.append([c])
    # the list forms that must be all-or-nothing: a clean name together with one that is rejected
    for bad, mk in (("+", "xf"), ("-", "yf"), ("mod", "xf"), (",", "xfx"), ("[]", "fy"), ("{}", "fy"), ("|", "fy"), ("|", "xfy")):
        for good in ("a", "xx"):
            for order in (0, 1):
                names = [A(good), A(bad)] if order == 0 else [A(bad), A(good)]
                hs.append([(I(200), A(mk), terms.mklist(names))])
    for _ in range(ctx.scale(360, 6000)):
        hs.append([rnd_call(rng) for _ in range(rng.choice([2, 3, 4, 5, 6, 6]))])
    return hs


# ---------------------------------------------------------------- observations
def parse_ops(ans):
    """answers of a findall(op(P,T,N), ...) query -> list of (prio, spec, name) or None"""
    a = terms.answers(ans)
    sols = [x for x in a if x[0] == "sol"]
    if len(sols) != 1 or any(x[0] not in ("sol", "true", "false") for x in a) or "L" not in sols[0][1]:
        return None
    items, tail = terms.list_view(sols[0][1]["L"])
    if tail != terms.NIL:
        return None
    out = []
    for it in items:
        if it[0] != "cmp" or it[1] != "op" or len(it[2]) != 3:
            return None
        p, t, n = it[2]
        if p[0] != "int" or t[0] != "atom" or n[0] != "atom":
            return None
        out.append((p[1], t[1], n[1]))
    return out


def ops_coq(l):
    return "[%s]" % "; ".join("(%d%%Z, %s, %s)" % (p, cname(t), cname(n)) for (p, t, n) in l)


def parse_call(ans):
    a = terms.answers(ans)
    sols = [x for x in a if x[0] == "sol"]
    if len(sols) != 1 or any(x[0] not in ("sol", "true", "false") for x in a):
        return "IOther", "unexpected: " + json.dumps(ans)[:200]
    b = sols[0][1]
    if "E" in b and b["E"][0] != "var":
        if terms.term_vars(b["E"]):
            # a variable inside the culprit (e.g. type_error(list, _)): compare with variables numbered 0
            e = rename_vars(b["E"])
            return "(IErr %s)" % cq(e), "error: " + terms.to_prolog(b["E"])
        return "(IErr %s)" % cq(b["E"]), "error: " + terms.to_prolog(b["E"])
    if b.get("R") == A("succ"):
        return "ISucc", "succeeds"
    return "IOther", "fails" if b.get("R") == A("fail") else "unexpected: " + json.dumps(ans)[:200]


def rename_vars(t):
    if t[0] == "var":
        return VAR
    if t[0] == "cmp":
        return ("cmp", t[1], [rename_vars(x) for x in t[2]])
    return t


def names_in(calls):
    out = []
    def go(t):
        if t[0] == "atom" and t[1] not in out: out.append(t[1])
        if t[0] == "cmp":
            for x in t[2]: go(x)
    for c in calls:
        go(c[2])
    return out


def is_list(t):
    return t[0] == "cmp" and t[1] == "."


def run(ctx):
    hs = gen_histories(ctx)
    rng = ctx.rng
    jobs, plans = [], []
    for i, calls in enumerate(hs):
        qs = [enum_query(FULL)]
        plan = [("init",)]
        for k, c in enumerate(calls):
            qs.append(call_query(c)); plan.append(("call", k))
            qs.append(enum_query(FULL)); plan.append(("full", k))
            for q in rnd_enum_queries(rng, calls[:k + 1]):
                qs.append(enum_query(q)); plan.append(("enum", k, q))
        jobs.append({"id": str(i), "consult": "c43_neg(1,-1).\n", "queries": qs, "max_answers": 5, "timeout_ms": 10000, "fresh": True})
        plans.append((qs, plan))
    t0 = time.time()
    res = core.vrun_query(ctx.prop, jobs, tag="impl")
    ctx.notes.append("implementation: %d histories in %.1fs" % (len(jobs), time.time() - t0))

    exprs, where, occ = [], {}, []

    def add(e, meta):
        if e not in where:
            where[e] = len(exprs); exprs.append(e); occ.append([])
        occ[where[e]].append(meta)

    failures, tie_breaks = [], []
    dist = {"calls": 0, "impl_outcomes": {}, "operator_shape": {"atom": 0, "list": 0, "other": 0}, "enum_modes": {}, "histories": len(hs)}
    nontrivial = set()
    steps = 0
    info = {}     # (i, step) -> dict for reports
    py_bad = []   # (i, step, key, what, impl, spec) found by the impl-vs-impl rest comparison
    for i, calls in enumerate(hs):
        r = res.get(str(i))
        qs, plan = plans[i]
        if r is None or "results" not in r:
            failures.append({"key": "op:crash", "what": "the machine died or hung during an op/3 history", "input": " ".join(qs)[:1500],
                             "impl": json.dumps(r)[:300], "spec": "answers", "property_fails": True})
            continue
        rs = r["results"]
        init = parse_ops(rs[0])
        if init is None:
            py_bad.append((i, 0, "op:enumeration:unreadable", "initial enumeration unreadable", json.dumps(rs[0])[:300], "a list of op/3 terms"))
            continue
        add("check_default %s" % ops_coq(init), (i, 0))
        info[(i, 0)] = {"kind": "init", "impl": "%d operators" % len(init)}
        steps += 1
        for j, st in enumerate(plan):
            if j == 0:
                continue
            k = st[1]
            cs = "[%s]" % "; ".join(call_coq(c) for c in calls[:k])
            cs1 = "[%s]" % "; ".join(call_coq(c) for c in calls[:k + 1])
            steps += 1
            if st[0] == "call":
                c = calls[k]
                o = parse_call(rs[j])
                add("check_call %s (%s) %s" % (cs, call_coq(c), o[0]), (i, j))
                info[(i, j)] = {"kind": "call", "impl": o[1], "show": "expected_call %s (%s)" % (cs, call_coq(c)), "ok": o[0] == "ISucc"}
                dist["calls"] += 1
                w = o[1].split("(")[0][:40]
                dist["impl_outcomes"][w] = dist["impl_outcomes"].get(w, 0) + 1
                dist["operator_shape"]["atom" if c[2][0] == "atom" else ("list" if is_list(c[2]) else "other")] += 1
                nontrivial.add(cs1)
            elif st[0] == "full":
                l = parse_ops(rs[j])
                if l is None:
                    py_bad.append((i, j, "op:enumeration:unreadable", "enumeration unreadable", json.dumps(rs[j])[:300], "a list of op/3 terms"))
                    continue
                play = names_in(calls[:k + 1])
                inplay = [x for x in l if x[2] in play]
                rest = sorted(x for x in l if x[2] not in play)
                rest0 = sorted(x for x in init if x[2] not in play)
                if rest != rest0:
                    d = sorted(set(rest) ^ set(rest0))
                    py_bad.append((i, j, "op:unrelated-operator-changed", "an operator not named in any call changed",
                                   "differs on %r" % d[:6], "operators not named stay as in the machine's initial enumeration"))
                add("check_enum_in_play %s [%s] %s" % (cs1, "; ".join(cname(n) for n in play), ops_coq(inplay)), (i, j))
                info[(i, j)] = {"kind": "full", "impl": "in play: " + repr(inplay),
                                "show": "map show_entry (filter (in_play [%s]) (run default_table %s))" % ("; ".join(cname(n) for n in play), cs1)}
                dist["enum_modes"]["___"] = dist["enum_modes"].get("___", 0) + 1
            else:
                q = st[2]
                l = parse_ops(rs[j])
                mode = "".join("_" if x[0] == "var" else "b" for x in q)
                dist["enum_modes"][mode] = dist["enum_modes"].get(mode, 0) + 1
                if l is None:
                    py_bad.append((i, j, "op:enumeration:unreadable", "enumeration unreadable", json.dumps(rs[j])[:300], "a list of op/3 terms"))
                    continue
                add("check_enum %s %s %s %s %s" % (cs1, cq(q[0]), cq(q[1]), cq(q[2]), ops_coq(l)), (i, j))
                info[(i, j)] = {"kind": "enum", "mode": mode, "impl": repr(l),
                                "show": "expected_enum %s %s %s %s" % (cs1, cq(q[0]), cq(q[1]), cq(q[2]))}
                nontrivial.add(cs1 + " ? " + enum_query(q))
    dist["distinct_step_checks"] = len(exprs)
    t0 = time.time()
    chunk = max(100, -(-len(exprs) // (2 * core.NPROC))) if not ctx.thorough else 600
    bad, errs = core.coq_eval_bools(ctx.prop, IMPORTS, exprs, chunk=chunk)
    ctx.notes.append("model: %d distinct step checks in %.1fs" % (len(exprs), time.time() - t0))
    for k, t in errs:
        tie_breaks.append({"kind": "coq-eval", "what": "model evaluation shard failed", "detail": t})

    # classify: per history in step order; a wrong call outcome or a wrong full enumeration means the tables have diverged,
    # later disagreements of that history are consequences and are not reported
    bad_steps = {}
    for x in bad:
        for (i, j) in occ[x]:
            bad_steps.setdefault(i, {})[j] = None
    for (i, j, key, what, impl, spec) in py_bad:
        bad_steps.setdefault(i, {})[j] = (key, what, impl, spec)
    by_key = {}
    for i in sorted(bad_steps):
        calls = hs[i]
        qs, plan = plans[i]
        for j in sorted(bad_steps[i]):
            pre = bad_steps[i][j]
            st = plan[j]
            diverged = False
            if pre is not None:
                key = pre[0]
                diverged = True
            elif st[0] == "init":
                key, diverged = "op:default-table", True
            elif st[0] == "call":
                c = calls[st[1]]
                ok = info[(i, j)]["ok"]
                names = names_in([c])
                if ok and is_list(c[2]) and "|" in names:
                    key = "op:bar-in-list"
                elif ok:
                    key = "op:call-accepted"
                else:
                    key = "op:call-error"
                diverged = True
            elif st[0] == "full":
                c = calls[st[1]]
                prev_ok = info.get((i, j - 1), {}).get("ok")
                if prev_ok is False and is_list(c[2]):
                    key = "op:list-partial-apply"
                elif prev_ok is False:
                    key = "op:rejected-call-changed-table"
                else:
                    key = "op:enumeration"
                diverged = True
            else:
                mode = info[(i, j)]["mode"]
                key = "op:current_op:priority-bound" if mode in ("b__", "b_b", "bb_") else "op:current_op:mode-" + mode
            by_key.setdefault(key, []).append((len(calls), j, i))
            if diverged:
                break
    chosen = []
    for key, lst in sorted(by_key.items()):
        lst.sort()
        chosen.append((key, len(lst)) + lst[0])
    shows = [info.get((i, j), {}).get("show") for (_, _, _, j, i) in chosen]
    specs = show_many(ctx.prop, [s for s in shows if s])
    specs = iter(specs)
    for (key, n, _, j, i) in chosen:
        qs, plan = plans[i]
        pre = bad_steps[i][j]
        spec = pre[3] if pre is not None else (pretty(next(specs)) if info.get((i, j), {}).get("show") else "the regenerated default table")
        failures.append({"key": key, "what": "operator table disagrees with the model (%d histories in this run)" % n,
                         "input": " ".join(qs[:j + 1])[-1800:], "step": qs[j],
                         "impl": (pre[2] if pre is not None else info[(i, j)]["impl"])[:500], "spec": spec[:600], "property_fails": True})
    samples = []
    for i in range(0, len(hs), max(1, len(hs) // 6)):
        qs, plan = plans[i]
        if (i, 1) in info:
            samples.append({"query": qs[1], "impl": info[(i, 1)]["impl"][:120]})
    return {
        "evaluations": steps,
        "distinct_nontrivial": len(nontrivial),
        "rule": ("histories of op/3 calls on a fresh machine: single calls over priorities {0,1,200,700,1000,1001,1200,1201,-1,foo,unbound} x "
                 "specifiers {7 valid, foo, yfy, 1, unbound, xfx(a)} x operators over {a,+,-,mod,'|',',',[],{},xx} (atoms, lists of 1-3 with "
                 "occasional non-atom or unbound elements, non-list terms); the all-or-nothing list forms; random histories of 2-6 calls. "
                 "After every call: outcome, full current_op/3 enumeration (names in play in Coq, the rest against the machine's initial "
                 "enumeration) and two further current_op/3 modes. evaluations = compared steps; non-trivial = distinct (history of calls so far) "
                 "and distinct (history, query) pairs"),
        "samples": samples[:8],
        "distribution": dist,
        "failures": failures,
        "tie_breaks": tie_breaks,
    }


def pretty(coq_text):
    def sub(m):
        return '"%s"' % "".join(chr(int(x)) for x in re.findall(r"(\d+)%N", m.group(0)))
    return re.sub(r"\[\d+%N(?:; \d+%N)*\]", sub, coq_text)


def show_many(prop, exprs):
    """printed model values of several expressions, one coqc run"""
    if not exprs:
        return []
    d = os.path.join(core.WORK, prop, "show")
    os.makedirs(d, exist_ok=True)
    path = os.path.join(d, "show_many.v")
    with open(path, "w") as f:
        f.write("From Coq Require Import List ZArith NArith String Ascii.\nImport ListNotations.\n" + IMPORTS + "\nOpen Scope string_scope.\n")
        for e in exprs:
            f.write("Eval vm_compute in (%s).\n" % e)
    rc, out = core.sh(["coqc", "-noglob", "-Q", core.COQ, "V", "-o", path + "o", path], timeout=600)
    parts = [re.sub(r"\s+", " ", x).strip() for x in re.split(r"^\s*= ", out, flags=re.M)[1:]]
    return parts if len(parts) == len(exprs) else ["(model value not available: %s)" % out[-300:]] * len(exprs)
