"""C22 -- Atom and character builtins agree with their string semantics."""
import json, re
from vlib import core, terms

META = {
    "level": "proof",
    "text": ("Coq theorems over enumerators on code point lists that follow builtins.pl (append/3 based) and the ISO error table: "
             "sub_atom/5 in each of its 16 modes is sound, complete, duplicate-free and in ISO order (sub_atom_enum_exact), "
             "atom_concat/3 lists exactly the splits by increasing prefix (atom_concat_enum_exact), atom_length/2 counts code points, "
             "atom_chars/atom_codes/char_code are mutually inverse (atom_codes_chars_consistent), and the error table (errors_per_mode). "
             "The enumerators are tied to the implementation by running every mode x every solution of all atoms of at most 2 characters over "
             "{a, b, e-acute, U+65E5, U+1F600, space} (plus a seeded sample of longer atoms) and every ill-typed argument pattern, and "
             "comparing full solution sequences and error formals inside Coq."),
    "note": ("Trusted: Coq kernel + vm_compute; hand-written model; harness vrun; the Python generator. Error ORDER where several arguments "
             "are bad follows the implementation (ISO leaves it open). Numbers in place of atoms give type_error(atom, N) as ISO 13211-1 says "
             "(scryer does the same). char_code/2 follows ISO 8.16.6.3 d also when the character is given (scryer fails instead: reported). "
             "char_type/2 is modelled only for a ground character among ASCII and four other characters and 16 classes + upper(U)/lower(L); "
             "its class tables are hand-copied from src/parser/macros.rs and Rust's ASCII predicates, tied by the exhaustive ASCII run, no theorem. "
             "Lists with repeated variables and compound list elements containing variables are not generated."),
    "technique": ("Coq proof (sub_atom_enum_exact, atom_concat_enum_exact, atom_length_is_char_count, atom_codes_chars_consistent, errors_per_mode) "
                  "over a reference model + differential correspondence evaluated in Coq"),
    "design_ref": "DESIGN.md section 8, C22",
    "coq_targets": ["C22/Props.vo"],
    "coq_dirs": ["C22"],
    "props": "C22/Props.v",
    "trusted_base": ["Coq 8.16.1 kernel, vm_compute", "harness/vrun + tools/vlib (correspondence)", "hand-written model of builtins.pl atom builtins"],
    "assumptions": ["atoms of the correspondence have at most 4 characters over a 6-character alphabet (ASCII, 2-, 3- and 4-byte UTF-8)",
                    "char_type/2 restricted to ground ASCII characters + U+00E9, U+00C9, U+65E5, U+1F600"],
}

IMPORTS = "From V Require Import Base.Term C22.Model."
LIBS = ":- use_module(library(lists)).\n:- use_module(library(charsio)).\n"
K = 40
ALPHA = ["a", "b", "é", "日", "\U0001F600", " "]


def A(s): return ("atom", s)
def I(n): return ("int", n)
def V(n): return ("var", n)
FX = ("cmp", "f", [A("x")])
F1 = terms.flt(1.0)


class Case:
    __slots__ = ("pred", "args", "interest", "query", "coq", "nontrivial", "tag")

    def __init__(self, pred, args, nontrivial=True, tag=""):
        self.pred, self.args, self.nontrivial, self.tag = pred, args, nontrivial, tag
        vs = terms.term_vars(("cmp", "t", args))
        self.interest = vs
        varnum = {v: i for i, v in enumerate(vs)}
        self.query = "%s(%s)." % (pred, ",".join(terms.arg_text(a) for a in args))
        self.coq = "%s_model %s" % (pred, " ".join(terms.to_coq(a, varnum) for a in args))


def atoms(ctx):
    short = [""] + ALPHA + [x + y for x in ALPHA for y in ALPHA]
    longer = set()
    n3, n4 = ctx.scale(8, 150), ctx.scale(5, 150)
    while len(longer) < n3:
        longer.add("".join(ctx.rng.choice(ALPHA) for _ in range(3)))
    while len(longer) < n3 + n4:
        longer.add("".join(ctx.rng.choice(ALPHA) for _ in range(4)))
    longer |= {"abab", "aaa", "é\U0001F600日a"}
    return short, sorted(longer)


def gen_sub_atom(ctx, short, longer):
    out, seen = [], set()
    def add(s, b, l, a, sub, nt=True):
        args = [A(s), b, l, a, sub]
        k = repr(args)
        if k not in seen:
            seen.add(k); out.append(Case("sub_atom", args, nt))
    names = ["B", "L", "A", "S"]
    for s in short + longer:
        n = len(s)
        sols = [(b, l, n - b - l, s[b:b + l]) for b in range(n + 1) for l in range(n - b + 1)]
        use = sols if n <= 2 else ctx.rng.sample(sols, min(len(sols), 3))
        for mask in range(16):
            for sol in (use if mask else use[:1]):
                vals = [I(sol[0]), I(sol[1]), I(sol[2]), A(sol[3])]
                add(s, *[vals[i] if mask >> i & 1 else V(names[i]) for i in range(4)])
        # arguments that are no solution
        add(s, I(n + 1), V("L"), V("A"), V("S")); add(s, V("B"), I(n + 1), V("A"), V("S")); add(s, V("B"), V("L"), I(n + 1), V("S"))
        add(s, V("B"), V("L"), V("A"), A("zz")); add(s, V("B"), V("L"), V("A"), A(s + "a")); add(s, I(0), I(n), I(1), V("S"))
        add(s, I(n), V("L"), V("A"), A("a")); add(s, V("B"), I(1), V("A"), A("ab")); add(s, I(1 << 64), V("L"), V("A"), V("S"))
    # error table
    ints = [V, I(1), I(-1), A("foo"), F1]
    for bi, b in enumerate(ints):
        for li, l in enumerate(ints):
            for ai, a in enumerate(ints):
                for sub in (V("S"), A("b"), I(1), FX):
                    add("abc", V("B") if b is V else b, V("L") if l is V else l, V("A") if a is V else a, sub,
                        nt=not (bi < 2 and li < 2 and ai < 2 and sub[0] in ("var", "atom")))
    for bad in (V("X"), I(1), FX, terms.mkstring("abc"), F1):
        for rest in ([V("B"), V("L"), V("A"), V("S")], [I(-1), A("foo"), V("A"), I(1)], [I(0), I(1), I(2), A("a")]):
            args = [bad] + rest
            out.append(Case("sub_atom", args))
    return out


def gen_atom_concat(ctx, short, longer):
    out, seen = [], set()
    def add(*args):
        k = repr(args)
        if k not in seen:
            seen.add(k); out.append(Case("atom_concat", list(args)))
    for s in short + longer:
        add(V("X"), V("Y"), A(s))
        for i in range(len(s) + 1):
            p, q = s[:i], s[i:]
            add(A(p), V("Y"), A(s)); add(V("X"), A(q), A(s)); add(A(p), A(q), V("Z")); add(A(p), A(q), A(s))
        add(A("zz"), V("Y"), A(s)); add(V("X"), A("zz"), A(s)); add(A(s), A("a"), A(s)); add(A(s + "a"), V("Y"), A(s))
        add(V("X"), A(s + "a"), A(s)); add(A(s[1:]), V("Y"), A(s)); add(V("X"), A(s[:-1]), A(s))
    vals = [V, A("ab"), I(1), FX, F1, terms.mkstring("ab")]
    for a in vals:
        for b in vals:
            for c in vals:
                add(V("X") if a is V else a, V("Y") if b is V else b, V("Z") if c is V else c)
    return out


def gen_atom_length(ctx, short, longer):
    out = []
    for s in short + longer:
        n = len(s)
        for ln in [V("N"), I(n), I(n + 1), I(-1)] + ([I(0), A("foo"), F1, I(1 << 64), I(-(1 << 64)), FX] if s in ("", "a", "日\U0001F600", "abab") else []):
            out.append(Case("atom_length", [A(s), ln]))
    for bad in (V("X"), I(1), I(12), terms.flt(1.5), FX, terms.mkstring("abc"), A("[]")):
        for ln in (V("N"), I(2), I(-1), A("foo")):
            out.append(Case("atom_length", [bad, ln]))
    return out


def gen_text(ctx, short, longer, pred, elem):
    """atom_chars / atom_codes: elem maps a character to its list element"""
    out, seen = [], set()
    def add(a, l):
        k = repr((a, l))
        if k not in seen:
            seen.add(k); out.append(Case(pred, [a, l]))
    for s in short + longer:
        n = len(s)
        full = [elem(c) for c in s]
        add(A(s), V("L")); add(A(s), terms.mklist(full)); add(V("X"), terms.mklist(full))
        add(A(s), terms.mklist([V("E%d" % i) for i in range(n)]))
        add(A(s), terms.mklist([V("E%d" % i) for i in range(n + 1)]))
        add(A(s), terms.mklist([V("E0")], V("T")))
        if n >= 1:
            add(A(s), terms.mklist(full[:1], V("T"))); add(A(s), terms.mklist(full[:-1])); add(A(s), terms.mklist(full[:-1] + [elem("b" if s[-1] != "b" else "a")]))
            add(A(s), terms.mklist(full[:-1] + [V("E")])); add(A(s), terms.mklist([V("E")] + full[1:]))
            add(V("X"), terms.mklist(full[:1], V("T"))); add(V("X"), terms.mklist(full[:-1] + [V("E")]))
        if n >= 2:
            add(A(s), terms.mklist(full[:1] + [V("E")], V("T")))
    bad_elems = [A("bc"), A(""), I(1), FX, F1] if pred == "atom_chars" else [A("a"), I(-1), I(55296), I(57343), I(1114112), I(1 << 64), F1, FX]
    e = elem("a")
    for a in (V("X"), A("ab"), A("a"), I(1), FX):
        for l in [A("foo"), terms.mklist([e], A("b")), terms.mklist([e], I(1)), terms.mklist([e, V("E")], A("foo")), V("L"),
                  terms.mklist([e], V("T")), terms.mklist([]), terms.mklist([e, e])] + \
                 [terms.mklist([e, b]) for b in bad_elems] + [terms.mklist([b, e]) for b in bad_elems] + \
                 [terms.mklist([e, b], V("T")) for b in bad_elems] + [terms.mklist([V("E"), b]) for b in bad_elems]:
            if a[0] == "var" and l[0] == "cmp" and terms.list_view(l)[1] == A("foo") and terms.term_vars(l):
                continue    # the culprit of type_error(list, L) would contain a variable next to the variable atom: numbering not comparable
            add(a, l)
    return out


def gen_char_code(ctx):
    out = []
    codes = [97, 233, 26085, 128512, 32, 0, 55295, 55296, 57343, 57344, 1114111, 1114112, -1, 1 << 64, -(1 << 64)]
    for c in ALPHA:
        out.append(Case("char_code", [A(c), V("N")]))
        for n in codes:
            out.append(Case("char_code", [A(c), I(n)]))
    for n in codes + [98, 127, 128, 65535, 65536]:
        out.append(Case("char_code", [V("C"), I(n)]))
    for ch in (V("C"), A("a"), A("ab"), A(""), I(1), FX, F1, terms.mkstring("a")):
        for co in (V("N"), I(97), A("b"), F1, FX, I(-1)):
            out.append(Case("char_code", [ch, co]))
    return out


CLASSES = ["alpha", "alnum", "decimal_digit", "hexadecimal_digit", "octal_digit", "binary_digit", "lower", "upper", "whitespace",
           "layout", "graphic", "graphic_token", "solo", "meta", "sign", "exponent"]
CT_CHARS = list(range(128)) + [233, 201, 26085, 128512]


def char_type_query(c):
    return ("char_code(C, %d), findall(T, (member(T, [%s]), char_type(C, T)), Ts), char_type(C, upper(U)), char_type(C, lower(L))."
            % (c, ",".join(CLASSES)))


# ------------------------------------------------------------------ observations
def formal_coq(f):
    if f == ("atom", "instantiation_error"): return "FInst"
    if f[0] == "cmp" and f[1] == "type_error" and len(f[2]) == 2 and f[2][0][0] == "atom" and f[2][0][1] in ("atom", "integer", "character", "list"):
        return "(FType %s_nm %s)" % (f[2][0][1], terms.to_coq(terms.number_vars([f[2][1]])[0]))
    if f[0] == "cmp" and f[1] == "domain_error" and f[2][0] == ("atom", "not_less_than_zero"):
        return "(FDomNLZ %s)" % terms.to_coq(terms.number_vars([f[2][1]])[0])
    if f == ("cmp", "representation_error", [("atom", "character_code")]): return "FRepCC"
    return None


def observe(case, result):
    if result is None:
        return "(mkobs [] EOther)", "no result", "other", 0
    ans = terms.answers(result)
    if ans and ans[-1] == ("false",):
        ans = ans[:-1]
    rows, end, txt, kind = [], "EEnd", [], "end"
    for j, a in enumerate(ans):
        if a[0] == "true":
            rows.append([]); txt.append("true")
        elif a[0] == "sol":
            vals = terms.number_vars([a[1].get(v, ("atom", "$unbound")) for v in case.interest])
            rows.append(vals); txt.append(",".join("%s=%s" % (v, terms.to_prolog(t)) for v, t in zip(case.interest, vals)))
        elif a[0] == "more" and j == len(ans) - 1:
            end, kind = "EMore", "more"; txt.append("...")
        elif a[0] == "error" and j == len(ans) - 1:
            fc = formal_coq(a[1])
            end, kind = ("(EErr %s)" % fc if fc else "EOther"), "error"
            txt.append("error(%s)" % terms.to_prolog(terms.number_vars([a[1]])[0]))
        elif a[0] == "panic":
            end, kind = "EOther", "panic"; txt.append("PANIC: %s" % str(a[1])[:200])
            break
        else:
            end, kind = "EOther", "other"; txt.append(json.dumps(a, default=str, ensure_ascii=False)[:160])
            break
    coq = "(mkobs [%s] %s)" % ("; ".join("[%s]" % "; ".join(terms.to_coq(v) for v in r) for r in rows), end)
    return coq, " ; ".join(txt) if txt else "false", kind, len(rows)


def failure_key(case, kind):
    a = case.args
    if case.pred == "char_code" and kind == "panic": return "char_code:bignum-code-panics"
    if case.pred == "atom_codes" and kind == "panic": return "atom_codes:bignum-code-panics"
    if case.pred == "char_code" and a[0][0] == "atom" and len(a[0][1]) == 1 and a[1][0] == "int" and kind == "end":
        return "char_code:invalid-code-with-bound-char-fails-instead-of-representation_error"
    def sig(t):
        if t[0] == "var": return "v"
        if t[0] == "int": return "n" if t[1] < 0 else ("B" if t[1] > (1 << 50) else "i")
        if t[0] == "cmp" and t[1] == ".": return "l"
        return {"atom": "a", "flt": "f", "cmp": "c"}.get(t[0], "o")
    return "%s:%s:%s" % (case.pred, "".join(sig(t) for t in a), kind)


def run(ctx):
    short, longer = atoms(ctx)
    cases = (gen_sub_atom(ctx, short, longer) + gen_atom_concat(ctx, short, longer) + gen_atom_length(ctx, short, longer) +
             gen_text(ctx, short, longer, "atom_chars", lambda c: A(c)) + gen_text(ctx, short, longer, "atom_codes", lambda c: I(ord(c))) +
             gen_char_code(ctx))
    jobs = []
    B = 60
    for i in range(0, len(cases), B):
        jobs.append({"id": "q%d" % i, "consult": LIBS, "queries": [c.query for c in cases[i:i + B]], "max_answers": K, "timeout_ms": 30000})
    for i in range(0, len(CT_CHARS), B):
        jobs.append({"id": "t%d" % i, "consult": LIBS, "queries": [char_type_query(c) for c in CT_CHARS[i:i + B]], "max_answers": 3, "timeout_ms": 30000})
    res = core.vrun_query(ctx.prop, jobs, tag="impl")

    def result_of(prefix, i):
        r = res.get("%s%d" % (prefix, i - i % B))
        rs = r.get("results") if r else None
        return rs[i % B] if isinstance(rs, list) and i % B < len(rs) else None

    bools, info = [], []       # info: (case or None, query, impl text, kind, key override)
    dist = {"pred": {}, "ending": {}, "answers": {}}
    for i, c in enumerate(cases):
        coq, txt, kind, nans = observe(c, result_of("q", i))
        bools.append("check (%s) %s" % (c.coq, coq))
        info.append((c, c.query, txt, kind, None))
        dist["pred"][c.pred] = dist["pred"].get(c.pred, 0) + 1
        dist["ending"][kind] = dist["ending"].get(kind, 0) + 1
        b = "0" if nans == 0 else "1" if nans == 1 else "2-5" if nans <= 5 else "6+"
        dist["answers"][b] = dist["answers"].get(b, 0) + 1
    # char_type rows
    for i, c in enumerate(CT_CHARS):
        r = result_of("t", i)
        q = char_type_query(c)
        ans = terms.answers(r) if r else []
        if not ans or ans[0][0] != "sol":
            bools.append("false"); info.append((None, q, json.dumps(r, ensure_ascii=False)[:200], "other", "char_type:%d:no-answer" % c))
            continue
        b = ans[0][1]
        ts = [t[1] for t in terms.list_view(b["Ts"])[0]]
        up = [ord(x[1]) for x in terms.list_view(b["U"])[0]]
        lo = [ord(x[1]) for x in terms.list_view(b["L"])[0]]
        nm = lambda l: "[%s]%%N" % ";".join(str(x) for x in l)
        bools.append("check_classes %d%%N [%s]" % (c, "; ".join("true" if k in ts else "false" for k in CLASSES)))
        info.append((None, q, "classes=%s" % ",".join(ts), "char_type", "char_type:classes:%d" % c))
        bools.append("check_upper %d%%N %s" % (c, nm(up)))
        info.append((None, "char_code(C, %d), char_type(C, upper(U))." % c, "U=%s" % up, "char_type", "char_type:upper(U):%d" % c))
        bools.append("check_lower %d%%N %s" % (c, nm(lo)))
        info.append((None, "char_code(C, %d), char_type(C, lower(L))." % c, "L=%s (code points)" % lo, "char_type",
                     "char_type:lower(L)-yields-uppercase" if lo == up else "char_type:lower(L):%d" % c))
        dist["pred"]["char_type"] = dist["pred"].get("char_type", 0) + 3

    bad, errs = core.coq_eval_bools(ctx.prop, IMPORTS, bools, chunk=500)
    tie_breaks = [{"kind": "coq-eval", "what": "model evaluation shard failed", "detail": t[-1500:]} for _, t in errs]
    failures, perkey, shows = [], {}, []
    for i in bad:
        c, q, txt, kind, key = info[i]
        key = key or failure_key(c, kind)
        perkey[key] = perkey.get(key, 0) + 1
        if perkey[key] > 2 or len(failures) >= 16:
            continue
        f = {"key": key, "what": "solution sequence / error formal differs from the string model", "input": q, "impl": txt[:400],
             "spec": None, "property_fails": True}
        if c is not None:
            shows.append((f, "observe K (%s)" % c.coq))
        else:
            m = re.match(r"check_(classes|upper|lower) (\d+)%N", bools[i])
            f["spec"] = ("to_lower/to_upper/classes of code point %s per Model.v (char_type_row)" % m.group(2)) if m else ""
        failures.append(f)
    if shows:
        shown = core.coq_eval_show(ctx.prop, IMPORTS, "[%s]" % "; ".join(e for _, e in shows))
        parts = re.findall(r"\{\|.*?\|\}", shown)
        for k, (f, _) in enumerate(shows):
            f["spec"] = parts[k][:600] if len(parts) == len(shows) else shown[:600]
    for f in failures:
        f["count_with_this_key"] = perkey[f["key"]]
    dist["failing_by_key"] = perkey
    dist["atoms"] = {"<=2 chars": len(short), "longer (seeded sample)": len(longer)}
    samples = [{"query": info[i][1], "impl": info[i][2][:160]} for i in range(0, len(info), max(1, len(info) // 10))][:10]
    return {
        "evaluations": len(bools),
        "distinct_nontrivial": sum(1 for c in cases if c.nontrivial) + len(CT_CHARS),
        "rule": ("all %d atoms of at most 2 characters over {a,b,U+E9,U+65E5,U+1F600,space} and %d longer ones (seeded): sub_atom/5 in each of the 16 "
                 "bound/unbound modes instantiated from every solution (3 sampled solutions for longer atoms) plus non-solutions and the 5^3x4 "
                 "ill-typed table; atom_concat/3 in all modes from every split plus non-splits and the 6^3 ill-typed table; atom_length/2; "
                 "atom_chars/2 and atom_codes/2 with full, partial, all-variable, wrong and ill-typed lists in both directions; char_code/2 over "
                 "valid, surrogate, out-of-range and bignum codes; char_type/2 for 132 characters x 16 classes + upper(U) + lower(L). "
                 "non-trivial = distinct call that is not a repeated well-typed row of the sub_atom error table, + one per classified character"
                 % (len(short), len(longer))),
        "samples": samples,
        "distribution": dist,
        "failures": failures,
        "tie_breaks": tie_breaks,
    }
