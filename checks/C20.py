"""C20 -- strings behave exactly like the character lists they denote."""
import json
from vlib import core, terms
from vlib.terms import NIL

META = {
    "level": "proof",
    "text": ("Coq theorems over an impl-mirror of the partial-string layout of heap.rs: for EVERY NUL-free byte string the scanner applied to the bytes "
             "push_pstr_segment writes returns exactly the string and the cell after the padding (scan_encode), the bytes are the cells C33 charges "
             "(segment_cells_agree), the two tail-index formulas agree at every (also unaligned) location (tail_idx_two_formulas_agree, "
             "compare_tail_index_correct), the mirror of compare_pstr_slices is byte-lexicographic comparison at any alignment (cmp_slices_byte_lex), UTF-8 "
             "preserves the order (utf8_preserves_order), hence stored strings compare as their character lists do in the standard order of C13 "
             "(pstr_compare_is_list_compare); strings with NULs: the cell sequence push_pstr emits denotes the original characters and has C33's size "
             "(decode_cells_push_pstr, chars_of_cells, count_cells_is_cells_written). The implementation is tied to this behaviourally: every generated "
             "string is built through ~20 construction paths (literal, explicit cons cells, =.., functor/arg, atom_chars, findall, append, copy_term, "
             "assert/retrieve, partial_string/3, clause head/body, unaligned suffixes at every offset, two-segment strings) and 22 operations must give "
             "the same observation for every pair of paths, and that observation is compared in Coq with the prediction on character lists; partial "
             "strings with unbound/bound tails likewise (==, compare, =, term_variables, ground, length; the predictor of = is proved sound: punify_sound); the "
             "real heap is driven through a hook and its bytes and scan results are compared in Coq with encode_segment / scan / compute_pstr_size."),
    "note": ("Trusted: Coq kernel + vm_compute; the models of the layout are mirrors of heap.rs (push_pstr_segment, push_pstr, scan_slice_to_str, "
             "pstr_tail_idx, compare_pstr_slices with its last arm -- the utf8_chunks window -- abstracted to the comparison of the bytes at the first "
             "difference, which is what it computes on valid UTF-8); HeapPStrIter, unify_partial_string and the copier are NOT mirrored (no "
             "pstr_unify_is_list_unify / copy_preserves_string theorem): they are covered only by the behavioural correspondence. The heap base is "
             "assumed 8-aligned. writeq text is compared between construction paths only (not predicted). For strings of 4095-4097 characters the quadratic "
             "observation (all splits by append/3) is skipped. The smallest code points of each UTF-8 length (U+0080, U+0800, U+10000: encodings ending in "
             "0x80 bytes) are confined to a fixed class of cases (`edge`) because they trigger a known panic of the term copier; there the two operations "
             "that copy string suffixes (findall/3, all splits by append/3) are run alone. A query that panics is re-run operation by operation to name the "
             "operation. No axioms."),
    "technique": ("Coq proof (scan_encode, segment_cells_agree, tail_idx_two_formulas_agree, cmp_slices_byte_lex, utf8_preserves_order, "
                  "pstr_compare_is_list_compare, chars_of_cells, count_cells_is_cells_written, punify_sound) over an impl-mirror model + differential "
                  "correspondence evaluated in Coq"),
    "design_ref": "DESIGN.md section 8, C20",
    "coq_targets": ["C20/Props.vo"], "coq_dirs": ["C20"], "props": "C20/Props.v",
    "trusted_base": ["Coq 8.16.1 kernel, vm_compute", "harness vrun + tools/vlib", "src/verif_hooks.rs VHeap (layout tie)",
                     "Python generator/renderer of checks/C20.py and its Prolog helper library (c20_* predicates)"],
    "assumptions": ["the heap base address is 8-byte aligned", "heap strings are valid UTF-8 (scryer writes them from Rust str)"],
}
IMPORTS = "From V Require Import Base.Term C13.Model C20.Model.\nOpen Scope N_scope."

LIB = r"""
:- use_module(library(lists)).
:- use_module(library(iso_ext)).
:- use_module(library(charsio)).
:- use_module(library(pairs)).
:- dynamic(c20_tmp/1).

c20_cc([], T, T).
c20_cc([X|Xs], T, [C|Cs]) :- char_code(C, X), c20_cc(Xs, T, Cs).

c20_univ([], T, T).
c20_univ([X|Xs], T, L) :- char_code(C, X), c20_univ(Xs, T, L1), L =.. ['.', C, L1].

c20_functor([], T, T).
c20_functor([X|Xs], T, L) :- char_code(C, X), functor(L, '.', 2), arg(1, L, C), arg(2, L, L1), c20_functor(Xs, T, L1).

c20_drop(0, L, L) :- !.
c20_drop(K, [_|T], L) :- K1 is K - 1, c20_drop(K1, T, L).

c20_atom(Cs, L) :- atom_codes(A, Cs), atom_chars(A, L).

c20_suffix(Fill, Cs, L) :- append(Fill, Cs, All), atom_codes(A, All), atom_chars(A, LA), length(Fill, K), c20_drop(K, LA, L).

c20_halves(K, Cs, L) :- length(F, K), append(F, B, Cs), c20_atom(F, FL), c20_atom(B, BL), append(FL, BL, L).

c20_twoseg(K, Cs, L) :- length(F, K), append(F, B, Cs), c20_cc(F, [], FL), c20_atom(B, BL), partial_string(FL, L, T), T = BL.

c20_assert(S, L) :- retractall(c20_tmp(_)), assertz(c20_tmp(S)), c20_tmp(L), retract(c20_tmp(_)).

c20_t(G, X, R) :- catch(( G -> R = some(X) ; R = none ), error(E, _), R = err(E)).
% a result that should be a character list is handed back as an atom made from its code list (compact for the answer channel)
c20_l(G, X, R) :- catch(( G -> ( c20_codes(X, Cs) -> atom_codes(At, Cs), R = some(codes(At)) ; R = some(raw(X)) ) ; R = none ), error(E, _), R = err(E)).
c20_codes(L, Cs) :- L == [], !, Cs = [].
c20_codes(L, Cs) :- nonvar(L), L = [C|T], atom(C), atom_length(C, 1), char_code(C, X), Cs = [X|Xs], c20_codes(T, Xs).
c20_b(G, R) :- catch(( G -> R = true ; R = false ), error(E, _), R = err(E)).

c20_obs(Big, A, B, K, o(U,E,O,Lt,N,App,Spl,Nth,H,T,Ar,Nm,Un,Cp,Fa,As,Ac,So,Ks,G,TV,W)) :-
    c20_op(unify, Big, A, B, K, U), c20_op(eq, Big, A, B, K, E), c20_op(compare, Big, A, B, K, O), c20_op(lt, Big, A, B, K, Lt),
    c20_op(length, Big, A, B, K, N), c20_op(append, Big, A, B, K, App),
    (  ( Big == true ; Big == edge ) -> Spl = skipped ; c20_op(append_splits, Big, A, B, K, Spl) ),
    c20_op(nth0, Big, A, B, K, Nth), c20_op(arg1, Big, A, B, K, H), c20_op(arg2, Big, A, B, K, T),
    c20_op(functor_arity, Big, A, B, K, Ar), c20_op(functor_name, Big, A, B, K, Nm), c20_op(univ, Big, A, B, K, Un),
    c20_op(copy_term, Big, A, B, K, Cp), ( Big == edge -> Fa = skipped ; c20_op(findall, Big, A, B, K, Fa) ), c20_op(assert_retrieve, Big, A, B, K, As),
    c20_op(atom_chars, Big, A, B, K, Ac), c20_op(sort, Big, A, B, K, So), c20_op(keysort, Big, A, B, K, Ks),
    c20_op(ground, Big, A, B, K, G), c20_op(term_variables, Big, A, B, K, TV), c20_op(writeq, Big, A, B, K, W).

c20_op(unify, _, A, B, _, R) :- c20_b(A = B, R).
c20_op(eq, _, A, B, _, R) :- c20_b(A == B, R).
c20_op(compare, _, A, B, _, R) :- c20_t(compare(O, A, B), O, R).
c20_op(lt, _, A, B, _, R) :- c20_b(A @< B, R).
c20_op(length, _, A, _, _, R) :- c20_t(length(A, N), N, R).
c20_op(append, _, A, B, _, R) :- c20_l(append(A, B, X), X, R).
c20_op(append_splits, _, A, _, _, R) :- c20_t((findall(X-Y, append(X, Y, A), Sp), length(Sp, N)), N, R).
c20_op(nth0, _, A, _, K, R) :- c20_t(nth0(K, A, C), C, R).
c20_op(arg1, _, A, _, _, R) :- c20_t(arg(1, A, X), X, R).
c20_op(arg2, _, A, _, _, R) :- c20_l(arg(2, A, X), X, R).
c20_op(functor_name, _, A, _, _, R) :- c20_t(functor(A, X, _), X, R).
c20_op(functor_arity, _, A, _, _, R) :- c20_t(functor(A, _, X), X, R).
c20_op(univ, _, A, _, _, R) :- c20_t((A =.. L, length(L, N)), N, R).
c20_op(copy_term, _, A, _, _, R) :- c20_l(copy_term(A, X), X, R).
c20_op(findall, _, A, _, _, R) :- c20_l(findall(Z, Z = A, [X]), X, R).
c20_op(assert_retrieve, _, A, _, _, R) :- c20_l(c20_assert(A, X), X, R).
c20_op(atom_chars, _, A, _, _, R) :- c20_l((atom_chars(At, A), atom_chars(At, X)), X, R).
c20_op(sort, _, A, _, _, R) :- c20_l(sort(A, X), X, R).
c20_op(keysort, _, A, _, _, R) :- c20_l((pairs_keys_values(P, A, A), keysort(P, Q), pairs_keys(Q, X)), X, R).
c20_op(ground, _, A, _, _, R) :- c20_b(ground(A), R).
c20_op(term_variables, _, A, _, _, R) :- c20_t((term_variables(A, V), length(V, N)), N, R).
c20_op(writeq, _, A, _, _, R) :- c20_l(write_term_to_chars(A, [quoted(true)], X), X, R).

c20_pop(eq, A, _, B, _, R) :- c20_b(A == B, R).
c20_pop(compare, A, _, B, _, R) :- c20_t(compare(O, A, B), O, R).
c20_pop(unify, A, _, B, _, R) :- c20_b(\+ \+ A = B, R).
c20_pop(unify_result, A, TA, B, TB, R) :- c20_t(findall(A-TA-TB, A = B, X), X, R).
c20_pop(term_variables, A, _, _, _, R) :- c20_t((term_variables(A, V), length(V, N)), N, R).
c20_pop(ground, A, _, _, _, R) :- c20_b(ground(A), R).
c20_pop(length, A, _, _, _, R) :- c20_t(findall(N, once(length(A, N)), X), X, R).

c20_pobs(A, TA, B, TB, p(VO,E,O,U,Af,NV,G,Ln)) :-
    c20_t(compare(VO0, TA, TB), VO0, VO),
    c20_b(A == B, E),
    c20_t(compare(O0, A, B), O0, O),
    c20_b(\+ \+ A = B, U),
    c20_t(findall(A-TA-TB, A = B, Af0), Af0, Af),
    c20_t((term_variables(A, TV0), length(TV0, TV1)), TV1, NV),
    c20_b(ground(A), G),
    c20_t(findall(N, once(length(A, N)), Ln0), Ln0, Ln).
"""

FIELDS = ["unify", "eq", "compare", "lt", "length", "append", "append_splits", "nth0", "arg1", "arg2", "functor_arity", "functor_name", "univ",
          "copy_term", "findall", "assert_retrieve", "atom_chars", "sort", "keysort", "ground", "term_variables", "writeq"]
BINARY = {"unify", "eq", "compare", "lt", "append"}
PFIELDS = ["eq", "compare", "unify", "unify_result", "term_variables", "ground", "length"]

ASCII = "abcdefghijklmnopqrstuvwxyzABCXYZ0189 _"
MB2 = ["é", "ß", "߿", "ü", "\u0081"]
MB3 = ["日", "本", "ｚ", "�", "€", "ࠁ"]
MB4 = ["\U0001F600", "\U0001F601", "\U0010FFFD", "\U00010001"]
# the smallest code point of each UTF-8 length: their encodings end in 0x80 bytes (kept to a dedicated class of cases)
EDGE = ["\u0080", "ࠀ", "\U00010000"]
SPECIAL = ['"', "\\", "'"]


# ------------------------------------------------------------------ rendering
def lit(s):
    out = ['"']
    for ch in s:
        o = ord(ch)
        if ch == '"': out.append('\\"')
        elif ch == "\\": out.append("\\\\")
        elif o < 32 or o == 127 or (o > 127 and not ch.isprintable()) or 0x80 <= o < 0xa0:
            out.append("\\x%x\\" % o)
        else: out.append(ch)
    out.append('"')
    return "".join(out)


def codes(s):
    return "[" + ",".join(str(ord(c)) for c in s) + "]"


def charatom(ch):
    o = ord(ch)
    if ch == "'": return "'\\''"
    if ch == "\\": return "'\\\\'"
    if o < 32 or o == 127 or (o > 127 and not ch.isprintable()) or 0x80 <= o < 0xa0:
        return "'\\x%x\\'" % o
    return "'%s'" % ch


def coq_codes(s):
    return "[" + ";".join(str(ord(c)) for c in s) + "]"


def byte_len(s):
    return len(s.encode("utf-8"))


# ------------------------------------------------------------------ construction paths of a closed string: name -> goal text binding V
def reps_closed(s, rng, big=False, fixed=False):
    """list of (kind, goal-maker(V)) for the string s"""
    n = len(s)
    L, C = lit(s), codes(s)
    fill = "".join(rng.choice(["x", "x", "y", "é", "日", "\U0001F600"]) for _ in range(rng.randint(1, 9)))
    k1, k2, k3 = rng.randint(0, n), rng.randint(0, n), rng.randint(0, n)
    pre = "".join(rng.choice("pqrsé日") for _ in range(rng.randint(1, 9)))
    if fixed: fill, k1, k2, k3, pre = "xé", 2, 3, 4, "pq日"
    r = [("lit", lambda V: "%s = %s" % (V, L)),
         ("cons", lambda V: "c20_cc(%s, [], %s)" % (C, V)),
         ("atom_chars", lambda V: "c20_atom(%s, %s)" % (C, V)),
         ("copy_term", lambda V: "copy_term(%s, %s)" % (L, V)),
         ("suffix", lambda V: "c20_suffix(%s, %s, %s)" % (codes(fill), C, V)),
         ("lit_tail", lambda V: "c20_drop(%d, %s, %s)" % (len(pre), lit(pre + s), V)),
         ("twoseg", lambda V: "c20_twoseg(%d, %s, %s)" % (k2, C, V)),
         ("findall_copy", lambda V: "findall(X_%s, X_%s = %s, [%s])" % (V, V, L, V))]
    if not big:
        r += [("univ", lambda V: "c20_univ(%s, [], %s)" % (C, V)),
              ("functor_arg", lambda V: "c20_functor(%s, [], %s)" % (C, V)),
              ("findall_member", lambda V: "findall(C_%s, (member(X_%s, %s), char_code(C_%s, X_%s)), %s)" % (V, V, C, V, V, V)),
              ("halves", lambda V: "c20_halves(%d, %s, %s)" % (k1, C, V)),
              ("revrev", lambda V: "c20_cc(%s, [], R0_%s), reverse(R0_%s, R1_%s), reverse(R1_%s, %s)" % (C, V, V, V, V, V)),
              ("assert_retrieve", lambda V: "c20_assert(%s, %s)" % (L, V)),
              ("partial_string_nil", lambda V: "partial_string(%s, %s, [])" % (L, V)),
              ("length_unify", lambda V: "length(%s, %d), %s = %s" % (V, n, V, L)),
              ("maplist", lambda V: "maplist(=, %s, %s)" % (L, V)),
              ("append_lits", lambda V: "append(%s, %s, %s)" % (lit(s[:k3]), lit(s[k3:]), V))]
    return r


# ------------------------------------------------------------------ string generators
def rand_char(rng, alpha):
    if alpha == "ascii": return rng.choice(ASCII)
    if alpha == "mixed":
        r = rng.random()
        if r < 0.45: return rng.choice(ASCII)
        if r < 0.65: return rng.choice(MB2)
        if r < 0.83: return rng.choice(MB3)
        if r < 0.97: return rng.choice(MB4)
        return rng.choice(SPECIAL)
    if alpha == "nul":
        r = rng.random()
        if r < 0.25: return "\x00"
        if r < 0.8: return rng.choice(ASCII)
        return rng.choice(MB2 + MB3 + MB4)
    raise ValueError(alpha)


def rand_string(rng, n, alpha):
    return "".join(rand_char(rng, alpha) for _ in range(n))


def near_twin(rng, s, alpha, kind=None):
    kind = kind or rng.choice(["same", "same", "change", "change_last", "change_first", "shorter", "longer", "prefix", "other"])
    n = len(s)
    if kind == "same" or (n == 0 and kind not in ("longer", "other")): return s, "same"
    if kind == "change":
        k = rng.randrange(n); c = rand_char(rng, alpha)
        return s[:k] + c + s[k + 1:], kind
    if kind == "change_last": return s[:-1] + rand_char(rng, alpha), kind
    if kind == "change_first": return rand_char(rng, alpha) + s[1:], kind
    if kind == "shorter": return s[:-1], kind
    if kind == "longer": return s + rand_char(rng, alpha), kind
    if kind == "prefix": return s[:rng.randrange(n)], kind
    return rand_string(rng, rng.choice([n, max(0, n - 1), n + 1]), alpha), "other"


def gen_closed_cases(rng, ctx):
    """cases: dict(a, b, k, cls, big)"""
    cases = []
    def add(a, b, cls, big=False):
        k = rng.choice([0, 0, max(0, len(a) - 1), len(a), rng.randint(0, len(a) + 1)])
        cases.append({"a": a, "b": b, "k": k, "cls": cls, "big": big})
    rounds = ctx.scale(2, 16)
    for _ in range(rounds):
        # (i) every length 0..20, (ii) 8k-1, 8k, 8k+1 for k <= 9
        lens = list(range(0, 21)) + sorted({8 * k + d for k in range(3, 10) for d in (-1, 0, 1)})
        for n in lens:
            for alpha in ("ascii", "mixed", "nul"):
                a = rand_string(rng, n, alpha)
                for kind in (["same", "change_last", None] if n <= 20 else ["same", None]):
                    b, _ = near_twin(rng, a, alpha, kind)
                    add(a, b, "len:" + alpha)
        # (iv) multi-byte characters straddling cell boundaries
        for cell in (0, 1, 2):
            for j in (5, 6, 7, 8):
                for mb in (rng.choice(MB2), rng.choice(MB3), rng.choice(MB4)):
                    a = rand_string(rng, 8 * cell + j, "ascii") + mb + rand_string(rng, rng.choice([0, 1, 3, 7, 8]), "ascii")
                    b, _ = near_twin(rng, a, "mixed", rng.choice(["same", "change", "change_last", "shorter", "longer"]))
                    add(a, b, "straddle")
        # (v) NUL patterns
        for core_s in ["\x00", "\x00\x00", "a\x00", "\x00a", "a\x00b", "a\x00\x00b", "\x00\x00\x00", "abcdefg\x00h", "abcdefgh\x00", "abcdefg\x00",
                       "\x00abcdefgh", "abcdefg\x00\x00hijklmno\x00", "a\x00b\x00c\x00d", "é\x00日", "abcdefghijklmno\x00pqrstuvw"]:
            for kind in ("same", "change", rng.choice(["shorter", "longer"])):
                b, _ = near_twin(rng, core_s, "nul", kind)
                add(core_s, b, "nul-pattern")
        # (vii) random
        for _ in range(120):
            alpha = rng.choice(["ascii", "mixed", "mixed", "nul"])
            a = rand_string(rng, rng.choice([1, 2, 3, 5, 7, 8, 9, 12, 15, 16, 17, 24, 31, 33]), alpha)
            b, _ = near_twin(rng, a, alpha)
            add(a, b, "random:" + alpha)
    # (viii) the smallest code point of each UTF-8 length (encodings ending in 0x80 bytes) right across a cell boundary: fixed cases
    for a in ["abcdefg" + EDGE[1] + "xy", "abcdef" + EDGE[2] + "xy", "abcdefg" + EDGE[0] + "@xy", "abcdefghijklmno" + EDGE[1] + EDGE[2] + "z",
              "ab" + EDGE[1] + "xyz", "abcd" + EDGE[1] + "xyz", "a" + EDGE[2] + "xyz"] + \
             ["abcdefgh"[:j] + e + tail for j in (5, 6, 7, 8) for e in EDGE for tail in ("", "@x")]:
        cases.append({"a": a, "b": a, "k": 8, "cls": "edge", "big": False})
    # (iii) 4095..4097
    for n in (4095, 4096, 4097):
        for alpha, kinds in (("ascii", ("same",)), ("mixed", ("change_last",))) if not ctx.thorough else (("ascii", ("same", "change_last")), ("mixed", ("same", "change_last"))):
            a = rand_string(rng, n, alpha)
            for kind in kinds:
                b, _ = near_twin(rng, a, alpha, kind)
                add(a, b, "long:" + alpha, big=True)
    return cases


def gen_tail_cases(rng, ctx):
    """suffixes of strings: base length 7..17, every offset 0..9; both sides are tails taken from literals / atom_chars strings"""
    cases = []
    for _ in range(ctx.scale(2, 16)):
        for n in range(7, 18):
            for off in range(0, 10):
                if off > n: continue
                alpha = rng.choice(["ascii", "ascii", "mixed", "nul"])
                base = rand_string(rng, n, alpha)
                for variant in ("same_base_other_offset", "twin_base_same_offset"):
                    if variant == "same_base_other_offset":
                        base2, off2 = base, rng.choice([off, max(0, off - 1), min(n, off + 1), rng.randint(0, n)])
                    else:
                        base2, _ = near_twin(rng, base, alpha, rng.choice(["same", "change", "change_last", "shorter", "longer"]))
                        off2 = min(off, len(base2))
                    cases.append({"base_a": base, "off_a": off, "base_b": base2, "off_b": off2, "a": base[off:], "b": base2[off2:],
                                  "k": rng.randint(0, max(0, n - off)), "cls": "tail:" + alpha, "big": False})
    return cases


def reps_tail(base, off, rng):
    """construction paths of base[off:] as an unaligned pointer into a longer string"""
    s = base[off:]
    r = [("lit_tail", lambda V: "c20_drop(%d, %s, %s)" % (off, lit(base), V)),
         ("suffix", lambda V: "c20_suffix(%s, %s, %s)" % (codes(base[:off]), codes(s), V)),
         ("unify_tail", lambda V: "%s = [%s]" % (lit(base), ",".join(["_"] * off) + "|" + V) if off else "%s = %s" % (V, lit(base))),
         ("append_tail", lambda V: "length(P_%s, %d), append(P_%s, %s, %s)" % (V, off, V, V, lit(base))),
         ("copied_tail", lambda V: "c20_drop(%d, %s, T0_%s), copy_term(T0_%s, %s)" % (off, lit(base), V, V, V)),
         ("lit", lambda V: "%s = %s" % (V, lit(s))),
         ("cons", lambda V: "c20_cc(%s, [], %s)" % (codes(s), V))]
    return r


# ------------------------------------------------------------------ partial strings
TAILS = {"var": None, "nil": "[]", "atom": "foo", "int": "7"}


def tail_coq(kind, num):
    if kind == "var": return "(Var %d)" % num
    if kind == "nil": return "tnil"
    if kind == "atom": return "(Atom [102;111;111])"
    return "(Int 7%Z)"


def reps_partial(pre, kind, T, rng):
    """paths building the open list pre ++| tail; T is the query variable that is (or is bound to) the tail"""
    L, C = lit(pre), codes(pre)
    bind = "" if kind == "var" else ", %s = %s" % (T, TAILS[kind])
    pfx = "".join(rng.choice("xyé日") for _ in range(rng.randint(1, 7)))
    k = rng.randint(0, len(pre))
    chars = ",".join(charatom(c) for c in pre)
    r = [("cons", lambda V: "c20_cc(%s, %s, %s)%s" % (C, T, V, bind)),
         ("univ", lambda V: "c20_univ(%s, %s, %s)%s" % (C, T, V, bind)),
         ("append", lambda V: "append(%s, %s, %s)%s" % (L, T, V, bind)),
         ("list_syntax", lambda V: ("%s = [%s|%s]" % (V, chars, T) if pre else "%s = %s" % (V, T)) + bind),
         ("partial_string", lambda V: "partial_string(%s, %s, %s)%s" % (L, V, T, bind)),
         ("partial_string_tail", lambda V: "partial_string(%s, V0_%s, %s), c20_drop(%d, V0_%s, %s)%s" % (lit(pfx + pre), V, T, len(pfx), V, V, bind)),
         ("two_partial_strings", lambda V: "partial_string(%s, %s, M_%s), partial_string(%s, M_%s, %s)%s" % (lit(pre[:k]), V, V, lit(pre[k:]), V, T, bind)),
         ("copied_partial_string", lambda V: "partial_string(%s, V0_%s, T0_%s), copy_term(V0_%s-T0_%s, %s-%s)%s" % (L, V, V, V, V, V, T, bind)),
         ("bound_before", lambda V: ("%s = %s, " % (T, TAILS[kind]) if kind != "var" else "") + "partial_string(%s, %s, %s)" % (L, V, T))]
    return r


def gen_partial_cases(rng, ctx):
    cases = []
    for _ in range(ctx.scale(2, 16)):
        lens = list(range(0, 13)) + [15, 16, 17, 23, 24, 25]
        for n in lens:
            for alpha in ("ascii", "mixed", "nul"):
                p1 = rand_string(rng, n, alpha)
                for _ in range(3):
                    k1 = rng.choice(["var", "var", "var", "nil", "atom", "int"])
                    k2 = rng.choice(["var", "var", "same", "nil", "atom", "int"]) if k1 == "var" else rng.choice(["var", "var", "nil", "atom", "int"])
                    if k2 == "same":
                        p2 = p1
                    else:
                        p2, _ = near_twin(rng, p1, alpha, rng.choice(["same", "same", "change", "shorter", "longer", "prefix", "change_last"]))
                    cases.append({"p1": p1, "k1": k1, "p2": p2, "k2": k2, "cls": "partial:%s/%s" % (k1, k2)})
    return cases


# ------------------------------------------------------------------ decoding observations
def chars_of(t):
    """python term -> str if it is a proper list of one-character atoms, else None"""
    items, tail = terms.list_view(t)
    if tail != NIL: return None
    out = []
    for x in items:
        if x[0] != "atom" or len(x[1]) != 1: return None
        out.append(x[1])
    return "".join(out)


def some(t):
    return t[2][0] if (t[0] == "cmp" and t[1] == "some" and len(t[2]) == 1) else None


def decode_obs(o, share=None):
    """term o(...) -> (coq record text, shape errors [(field, text)], writeq text, per-field python values)"""
    a = o[2]
    bad, vals = [], {}
    def boolean(i):
        t = a[i]
        if t == ("atom", "true"): return "true"
        if t == ("atom", "false"): return "false"
        bad.append((FIELDS[i], terms.to_prolog(t))); return "true"
    def integer(i, allow_none=False):
        t = some(a[i])
        if t is not None and t[0] == "int": return str(t[1])
        bad.append((FIELDS[i], terms.to_prolog(a[i]))); return "0"
    def codelist(t):
        if t is None or not (t[0] == "cmp" and t[1] == "codes") or t[2][0][0] != "atom": return None
        return [ord(ch) for ch in t[2][0][1]]
    def chars(i):
        cl = codelist(some(a[i]))
        if cl is None:
            bad.append((FIELDS[i], terms.to_prolog(a[i])[:200])); return "[]"
        txt = "[" + ";".join(map(str, cl)) + "]"
        if share:
            for name, t in share.items():
                if txt == t and len(cl) > 8: return name
        return txt
    def optchar(i):
        t = some(a[i])
        if t is not None and t[0] == "atom" and len(t[1]) == 1: return "(Some %d)" % ord(t[1])
        if a[i] == ("atom", "none") or (a[i][0] == "cmp" and a[i][1] == "err"): return "None"
        bad.append((FIELDS[i], terms.to_prolog(a[i])[:200])); return "None"
    f = {}
    f["o_unify"] = boolean(0); f["o_eq"] = boolean(1)
    c = some(a[2])
    f["o_cmp"] = {"<": "Lt", "=": "Eq", ">": "Gt"}.get(c[1] if c and c[0] == "atom" else None)
    if f["o_cmp"] is None:
        bad.append(("compare", terms.to_prolog(a[2]))); f["o_cmp"] = "Eq"
    f["o_lt"] = boolean(3); f["o_len"] = integer(4); f["o_app"] = chars(5)
    if a[6] == ("atom", "skipped"): f["o_splits"] = "None"
    else: f["o_splits"] = "(Some %s)" % integer(6)
    f["o_nth"] = optchar(7); f["o_head"] = optchar(8)
    cl = codelist(some(a[9]))
    if cl is not None: f["o_tail"] = "(Some [%s])" % ";".join(map(str, cl))
    elif a[9][0] == "cmp" and a[9][1] == "err": f["o_tail"] = "None"
    else:
        bad.append(("arg2", terms.to_prolog(a[9])[:200])); f["o_tail"] = "None"
    f["o_arity"] = integer(10)
    t = some(a[11])
    if t is not None and t[0] == "atom": f["o_name"] = coq_codes(t[1])
    else:
        bad.append(("functor_name", terms.to_prolog(a[11]))); f["o_name"] = "[]"
    f["o_univ"] = integer(12)
    f["o_copy"] = chars(13); f["o_assert"] = chars(15); f["o_atomchars"] = chars(16)
    f["o_findall"] = "None" if a[14] == ("atom", "skipped") else "(Some %s)" % chars(14)
    f["o_sort"] = chars(17); f["o_ksort"] = chars(18); f["o_ground"] = boolean(19); f["o_nvars"] = integer(20)
    wl = codelist(some(a[21]))
    wtext = "".join(map(chr, wl)) if wl is not None else None
    if wtext is None: bad.append(("writeq", terms.to_prolog(a[21])[:200]))
    rec = "{| " + "; ".join("%s := %s" % kv for kv in f.items()) + " |}"
    return rec, bad, wtext


def open_list_coq(t, varnum):
    items, tail = terms.list_view(t)
    cs = []
    for x in items:
        if x[0] != "atom" or len(x[1]) != 1: return terms.to_coq(t, varnum)
        cs.append(x[1])
    if tail[0] == "var": tl = "(Var %d)" % varnum.get(tail[1], 99)
    elif tail == NIL: tl = "tnil"
    elif tail == ("atom", "foo"): tl = "(Atom [102;111;111])"
    elif tail == ("int", 7): tl = "(Int 7%Z)"
    else: tl = terms.to_coq(tail, varnum)
    return "(plist %s %s)" % (coq_codes("".join(cs)), tl)


def decode_pobs(o, case):
    """term p(VO,E,O,U,Af,NV,G,Ln) -> (numbering (na, nb), coq record, shape errors)"""
    a = o[2]
    bad = []
    k1, k2 = case["k1"], case["k2"]
    na, nb = 0, 1
    if k2 == "same": nb = 0
    elif k1 == "var" and k2 == "var":
        vo = some(a[0])
        if vo == ("atom", ">"): na, nb = 1, 0
        elif vo != ("atom", "<"): bad.append(("var_order", terms.to_prolog(a[0])))
    def boolean(i, name):
        if a[i] == ("atom", "true"): return "true"
        if a[i] == ("atom", "false"): return "false"
        bad.append((name, terms.to_prolog(a[i]))); return "true"
    f = {}
    f["p_eq"] = boolean(1, "eq")
    c = some(a[2])
    f["p_cmp"] = {"<": "Lt", "=": "Eq", ">": "Gt"}.get(c[1] if c and c[0] == "atom" else None)
    if f["p_cmp"] is None:
        bad.append(("compare", terms.to_prolog(a[2]))); f["p_cmp"] = "Eq"
    f["p_unifies"] = boolean(3, "unify")
    af = some(a[4])
    f["p_after"] = "None"
    if af is None: bad.append(("unify_result", terms.to_prolog(a[4])[:200]))
    else:
        items, tl = terms.list_view(af)
        if tl == NIL and len(items) == 1:
            t = items[0]   # (A-TA)-TB
            try:
                A1, TA1, TB1 = t[2][0][2][0], t[2][0][2][1], t[2][1]
                varnum = {}
                if TA1[0] == "var": varnum[TA1[1]] = na
                if TB1[0] == "var": varnum[TB1[1]] = nb
                f["p_after"] = "(Some %s)" % open_list_coq(A1, varnum)
            except Exception:
                bad.append(("unify_result", terms.to_prolog(af)[:200]))
        elif not (tl == NIL and len(items) == 0):
            bad.append(("unify_result", terms.to_prolog(af)[:200]))
    nv = some(a[5])
    f["p_nvars_a"] = str(nv[1]) if nv is not None and nv[0] == "int" else "99"
    f["p_ground_a"] = boolean(6, "ground")
    ln = some(a[7])
    f["p_len_a"] = "None"
    if ln is not None:
        items, tl = terms.list_view(ln)
        if len(items) == 1 and items[0][0] == "int": f["p_len_a"] = "(Some %d)" % items[0][1]
        elif len(items) > 1: bad.append(("length", terms.to_prolog(ln)))
    elif not (a[7][0] == "cmp" and a[7][1] == "err"):
        bad.append(("length", terms.to_prolog(a[7])[:200]))
    rec = "{| " + "; ".join("%s := %s" % kv for kv in f.items()) + " |}"
    return (na, nb), rec, bad


# ------------------------------------------------------------------ running queries
def run_queries(ctx, queries, tag, per_job=150):
    """queries: list of (qid, text, extra_consult). Returns {qid: first answer (json) or a dict describing why there is none}.
    (The harness rebuilds the machine and consults the job's text again after a panic.)"""
    out = {}
    alone = [q for q in queries if q[2].startswith("% alone")]     # may panic: kept apart (in a fixed order) so that the outcome does not depend on the seed
    heavy = [q for q in queries if len(q[1]) > 3000 and q not in alone]       # long strings: spread over many small jobs
    light = [q for q in queries if len(q[1]) <= 3000 and q not in alone]
    chunks = [light[j:j + per_job] for j in range(0, len(light), per_job)] + [heavy[j:j + 4] for j in range(0, len(heavy), 4)] + [alone[j:j + 8] for j in range(0, len(alone), 8)]
    jobs = []
    for n, chunk in enumerate(chunks):
        consult = LIB + "".join(q[2] for q in chunk if q[2])
        jobs.append({"id": "%s_%d" % (tag, n), "consult": consult, "queries": [q[1] for q in chunk], "max_answers": 1, "timeout_ms": 120000, "fresh": True})
    res = core.vrun_query(ctx.prop, jobs, tag=tag)
    for job, chunk in zip(jobs, chunks):
        rec = res.get(job["id"], {})
        results = rec.get("results")
        for i, q in enumerate(chunk):
            if results is None or i >= len(results):
                out[q[0]] = {"broken": json.dumps({k: v for k, v in rec.items() if k != "results"})[:300]}
            else:
                ans = results[i]
                out[q[0]] = ans[0] if ans else {"noanswer": True}
    return out


SHAPE = {}
for _k in ("lit", "atom_chars", "copy_term", "findall_copy", "assert_retrieve", "partial_string_nil", "clause_head", "clause_body",
           "partial_string", "copied_partial_string", "bound_before"): SHAPE[_k] = "whole"          # pointer to the start of a segment
for _k in ("suffix", "lit_tail", "unify_tail", "append_tail", "copied_tail", "partial_string_tail"): SHAPE[_k] = "suffix"   # pointer into a segment
for _k in ("cons", "univ", "functor_arg", "findall_member", "revrev", "length_unify", "maplist", "append", "list_syntax"): SHAPE[_k] = "cons"
for _k in ("halves", "twoseg", "append_lits", "two_partial_strings"): SHAPE[_k] = "mixed"          # cons cells / a segment continued by a segment


def shape_key(field, ka, kb, prefix="pstr:"):
    return "%s%s:%s" % (prefix, field, ("%s/%s" % (SHAPE[ka], SHAPE[kb])) if (field in BINARY or prefix != "pstr:") else SHAPE[ka])


def canon(j):
    """vrun's term JSON with strings, explicit lists and '.'-chains ending in a list all written as {"l": [...]}"""
    if "s" in j: return {"l": [{"a": c} for c in j["s"]]}
    if "l" in j: return {"l": [canon(x) for x in j["l"]]}
    if "c" in j:
        if j["c"][0] == "." and len(j["c"]) == 3:
            items, t = [], j
            while "c" in t and t["c"][0] == "." and len(t["c"]) == 3:
                items.append(canon(t["c"][1])); t = t["c"][2]
            t = canon(t)
            if "l" in t: return {"l": items + t["l"]}
            return {"open": items, "tail": t}
        return {"c": [j["c"][0]] + [canon(x) for x in j["c"][1:]]}
    return j


def obs_key(ans):
    if isinstance(ans, dict) and "b" in ans and "O" in ans["b"]:
        if "_key" not in ans: ans["_key"] = json.dumps(canon(ans["b"]["O"]), sort_keys=True)    # strings and explicit lists are the same term
        return ans["_key"]
    return None


def panic_class(ans):
    import re
    if isinstance(ans, dict) and "panic" in ans:
        return re.sub(r"`[^`]*`|'[^']*'|\d+", "_", str(ans["panic"]))[:80]
    return None


def sample_panics(qlist, answers, info, max_groups=40):
    """two panicking queries per (panic message class, shape of A, shape of B)"""
    panics = {}
    for q in qlist:
        pc = panic_class(answers.get(q[0]))
        if pc is not None:
            panics.setdefault((pc, SHAPE[info[q[0]][1]], SHAPE[info[q[0]][2]]), []).append(q)
    out = []
    for g, qs in sorted(panics.items())[:max_groups]:
        out += qs[:2]
    return out


def bisect(ctx, panicking, qparts, opnames, tag):
    """panicking: queries (qid, text, consult) that panic on a fresh machine.  Runs every operation alone (one fresh machine
    per query, the operations one after the other) and returns {qid: [(op, panic message)]}"""
    jobs = []
    for q in panicking:
        prefix, mk = qparts[q[0]]
        jobs.append({"id": "b_" + q[0], "consult": LIB + (q[2] or ""), "queries": [prefix + mk(op) for op in opnames],
                     "max_answers": 1, "timeout_ms": 120000, "fresh": True})
    res = core.vrun_query(ctx.prop, jobs, tag=tag) if jobs else {}
    out = {}
    for q in panicking:
        rec = res.get("b_" + q[0], {})
        found = []
        for op, ans in zip(opnames, rec.get("results") or []):
            if ans and isinstance(ans[0], dict) and "panic" in ans[0]: found.append((op, str(ans[0]["panic"])[:200]))
        out[q[0]] = found
    return out


def run(ctx):
    import re, time
    t_start = time.time()
    phase = {}
    rng = ctx.rng
    failures, tie_breaks = [], []
    dist = {"class": {}, "rep_pairs": 0, "byte_len_mod8": {}, "ops_per_observation": len(FIELDS)}
    per_key = {}

    def fail(key, what, inp, impl, spec):
        per_key[key] = per_key.get(key, 0) + 1
        if per_key[key] > 2: return
        failures.append({"key": key, "what": what, "input": inp, "impl": impl, "spec": spec, "property_fails": True})

    # ============================================================ A + B: closed strings
    cases = gen_closed_cases(rng, ctx)
    tcases = gen_tail_cases(rng, ctx)
    queries, clause_queries, isolated = [], [], []          # (qid, text, consult)
    qinfo, qparts = {}, {}                    # qid -> (case index, kind_a, kind_b) ; qid -> (prefix, op -> final goal)
    allcases = []
    edge_extra = {}          # qid of an edge bundle -> {op: qid of the isolated query}
    def addq(lst, qid, prefix, big, k, consult, info):
        bigt = big if isinstance(big, str) else ("true" if big else "false")
        prefix = "findall(O1, (" + prefix
        lst.append((qid, "%sc20_obs(%s, A, B, %d, O1)), [O])." % (prefix, bigt, k), consult))
        qinfo[qid] = info
        qparts[qid] = (prefix, lambda op, bigt=bigt, k=k: "c20_op(%s, %s, A, B, %d, O1)), [O])." % (op, bigt, k))
    for c in cases + tcases:
        ci = len(allcases); allcases.append(c)
        a, b, big = c["a"], c["b"], c["big"]
        dist["class"][c["cls"]] = dist["class"].get(c["cls"], 0) + 1
        m = byte_len(a) % 8
        dist["byte_len_mod8"][m] = dist["byte_len_mod8"].get(m, 0) + 1
        if "base_a" in c:
            ra, rb = reps_tail(c["base_a"], c["off_a"], rng), reps_tail(c["base_b"], c["off_b"], rng)
            pairs = rng.sample([(x, y) for x in ra[:5] for y in rb[:5]], 10) + [(ra[5], y) for y in rng.sample(rb[:5], 2)] + [(x, rb[6]) for x in rng.sample(ra[:5], 2)]
        else:
            ra, rb = reps_closed(a, rng, big, c["cls"] == "edge"), reps_closed(b, rng, big, c["cls"] == "edge")
            if big:
                pairs = [(ra[0], rb[0])] + [(ra[0], y) for y in rng.sample(rb[1:], 3)] + [(x, rb[0]) for x in rng.sample(ra[1:], 3)] + [(ra[4], rb[5]), (ra[6], rb[4])]
            else:
                pairs = [(ra[0], rb[0])] + [(ra[0], y) for y in rng.sample(rb[1:], 6)] + [(x, rb[0]) for x in rng.sample(ra[1:], 6)] + [(rng.choice(ra), rng.choice(rb)) for _ in range(4)]
            if c["cls"] == "edge":      # fixed: construction paths of a against the literal b
                pairs = [(x, rb[0]) for x in (ra if len(allcases) % 4 == 0 else [ra[0], ra[2], ra[4], ra[5], ra[6], ra[1]])]
        for (ka, ga), (kb, gb) in pairs:
            qid = "c%d_%d" % (ci, len(queries))
            if c["cls"] == "edge":
                # the two operations known to panic on these strings run alone on fresh machines; all others in the bundle
                addq(queries, qid, "%s, %s, " % (ga("A"), gb("B")), "edge", c["k"], "", (ci, ka, kb))
                edge_extra[qid] = {}
                for op in ("append_splits", "findall"):
                    xid = "%s_%s" % (qid, op)
                    isolated.append((xid, qparts[qid][0] + "c20_op(%s, false, A, B, %d, O1)), [O])." % (op, c["k"]), "% alone\n"))
                    edge_extra[qid][op] = xid
            else:
                addq(queries, qid, "%s, %s, " % (ga("A"), gb("B")), big, c["k"], "", (ci, ka, kb))
        # strings in clause heads / bodies (separate jobs: a rejected clause must not disturb the others)
        if not big and "base_a" not in c and rng.random() < 0.5:
            n = len(clause_queries)
            addq(clause_queries, "k%d_%d" % (ci, n), "c20_fa%d(A), c20_fb%d(B), " % (n, n), False, c["k"],
                 "c20_fa%d(%s).\nc20_fb%d(X) :- X = %s.\n" % (n, lit(a), n, lit(b)), (ci, "clause_head", "clause_body"))
            n = len(clause_queries)
            addq(clause_queries, "k%d_%d" % (ci, n), "c20_fa%d(B, A), " % n, False, c["k"],
                 "c20_fa%d(%s, X) :- X = %s.\n" % (n, lit(b), lit(a)), (ci, "clause_body", "clause_head"))
    dist["rep_pairs"] = len(queries) + len(clause_queries)
    answers = run_queries(ctx, queries, "qa", per_job=ctx.scale(200, 400))
    answers.update(run_queries(ctx, clause_queries, "qk", per_job=40))
    ians = run_queries(ctx, isolated, "qi")
    itext = {q[0]: q[1] for q in isolated}
    for qid, extra in edge_extra.items():
        ci, ka, kb = qinfo[qid]
        ans = answers.get(qid)
        for op, xid in extra.items():
            xa = ians.get(xid)
            if panic_class(xa) is not None:
                fail(shape_key(op, ka, kb), "operation `%s` on a string panics" % op, itext[xid][:700], "panic: " + str(xa["panic"])[:200], "the result the operation gives on the character list")
            elif isinstance(xa, dict) and "b" in xa and "O" in xa["b"] and isinstance(ans, dict) and "b" in ans and "O" in ans["b"]:
                ans["b"]["O"]["c"][1 + FIELDS.index(op)] = xa["b"]["O"]       # the observation of the operation run alone completes the bundle
            else:
                fail(shape_key(op, ka, kb), "operation `%s` on a string gave no result" % op, itext[xid][:700], json.dumps(xa, ensure_ascii=False)[:300], "the result the operation gives on the character list")
    allq = queries + clause_queries
    phase["closed_queries"] = round(time.time() - t_start, 1)
    panicking = sample_panics(allq, answers, qinfo)
    dist["queries_panicking"] = sum(1 for q in allq if panic_class(answers.get(q[0])) is not None)
    qtext_of = {q[0]: q[1] + ("   %% with clauses: " + q[2].replace("\n", " ") if q[2] else "") for q in allq}
    ops = [f for f in FIELDS]
    for qid, found in bisect(ctx, panicking, qparts, ops, "qb").items():
        ci, ka, kb = qinfo[qid]
        msg = str(answers[qid].get("panic"))[:200]
        if not found:
            fail(shape_key("panic", ka, kb, "pstr:"), "observing a string panics (but no single operation panics when run alone on a fresh machine)", qtext_of[qid][:700], "panic: " + msg, "an observation")
        for op, m in found:
            prefix, mk = qparts[qid]
            fail(shape_key(op, ka, kb), "operation `%s` on a string panics" % op, (prefix + mk(op))[:700], "panic: " + m, "the result the operation gives on the character list")

    # group observations per case (panicking queries are accounted for above)
    per_case = {}
    for qid, (ci, ka, kb) in qinfo.items():
        ans = answers.get(qid)
        if panic_class(ans) is not None: continue
        k = obs_key(ans)
        if k is None:
            fail(shape_key("no-result", ka, kb, "pstr:"), "building a string through a construction path and observing it gave no result (failure, error, timeout)",
                 qtext_of[qid][:700], json.dumps(ans, ensure_ascii=False)[:300], "an observation term")
            continue
        per_case.setdefault(ci, {}).setdefault(k, []).append((qid, ka, kb, ans["b"]["O"]))
    bools, binfo = [], []
    n_multi = 0
    for ci, groups in per_case.items():
        c = allcases[ci]
        obs_groups = []
        for key, members in groups.items():
            rec, bad, wtext = decode_obs(terms.from_json(members[0][3]), {"sa": coq_codes(c["a"]), "sb": coq_codes(c["b"])})
            for (field, txt) in bad:
                for (qid, ka, kb, _) in members[:2]:
                    fail(shape_key(field, ka, kb), "operation `%s` on a string gave a result of an unexpected shape (error, failure or not a character list)" % field,
                         qtext_of[qid][:700], txt, "the result the operation gives on the character list")
            obs_groups.append((rec, wtext, members))
        if len(obs_groups) > 1: n_multi += 1
        for (rec, wtext, members) in obs_groups:
            bools.append("(fun sa sb => check_obs sa sb %d %s) %s %s" % (c["k"], rec, coq_codes(c["a"]), coq_codes(c["b"])))
            binfo.append((ci, rec, members))
        # writeq: compared between the construction paths only
        ws = {}
        for (rec, wtext, members) in obs_groups:
            ws.setdefault(wtext, []).extend(members)
        if len(ws) > 1:
            major = max(ws, key=lambda w: len(ws[w]))
            for wtext, members in ws.items():
                if wtext == major: continue
                for (qid, ka, kb, _) in members[:2]:
                    fail(shape_key("writeq", ka, kb), "writeq text of a string depends on how the string was built", qtext_of[qid][:700], repr(wtext), repr(major))
    n_closed = len(bools)
    phase["closed_done"] = round(time.time() - t_start, 1)

    # ============================================================ C: partial strings
    pcases = gen_partial_cases(rng, ctx)
    pq, pinfo, pparts = [], {}, {}
    for pi, c in enumerate(pcases):
        dist["class"][c["cls"]] = dist["class"].get(c["cls"], 0) + 1
        tb = "TA" if c["k2"] == "same" else "TB"
        k2 = "var" if c["k2"] == "same" else c["k2"]
        ra = reps_partial(c["p1"], c["k1"], "TA", rng)
        rb = reps_partial(c["p2"], k2, tb, rng)
        if c["k2"] == "same":   # copy_term would make a fresh tail variable
            ra = [r for r in ra if r[0] != "copied_partial_string"]; rb = [r for r in rb if r[0] != "copied_partial_string"]
        pairs = [(ra[4], y) for y in rb] + [(x, rb[0]) for x in ra] + [(rng.choice(ra), rng.choice(rb)) for _ in range(4)]
        for (ka, ga), (kb, gb) in pairs:
            qid = "p%d_%d" % (pi, len(pq))
            prefix = "%s, %s, " % (ga("A"), gb("B"))
            pq.append((qid, "%sc20_pobs(A, TA, B, %s, O)." % (prefix, tb), "")); pinfo[qid] = (pi, ka, kb)
            pparts[qid] = (prefix, lambda op, tb=tb: "c20_pop(%s, A, TA, B, %s, R)." % (op, tb))
    dist["rep_pairs"] += len(pq)
    pans = run_queries(ctx, pq, "qp", per_job=ctx.scale(200, 400))
    ppanicking = sample_panics(pq, pans, pinfo)
    dist["queries_panicking"] += sum(1 for q in pq if panic_class(pans.get(q[0])) is not None)
    ptext = {q[0]: q[1] for q in pq}
    for qid, found in bisect(ctx, ppanicking, pparts, PFIELDS, "qpb").items():
        pi, ka, kb = pinfo[qid]
        msg = str(pans[qid].get("panic"))[:200]
        if not found:
            fail(shape_key("panic", ka, kb, "pstr:partial-"), "observing a partial string panics", ptext[qid][:700], "panic: " + msg, "an observation")
        for op, m in found:
            prefix, mk = pparts[qid]
            fail(shape_key(op, ka, kb, "pstr:partial-"), "operation `%s` on a partial string panics" % op, (prefix + mk(op))[:700], "panic: " + m, "as on the explicit open list")
    pbools, pbinfo = [], []
    pgroups = {}
    for qid, (pi, ka, kb) in pinfo.items():
        ans = pans.get(qid)
        if panic_class(ans) is not None: continue
        if obs_key(ans) is None:
            fail(shape_key("no-result", ka, kb, "pstr:partial-"), "building/observing a partial string gave no result", ptext[qid][:700], json.dumps(ans, ensure_ascii=False)[:300], "an observation term")
            continue
        (na, nb), rec, bad = decode_pobs(terms.from_json(ans["b"]["O"]), pcases[pi])
        for (field, txt) in bad:
            fail(shape_key(field, ka, kb, "pstr:partial-"), "operation `%s` on a partial string gave a result of an unexpected shape" % field, ptext[qid][:700], txt, "as on the explicit open list")
        pgroups.setdefault((pi, na, nb, rec), []).append((qid, ka, kb))
    def pexpr(fn, pi, na, nb, rec):
        c = pcases[pi]; k2 = "var" if c["k2"] == "same" else c["k2"]
        return "%s %s %s %s %s %s" % (fn, coq_codes(c["p1"]), tail_coq(c["k1"], na), coq_codes(c["p2"]), tail_coq(k2, nb), rec)
    for (pi, na, nb, rec), members in pgroups.items():
        pbools.append(pexpr("check_pobs", pi, na, nb, rec))
        pbinfo.append((pi, na, nb, rec, members))
    phase["partial_done"] = round(time.time() - t_start, 1)
    # ============================================================ layout tie through the heap hook
    lstrings = []
    seen = set()
    def ladd(s):
        if s not in seen:
            seen.add(s); lstrings.append(s)
    for n in list(range(0, 26)) + [31, 32, 33, 63, 64, 65, 71, 72, 73, 255, 256, 257]:
        ladd(rand_string(rng, n, "ascii"))
        ladd(rand_string(rng, n, "mixed"))
        if n <= 33: ladd(rand_string(rng, n, "nul"))
    for c in cases[:ctx.scale(200, 2000)]:
        if not c["big"]: ladd(c["a"])
    lines, linfo = [], []
    for i, s in enumerate(lstrings):
        bs = s.encode("utf-8")
        hx = bs.hex()
        ops_l = ["S" + hx, "D", "Z" + hx]
        locs = []
        if bs and 0 not in bs:
            ops_l.append("N0")
            bounds = [len(s[:j].encode("utf-8")) for j in range(1, len(s))]
            locs = bounds if len(bounds) <= 12 else sorted(rng.sample(bounds, 12))
            ops_l += ["N%d" % l for l in locs]
        elif bs and bs[0] != 0:
            ops_l.append("N0")
        lines.append("%d\t%d\t%s" % (i, len(bs) // 8 + 8 + 2 * bs.count(0), ";".join(ops_l)))
        linfo.append((s, bs, locs))
    lres, crashed = core.vrun_mode(ctx.prop, "heap", lines, tag="ml")
    for cdesc in crashed:
        tie_breaks.append({"kind": "harness", "what": "vrun heap process died", "detail": cdesc})
    lbools, lidx = [], []
    for i, (s, bs, locs) in enumerate(linfo):
        out = lres.get(str(i))
        if out is None or out.startswith("panic:") or out == "alloc-failed":
            tie_breaks.append({"kind": "correspondence", "what": "heap hook gave no result for allocate_pstr", "detail": {"string": s[:80], "out": str(out)[:200]}})
            continue
        parts = [p.split(",", 2)[2] for p in out.split(";")]
        dump = list(bytes.fromhex(parts[1]))
        size = int(parts[2])
        blist = "[" + ";".join(map(str, bs)) + "]"
        dlist = "[" + ";".join(map(str, dump)) + "]"
        if len(parts) > 3:
            sc, tl = parts[3].split(":")
            e = "check_layout %s %s [%s] %s %d" % (blist, dlist, ";".join(map(str, bytes.fromhex(sc))), tl, size)
        else:
            e = "check_layout %s %s [] 0 %d" % (blist, dlist, size)
        for loc, p in zip(locs, parts[4:]):
            sc, tl = p.split(":")
            e += " && check_scan_at %s %d [%s] %s" % (blist, loc, ";".join(map(str, bytes.fromhex(sc))), tl)
        lbools.append(e); lidx.append(i)
    # ============================================================ all model evaluations in one sharded run
    phase["before_coq"] = round(time.time() - t_start, 1)
    allb = bools + pbools + lbools
    heavy_i = [i for i in range(len(allb)) if len(allb[i]) > 20000]
    light_i = [i for i in range(len(allb)) if len(allb[i]) <= 20000]
    chunk = ctx.scale(170, 400)
    order = []
    while light_i or heavy_i:        # at most two long-string evaluations per shard (parsing their literals dominates)
        take = heavy_i[:2]; heavy_i = heavy_i[2:]
        room = chunk - len(take)
        take += light_i[:room]; light_i = light_i[room:]
        order += take
    bad_all, errs_all = core.coq_eval_bools(ctx.prop, IMPORTS, [allb[i] for i in order], chunk=chunk, tag="call")
    bad_all = sorted(order[j] for j in bad_all)
    for _, t in errs_all:
        tie_breaks.append({"kind": "coq-eval", "what": "model evaluation shard failed", "detail": t[-1500:]})
    bad_idx = [i for i in bad_all if i < len(bools)]
    pbad = [i - len(bools) for i in bad_all if len(bools) <= i < len(bools) + len(pbools)]
    lbad = [i - len(bools) - len(pbools) for i in bad_all if i >= len(bools) + len(pbools)]
    phase["after_coq"] = round(time.time() - t_start, 1)
    show = bad_idx[:16]
    if show:
        expr = "[" + "; ".join("(fun sa sb => diff_obs sa sb %d %s) %s %s" % (allcases[binfo[i][0]]["k"], binfo[i][1], coq_codes(allcases[binfo[i][0]]["a"]), coq_codes(allcases[binfo[i][0]]["b"])) for i in show) + "]"
        txt = core.coq_eval_show(ctx.prop, IMPORTS, expr)
        m = re.search(r"=\s*\[(.*)\]\s*:\s*list \(list N\)", txt)
        groups = re.findall(r"\[([0-9; ]*)\]", m.group(1)) if m else []
        for j, i in enumerate(show):
            ci, rec, members = binfo[i]
            c = allcases[ci]
            fields = [FIELDS[int(x)] for x in groups[j].split(";") if x.strip()] if j < len(groups) else ["unknown"]
            for field in fields[:4]:
                for (qid, ka, kb, _) in members[:2]:
                    fail(shape_key(field, ka, kb), "operation `%s` on a string differs from the same operation on the character list it denotes" % field,
                         qtext_of[qid][:700], rec[:600], "predict %s %s %d (field %s)" % (coq_codes(c["a"])[:200], coq_codes(c["b"])[:200], c["k"], field))
    for i in bad_idx[16:]:
        ci, rec, members = binfo[i]
        qid, ka, kb, _ = members[0]
        fail(shape_key("some-operation", ka, kb), "an observation differs from the prediction on character lists", qtext_of[qid][:700], rec[:600], "predict")
    show = pbad[:16]
    if show:
        txt = core.coq_eval_show(ctx.prop, IMPORTS, "[" + "; ".join(pexpr("diff_pobs", *pbinfo[i][:4]) for i in show) + "]")
        m = re.search(r"=\s*\[(.*)\]\s*:\s*list \(list N\)", txt)
        groups = re.findall(r"\[([0-9; ]*)\]", m.group(1)) if m else []
        for j, i in enumerate(show):
            pi, na, nb, rec, members = pbinfo[i]
            fields = [PFIELDS[int(x)] for x in groups[j].split(";") if x.strip()] if j < len(groups) else ["unknown"]
            for field in fields[:4]:
                for (qid, ka, kb) in members[:2]:
                    fail(shape_key(field, ka, kb, "pstr:partial-"), "operation `%s` on a partial string differs from the same operation on the open character list" % field,
                         ptext[qid][:700], rec[:600], "ppredict (field %s), tails numbered %d/%d" % (field, na, nb))
    for i in pbad[16:]:
        pi, na, nb, rec, members = pbinfo[i]
        qid, ka, kb = members[0]
        fail(shape_key("some-operation", ka, kb, "pstr:partial-"), "an observation of a partial string differs from the prediction", ptext[qid][:700], rec[:600], "ppredict")

    for j in lbad[:5]:
        s, bs, locs = linfo[lidx[j]]
        tie_breaks.append({"kind": "correspondence", "key": "pstr:layout-differs", "what": "heap bytes / scan result of allocate_pstr differ from encode_segment / scan (layout changed?)",
                           "detail": {"string_utf8_hex": bs.hex()[:200], "hook": (lres.get(str(lidx[j])) or "")[:400]}})

    evaluations = n_closed + len(pbools) + len(lbools)
    distinct = len({(c["a"], c["b"], c["k"]) for c in allcases if c["a"]}) + len({(c["p1"], c["k1"], c["p2"], c["k2"]) for c in pcases if c["p1"] or c["p2"]}) \
        + len([1 for (s, bs, locs) in linfo if bs])
    dist["cases_with_more_than_one_observation"] = n_multi
    dist["closed_cases"] = len(allcases); dist["partial_cases"] = len(pcases); dist["layout_strings"] = len(lbools)
    dist["failure_counts_by_key"] = dict(sorted(per_key.items()))
    phase["all_done"] = round(time.time() - t_start, 1)
    dist["seconds_elapsed_at"] = phase
    samples = [{"query": q[1][:300]} for q in (queries[:2] + queries[len(queries) // 2:len(queries) // 2 + 2] + clause_queries[:1] + pq[:2])]
    samples.append({"heap": lines[5][:200], "result": (lres.get("5") or "")[:200]})
    return {"evaluations": evaluations, "distinct_nontrivial": distinct,
            "rule": ("closed cases (a, near-twin b, index k): lengths 0-20, 8k-1/8k/8k+1 (k<=9), 4095-4097, ASCII / multi-byte (2,3,4-byte characters, also straddling "
                     "cell boundaries) / NUL at start, middle, end, consecutive; tails at every offset 0..9 of strings of length 7..17; each case is observed under "
                     "14-18 pairs of construction paths (rep_pairs queries in all) by 22 operations; all observations of a case must coincide (each distinct "
                     "observation is one Coq evaluation against predict; evaluations counts those plus the partial and layout evaluations). Partial cases: open "
                     "lists with variable / same variable / [] / atom / integer tails through 9 construction paths. Layout: allocate_pstr + dump + scan at every "
                     "character boundary. Non-trivial = distinct case with a non-empty string."),
            "samples": samples, "distribution": dist, "failures": failures, "tie_breaks": tie_breaks}
