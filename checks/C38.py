"""C38 -- Delimited control and tabling compute the specified answers."""
import itertools, json
from vlib import core, terms

META = {
    "level": "proof",
    "text": ("Tabling: Coq theorems over the immediate-consequence operators of the left-, right- and doubly-recursive path/2 programs on an "
             "arbitrary finite edge relation: |V|^2+1 rounds reach a fixpoint (lfp_reaches_fixpoint), that fixpoint is the inductively defined "
             "transitive closure (lfp_is_transitive_closure) and the three programs have the same least model (three_definitions_same_lfp). "
             "Delimited control: a big-step semantics of a mini language (actions, shift(V), reset under four handlers: drop / resume / iterator / "
             "state) with an executable interpreter proved sound, complete and deterministic, and the laws reset_no_shift, reset_shift_capture, "
             "resume_runs_rest, shift_captures_rest_of_sequence, iterator_yields_all, state_handler_sums. Both are tied to library(tabling) / "
             "library(cont) by running tabled path/2 on graphs (answer sets for open, half-bound and ground calls, termination on cycles, "
             "agreement with untabled execution on acyclic graphs) and generated reset/shift programs with a logged action trace, and deciding "
             "agreement inside Coq (check_graph on the real lfp for graphs on <= 3 nodes; a proved-sound certificate checker for larger ones)."),
    "note": ("PARTIAL: the tabling engine (tabling.pl, tabling/*.pl: worklists, tries, completion) and the continuation capture in "
             "system_calls.rs are not modelled: differential only. The reference theorem `tabled_equals_untabled_when_terminating` of the design "
             "is not proved (untabled answers on acyclic graphs are compared with the lfp by the correspondence). The mini language has no "
             "backtracking into a reset and no ball variables. A shift without an enclosing reset fails silently in this implementation "
             "(SWI raises existence_error(reset/3,_)): the check only requires that such a run does not succeed and that the log before it agrees. "
             "Trusted: Coq kernel + vm_compute; the Python generators, the witness-path search (its output is validated in Coq) and log parser; harness vrun."),
    "technique": "Coq proof (lfp_is_transitive_closure, three_definitions_same_lfp, reset_shift_capture, ...) over reference models + differential correspondence evaluated in Coq",
    "design_ref": "DESIGN.md section 8, C38",
    "coq_targets": ["C38/Props.vo"],
    "coq_dirs": ["C38"],
    "props": "C38/Props.v",
    "trusted_base": ["Coq 8.16.1 kernel, vm_compute (no native_compute)", "checks/C38.py generators and answer parsers", "harness/vrun + tools/vlib (correspondence)"],
    "assumptions": ["graphs have at most 6 nodes; reset/shift programs are within the generated combinator space (nesting <= 3, <= 14 instructions)",
                    "answer sets are compared after sort/2 (duplicates and order of tabled answers are not constrained)"],
}

IMPORTS = "From V Require Import C38.Model."
KINDS = [("l", "KLeft"), ("r", "KRight"), ("d", "KDouble")]


# ====================================================================== tabling
def graph_text(p, edges):
    s = ":- use_module(library(tabling)).\n:- use_module(library(lists)).\n"
    s += ":- table %sl/2.\n:- table %sr/2.\n:- table %sd/2.\n" % (p, p, p)
    s += ":- dynamic(%se/2).\n" % p
    s += "".join("%se(%d,%d).\n" % (p, a, b) for a, b in edges)
    s += "%sl(X,Y) :- %se(X,Y).\n%sl(X,Y) :- %sl(X,Z), %se(Z,Y).\n" % (p, p, p, p, p)
    s += "%sr(X,Y) :- %se(X,Y).\n%sr(X,Y) :- %se(X,Z), %sr(Z,Y).\n" % (p, p, p, p, p)
    s += "%sd(X,Y) :- %se(X,Y).\n%sd(X,Y) :- %sd(X,Z), %sd(Z,Y).\n" % (p, p, p, p, p)
    s += "%su(X,Y) :- %se(X,Y).\n%su(X,Y) :- %se(X,Z), %su(Z,Y).\n" % (p, p, p, p, p)
    return s


def acyclic(edges, n):
    adj = {i: [b for a, b in edges if a == i] for i in range(n)}
    state = {}

    def dfs(v):
        state[v] = 1
        for w in adj[v]:
            if state.get(w) == 1: return False
            if w not in state and not dfs(w): return False
        state[v] = 2
        return True
    return all(dfs(v) for v in range(n) if v not in state)


def witness(edges, x, y):
    """intermediate vertices of a shortest path x ->+ y, or None."""
    adj = {}
    for a, b in edges: adj.setdefault(a, []).append(b)
    frontier = [(z, []) for z in adj.get(x, [])]
    seen = set()
    while frontier:
        nxt = []
        for v, path in frontier:
            if v == y: return path
            if v in seen: continue
            seen.add(v)
            for w in adj.get(v, []): nxt.append((w, path + [v]))
        frontier = nxt
    return None


def coq_pairs(ps):
    return "[%s]" % "; ".join("(%d, %d)" % p for p in ps)


def coq_nlist(l):
    return "[%s]" % "; ".join(str(x) for x in l)


# ====================================================================== reset / shift
class PGen:
    def __init__(self, rng):
        self.rng = rng
        self.feats = set()

    def prog(self, depth, maxlen, top=False):
        rng = self.rng
        n = rng.randint(1 if top else 0, maxlen)
        out = []
        pshift = 0.45 if top else 0.72      # fewer shifts outside every reset
        for _ in range(n):
            r = rng.random()
            if r < 0.35: out.append(("log", rng.randint(1, 9)))
            elif r < pshift: out.append(("shift", rng.randint(1, 9)))
            elif depth > 0:
                h = rng.choice(["drop", "resume", "loop", "sum"])
                self.feats.add(h)
                out.append(("reset", self.prog(depth - 1, max(1, maxlen - 1)), h, rng.randint(0, 5)))
            else: out.append(("log", rng.randint(1, 9)))
        return out


def size(p):
    return sum(1 + (size(i[1]) if i[0] == "reset" else 0) for i in p)


def nest(p):
    return max([0] + [1 + nest(i[1]) for i in p if i[0] == "reset"])


def coq_prog(p):
    def ins(i):
        if i[0] == "log": return "ILog %d" % i[1]
        if i[0] == "shift": return "IShift %d" % i[1]
        h = {"drop": "HDrop", "resume": "HResume", "loop": "HLoop", "sum": "(HSum %d)" % i[3]}[i[2]]
        return "IReset %s %s" % (coq_prog(i[1]), h)
    return "[%s]" % "; ".join(ins(i) for i in p)


class PText:
    """Prolog text of a program; some sub-bodies become predicates (clauses) instead of inline conjunctions."""
    def __init__(self, rng, pfx):
        self.rng, self.pfx, self.clauses = rng, pfx, []

    def goal(self, p):
        if not p: return "true"
        parts = []
        for i in p:
            if i[0] == "log": parts.append("%slg(%d)" % (self.pfx, i[1]))
            elif i[0] == "shift": parts.append("shift(%d)" % i[1])
            else:
                g = self.named(i[1])
                if i[2] == "sum": parts.append("%ssum(%s, %d)" % (self.pfx, g, i[3]))
                else: parts.append("%s%s(%s)" % (self.pfx, i[2], g))
        if len(parts) == 1: return parts[0]
        return "( %s )" % " , ".join(parts)

    def named(self, p):
        g = self.goal(p)
        if self.rng.random() < 0.4:
            name = "%sq%d" % (self.pfx, len(self.clauses))
            self.clauses.append("%s :- %s.\n" % (name, g))
            return name
        return g


def cont_prelude(p):
    return (":- use_module(library(cont)).\n:- use_module(library(lists)).\n:- dynamic(%(p)slog/1).\n"
            "%(p)slg(X) :- assertz(%(p)slog(X)).\n"
            "%(p)sdrop(G) :- reset(G,B,C), ( C == none -> true ; %(p)slg(got(B)) ).\n"
            "%(p)sresume(G) :- reset(G,B,C), ( C == none -> true ; C = cont(K), %(p)slg(got(B)), call(K) ).\n"
            "%(p)sloop(G) :- reset(G,B,C), ( C == none -> true ; C = cont(K), %(p)slg(got(B)), %(p)sloop(K) ).\n"
            "%(p)ssum(G,A) :- reset(G,B,C), ( C == none -> true ; C = cont(K), A1 is A+B, %(p)slg(sum(A1)), %(p)ssum(K,A1) ).\n"
            "%(p)srun(G, Log, R) :- retractall(%(p)slog(_)), ( catch(G, E, (%(p)slg(err(E)))) -> R = done ; R = failed ), findall(X, %(p)slog(X), Log).\n"
            % {"p": p})


def parse_log(t):
    """Python term (list) -> (coq events text, error seen)"""
    items, _ = terms.list_view(t)
    ev, err = [], False
    for i in items:
        if i[0] == "int": ev.append("EAct %d" % i[1])
        elif i[0] == "cmp" and i[1] == "got" and i[2][0][0] == "int": ev.append("EGot %d" % i[2][0][1])
        elif i[0] == "cmp" and i[1] == "sum" and i[2][0][0] == "int": ev.append("ESum %d" % i[2][0][1])
        elif i[0] == "cmp" and i[1] == "err": err = True
        else: ev.append("EAct 999999")
    return "[%s]" % "; ".join(ev), err


# ====================================================================== run
def run(ctx):
    rng = ctx.rng
    failures, tie_breaks = [], []
    dist = {}
    jobs, meta = [], {}

    # ---------------- graphs
    small = []
    pairs3 = [(a, b) for a in range(3) for b in range(3)]
    allsmall = list(range(512))
    rng.shuffle(allsmall)
    for m in allsmall[:ctx.scale(90, 180)]:
        small.append((3, [pairs3[i] for i in range(9) if m >> i & 1]))
    big = []
    for _ in range(ctx.scale(150, 450)):
        n = rng.choice([4, 4, 5, 5, 6, 6])
        style = rng.random()
        ne = rng.randint(1, 2 * n)
        if style < 0.3:   # acyclic
            es = set()
            for _ in range(ne):
                a, b = rng.randrange(n), rng.randrange(n)
                if a != b: es.add((min(a, b), max(a, b)))
        elif style < 0.45:  # a cycle plus chords
            es = set((i, (i + 1) % n) for i in range(n))
            for _ in range(rng.randint(0, 3)): es.add((rng.randrange(n), rng.randrange(n)))
        else:
            es = set((rng.randrange(n), rng.randrange(n)) for _ in range(ne))
        big.append((n, sorted(es)))
    graphs = [("S", g) for g in small] + [("B", g) for g in big]
    for gi, (cls, (n, edges)) in enumerate(graphs):
        p = "g%d_" % gi
        kinds = KINDS[:]
        rng.shuffle(kinds)
        qs, qmeta = [], []
        for kc, kq in kinds:
            starts = [rng.randrange(n), rng.randrange(n + 1)]
            order = ["all"] + ["from%d" % s for s in starts] + ["gnd"]
            rng.shuffle(order)
            for o in order:
                if o == "all":
                    qs.append("findall(X-Y, %s%s(X,Y), L0), sort(L0, L)." % (p, kc)); qmeta.append((kq, "all", None))
                elif o == "gnd":
                    a, b = rng.randrange(n), rng.randrange(n)
                    qs.append("findall(t, %s%s(%d,%d), L)." % (p, kc, a, b)); qmeta.append((kq, "gnd", (a, b)))
                else:
                    s = int(o[4:])
                    qs.append("findall(Y, %s%s(%d,Y), L0), sort(L0, L)." % (p, kc, s)); qmeta.append((kq, "from", s))
        ac = acyclic(edges, n)
        if ac:
            qs.append("findall(X-Y, %su(X,Y), L0), sort(L0, L)." % p); qmeta.append(("untabled", "all", None))
        jid = "G%d" % gi
        jobs.append({"id": jid, "consult": graph_text(p, edges), "queries": qs, "max_answers": 3, "timeout_ms": 20000})
        meta[jid] = (cls, n, edges, qs, qmeta, ac)

    # ---------------- reset/shift programs
    nP = ctx.scale(900, 2700)
    per_job = 30
    progs = []
    for i in range(nP):
        g = PGen(rng)
        pr = g.prog(rng.choice([1, 1, 2, 2, 3]), rng.choice([2, 3, 4, 5]), top=True)
        if size(pr) > 14:
            pr = pr[:2]
        progs.append((pr, g.feats))
    for j in range(0, nP, per_job):
        p = "c%d_" % (j // per_job)
        pt = PText(rng, p)
        qs = []
        for pr, _ in progs[j:j + per_job]:
            qs.append("%srun(%s, Log, R)." % (p, pt.goal(pr)))
        jid = "C%d" % (j // per_job)
        jobs.append({"id": jid, "consult": cont_prelude(p) + "".join(pt.clauses), "queries": qs, "max_answers": 3, "timeout_ms": 20000})
        meta[jid] = ("C", j, qs, cont_prelude(p) + "".join(pt.clauses))

    obs = core.vrun_query(ctx.prop, jobs, tag="impl")

    def binding(res, var):
        if not res or not isinstance(res[0], dict) or "b" not in res[0]: return None
        v = res[0]["b"].get(var)
        return None if v is None else terms.from_json(v)

    # ---------------- evaluate
    exprs, info = [], []
    evaluations = 0
    nontrivial = set()
    for gi, (cls, (n, edges)) in enumerate(graphs):
        jid = "G%d" % gi
        _, _, _, qs, qmeta, ac = meta[jid]
        rec = obs.get(jid, {})
        rs = rec.get("results")
        if not rs:
            tie_breaks.append({"kind": "harness", "what": "no result for a graph job", "detail": json.dumps(rec)[:500]})
            continue
        per = {}
        broken = False
        for q, (kq, what, arg), r in zip(qs, qmeta, rs):
            L = binding(r, "L")
            if L is None:
                failures.append({"key": "tabled-query-did-not-complete" if kq != "untabled" else "untabled-query-did-not-complete",
                                 "what": "path/2 query over a finite graph raised, timed out (20 s) or failed instead of returning its answer set",
                                 "input": graph_text("g%d_" % gi, edges) + "?- " + q, "impl": json.dumps(r)[:400], "spec": "the least fixpoint answer set", "property_fails": True})
                broken = True
                break
            items = terms.list_view(L)[0]
            d = per.setdefault(kq, {"all": None, "from": [], "gnd": []})
            if what == "all": d["all"] = [(x[2][0][1], x[2][1][1]) for x in items]
            elif what == "from": d["from"].append((arg, [x[1] for x in items]))
            else: d["gnd"].append((arg, len(items) > 0, len(items)))
        if broken: continue
        E = coq_pairs(edges)
        if cls == "S":
            for kq, d in per.items():
                k = "KRight" if kq == "untabled" else kq
                exprs.append("check_graph %s %s %s [%s] [%s]" % (k, E, coq_pairs(d["all"]),
                             "; ".join("(%d, %s)" % (s, coq_nlist(ys)) for s, ys in d["from"]),
                             "; ".join("(%d, %d, %s)" % (a, b, "true" if t else "false") for (a, b), t, _ in d["gnd"])))
                info.append((jid, kq))
        else:
            first = per[qmeta[0][0]]["all"]
            certs = []
            for (x, y) in first:
                w = witness(edges, x, y)
                certs.append("(%d, %s, %d)" % (x, coq_nlist(w if w is not None else []), y))
            others = [coq_pairs(d["all"]) for kq, d in per.items() if d["all"] is not None]
            froms = ["(%d, %s)" % (s, coq_nlist(ys)) for d in per.values() for s, ys in d["from"]]
            gnds = ["(%d, %d, %s)" % (a, b, "true" if t else "false") for d in per.values() for (a, b), t, _ in d["gnd"]]
            exprs.append("cert_check %s [%s] [%s] [%s] [%s]" % (E, "; ".join(certs), "; ".join(others), "; ".join(froms), "; ".join(gnds)))
            info.append((jid, "cert"))
        # a tabled ground call has at most one answer (an answer *set*)
        for kq, d in per.items():
            for (a, b), t, cnt in d["gnd"]:
                if kq != "untabled" and cnt > 1:
                    failures.append({"key": "tabled-ground-call-duplicate-answers", "what": "a ground call of a tabled predicate returned the same answer more than once",
                                     "input": graph_text("g%d_" % gi, edges) + "?- findall(t, path(%d,%d), L)." % (a, b), "impl": "%d answers" % cnt, "spec": "0 or 1", "property_fails": True})
    ngraph_exprs = len(exprs)

    # reset/shift
    for j in range(0, nP, per_job):
        jid = "C%d" % (j // per_job)
        _, _, qs, text = meta[jid]
        rec = obs.get(jid, {})
        rs = rec.get("results")
        if not rs:
            tie_breaks.append({"kind": "harness", "what": "no result for a reset/shift job", "detail": json.dumps(rec)[:500]})
            continue
        for k, (q, r) in enumerate(zip(qs, rs)):
            pr, feats = progs[j + k]
            Log, R = binding(r, "Log"), binding(r, "R")
            if Log is None or R is None:
                failures.append({"key": "reset-shift-run-broken", "what": "a reset/shift program did not return its log (panic, uncaught ball or timeout)",
                                 "input": text + "?- " + q, "impl": json.dumps(r)[:400], "spec": "a log", "property_fails": True})
                continue
            ev, err = parse_log(Log)
            finished = (R == ("atom", "done")) and not err
            exprs.append("check_trace 400 %s %s %s" % (coq_prog(pr), ev, "true" if finished else "false"))
            info.append((jid, (j + k, q, ev, finished)))

    bad, errs = core.coq_eval_bools(ctx.prop, IMPORTS, exprs, chunk=ctx.scale(120, 300), tag="cases")
    for k, e in errs:
        tie_breaks.append({"kind": "coq-eval", "what": "model evaluation shard failed", "detail": str(e)[-1500:]})
    badset = set(bad)
    dist_feats = {}
    unhandled = 0
    n_graph_ok = 0
    shown = 0
    for idx, (jid, x) in enumerate(info):
        if idx < ngraph_exprs:
            cls, n, edges, qs, qmeta, ac = meta[jid]
            evaluations += len(qs) if x == "cert" else len([1 for m in qmeta if m[0] == x])
            if idx in badset:
                spec = ""
                if shown < 3:
                    shown += 1
                    spec = core.coq_eval_show(ctx.prop, IMPORTS, "lfp_pairs KRight %s" % coq_pairs(edges))[:800]
                failures.append({"key": "tabled-answer-set-differs", "what": "answer set of tabled (or, on an acyclic graph, untabled) path/2 differs from the least fixpoint (%s)" % x,
                                 "input": graph_text(jid.lower() + "_", edges) + "\n".join("?- " + q for q in qs),
                                 "impl": json.dumps(obs[jid]["results"])[:1500], "spec": "reachable pairs: " + spec, "property_fails": True})
            else:
                n_graph_ok += 1
                if edges: nontrivial.add((jid, x))
        else:
            pi, q, ev, finished = x
            pr, feats = progs[pi]
            evaluations += 1
            if idx in badset:
                spec = core.coq_eval_show(ctx.prop, IMPORTS, "exec 400 %s" % coq_prog(pr))[:800] if shown < 6 else ""
                shown += 1
                failures.append({"key": "reset-shift-trace-differs", "what": "logged actions / outcome of a reset/shift program differ from the model",
                                 "input": meta[jid][3] + "?- " + q, "impl": "log=%s finished=%s" % (ev, finished), "spec": spec, "property_fails": True})
            else:
                if any(i[0] != "log" for i in pr): nontrivial.add(("P", coq_prog(pr)))
                if not finished: unhandled += 1
                for f in feats: dist_feats[f] = dist_feats.get(f, 0) + 1
    dist.update({"graphs_le3_nodes": len(small), "graphs_random_le6_nodes": len(big), "graph_checks_agreeing": n_graph_ok,
                 "acyclic_graphs_with_untabled_run": sum(1 for j in meta.values() if j[0] in ("S", "B") and j[5]),
                 "reset_shift_programs": nP, "programs_with_unhandled_shift": unhandled, "handler_use_in_agreeing_programs": dist_feats})
    seen, keep = {}, []
    for f in failures:
        seen[f["key"]] = seen.get(f["key"], 0) + 1
        if seen[f["key"]] <= 3: keep.append(f)
    dist["failures_by_key"] = seen
    samples = [{"graph": meta["G0"][2], "queries": meta["G0"][3][:4]}, {"reset_shift": meta["C0"][2][:3]}]
    return {"evaluations": evaluations, "distinct_nontrivial": len(nontrivial),
            "rule": ("graphs: a sample of the 512 graphs on 3 nodes (all of them in the thorough tier) and random graphs on 4-6 nodes (acyclic / cycle with chords / "
                     "arbitrary), each with left-, right- and doubly-recursive tabled path/2 queried open, with the first argument bound (before and after the open "
                     "call, in random order), ground, and untabled on acyclic graphs; sorted answer sets compared in Coq with lfp (3 nodes) or by the certificate "
                     "checker (larger); a query that raises or exceeds 20 s is a failure. reset/shift: random instruction lists (log, shift, reset under "
                     "drop/resume/iterator/state handlers, nesting <= 3, bodies inline or as predicates) run with a log of actions, compared with exec. "
                     "evaluations = queries compared + programs compared; non-trivial = distinct (graph with >= 1 edge, kind) + distinct programs containing a shift or reset that agree"),
            "samples": samples, "distribution": dist, "failures": keep, "tie_breaks": tie_breaks}
