"""C54 -- Reified conditionals are declaratively sound."""
import collections, itertools, json, time
from vlib import core, terms

META = {
    "level": "proof",
    "text": ("Coq theorems over a clause-by-clause model of library(reif) on constraint stores (equations + dif pairs; tests under the mgu "
             "computed by C10's proved unify_oc): the reified (=)/3 (and every condition built with dif/3, ','/3, ';'/3) is exhaustive and "
             "exclusive -- every solution of the store is a solution of exactly one answer, whose truth value is the direct evaluation "
             "of the condition; if_/3 has the same answers as the explicit disjunction (call(C,true),Then ; call(C,false),Else) and "
             "covers every ground solution of (Cond,Then ; not Cond,Else) exactly once and nothing else; the plain disjunction with =/2 and "
             "dif/2 has the same solutions; tfilter/3 and memberd_t/3 on ground lists are filter and membership. The model is tied to "
             "src/lib/reif.pl by running if_/3, its explicit reified disjunction and the plain =/dif disjunction, tfilter/3, tpartition/4, "
             "memberd_t/3 and tmember/2 on generated conditions/lists with variables bound before or after the call, and comparing in Coq "
             "the multiset of answers (bindings up to variance, residual dif goals up to logical equivalence) with the model, and every "
             "ground instance of every answer with the direct evaluation (sound, complete, no duplicates)."),
    "note": ("Trusted: Coq kernel + vm_compute; C10's unify_oc and C26's solve/canon/difs_equiv (proved there); harness vrun; the Python generator and "
             "the parser of copy_term/3 residual goals. Then/Else are the simple bindings R = then / R = else (in the theorems: any goals that are "
             "exact for their specification). Finite trees only: conditions that can reach an occurs-check situation are not generated. Ground "
             "instances are enumerated over the subterm-closed universe {a, b, f(a), f(b)} for X,Y,Z. Residual dif goals are compared up to "
             "logical equivalence. Meta-predicates are exercised with (=)/2-based conditions only (tfilter(=(X),..), tmember(=(X),..))."),
    "technique": ("Coq proof (eq_t_exhaustive_exclusive, cond_t_exhaustive_exclusive, if_equiv_disjunction, no_answer_lost_or_duplicated, "
                  "plain_disjunction_same_solutions, tfilter_spec, memberd_t_spec) over an impl-mirror model + differential correspondence evaluated in Coq"),
    "design_ref": "DESIGN.md section 8, C54",
    "coq_targets": ["C54/Props.vo"],
    "coq_dirs": ["C54", "C26", "C10"],
    "props": "C54/Props.v",
    "trusted_base": ["Coq 8.16.1 kernel, vm_compute (no native_compute)", "C10 unification model, C26 solve/canon/difs_equiv (proved in their Proofs.v)",
                     "harness/vrun + tools/vlib (correspondence)", "Python generator and residual-goal parser in checks/C54.py"],
    "assumptions": ["terms are finite trees: conditions that can reach an occurs-check situation are not generated",
                    "Then and Else are goals that are exact for their specification (in the correspondence: R = then, R = else)",
                    "residual dif constraints are compared up to logical equivalence over an infinite Herbrand universe"],
}

IMPORTS = "From V Require Import Base.Term C10.Model C26.Model C54.Model."

V = lambda n: ("var", n)
A = lambda s: ("atom", s)
C = lambda f, *a: ("cmp", f, list(a))
X, Y, Z = V("X"), V("Y"), V("Z")
VARNUM = {"X": 0, "Y": 1, "Z": 2, "O1": 10, "O2": 11}
VARS = ["X", "Y", "Z"]
GROUND = [A("a"), A("b"), C("f", A("a")), C("f", A("b"))]
# terms of at most 4 nodes over {a, b, f/1} and X, Y, Z
ATOMS = [A("a"), A("b"), X, Y, Z]
TERMS = ATOMS + [C("f", t) for t in ATOMS] + [C("f", C("f", t)) for t in (A("a"), X, Y)] + [C("f", C("f", C("f", A("a"))))]
TERM_W = [6] * 5 + [3] * 5 + [1] * 3 + [1]


NAMED = {"a": "a_a", "b": "a_b", "then": "a_then", "else": "a_else", "true": "a_true", "false": "a_false", "[]": "tnil"}
VNAME = {"X": "vx", "Y": "vy", "Z": "vz", "O1": "vo1", "O2": "vo2"}


def tc(t):
    """compact Coq text of a term (constants of C54/Model.v; fewer nodes elaborate faster)"""
    k = t[0]
    if k == "var":
        if t[1] in VNAME: return VNAME[t[1]]
        if isinstance(t[1], int) and t[1] < 8: return "w%d" % t[1]
        return terms.to_coq(t, VARNUM)
    if k == "atom" and t[1] in NAMED: return NAMED[t[1]]
    if k == "cmp" and t[1] == "f" and len(t[2]) == 1: return "(af %s)" % tc(t[2][0])
    if k == "cmp" and t[1] == "." and len(t[2]) == 2: return "(tcons' %s %s)" % (tc(t[2][0]), tc(t[2][1]))
    return terms.to_coq(t, VARNUM)


def tlist_coq(l):
    out = "T0"
    for t in reversed(l): out = "(TC %s %s)" % (tc(t), out)
    return out


def tp(t): return terms.to_prolog(t)


# ------------------------------------------------------------------ conditions
def cond_text(c):
    k = c[0]
    if k == "eq": return "%s = %s" % (tp(c[1]), tp(c[2]))
    if k == "dif": return "dif(%s,%s)" % (tp(c[1]), tp(c[2]))
    return "(%s %s %s)" % (cond_text(c[1]), "," if k == "and" else ";", cond_text(c[2]))


def pos_text(c, neg=False):
    k = c[0]
    if k in ("eq", "dif"):
        return ("%s = %s" if (k == "eq") != neg else "dif(%s,%s)") % (tp(c[1]), tp(c[2]))
    conj = (k == "and") != neg
    return "(%s %s %s)" % (pos_text(c[1], neg), "," if conj else ";", pos_text(c[2], neg))


def cond_coq(c):
    k = c[0]
    if k in ("eq", "dif"): return "(%s %s %s)" % ("REq" if k == "eq" else "RDif", tc(c[1]), tc(c[2]))
    return "(%s %s %s)" % ("RAnd" if k == "and" else "ROr", cond_coq(c[1]), cond_coq(c[2]))


def cond_pairs(c):
    if c[0] in ("eq", "dif"): return [(c[1], c[2])]
    return cond_pairs(c[1]) + cond_pairs(c[2])


def cond_vars(c):
    out = []
    for a, b in cond_pairs(c):
        for v in terms.term_vars(C("p", a, b)):
            if v not in out: out.append(v)
    return out


# ------------------------------------------------------------------ finite-tree filter
def walk(t, s):
    while t[0] == "var" and t[1] in s: t = s[t[1]]
    return t


def occurs(v, t, s):
    t = walk(t, s)
    if t[0] == "var": return t[1] == v
    if t[0] == "cmp": return any(occurs(v, x, s) for x in t[2])
    return False


def unify_py(a, b, s):
    s = dict(s)
    stack = [(a, b)]
    while stack:
        a, b = stack.pop()
        a, b = walk(a, s), walk(b, s)
        if a == b: continue
        if a[0] == "var" or b[0] == "var":
            if a[0] != "var": a, b = b, a
            if occurs(a[1], b, s): return None, True
            s[a[1]] = b
        elif a[0] == "cmp" and b[0] == "cmp" and a[1] == b[1] and len(a[2]) == len(b[2]):
            stack.extend(zip(a[2], b[2]))
        else:
            return None, False
    return s, False


def reaches_occurs_check(pairs):
    """some order of some subset of the pairs, taken as equations, meets an occurs-check situation"""
    for r in range(len(pairs) + 1):
        for sub in itertools.permutations(range(len(pairs)), r):
            s = {}
            for i in sub:
                s2, cyc = unify_py(pairs[i][0], pairs[i][1], s)
                if cyc: return True
                if s2 is None: break
                s = s2
    return False


# ------------------------------------------------------------------ cases
def case_query(case):
    kind = case["kind"]
    pre = "".join("%s = %s, " % (v, tp(t)) for v, t in case["pre"])
    post = "".join(", %s = %s" % (v, tp(t)) for v, t in case["post"])
    if kind == "if": goal, outs = "if_(%s, R = then, R = else)" % cond_text(case["c"]), ["R"]
    elif kind == "disj": goal, outs = "( call(%s, true), R = then ; call(%s, false), R = else )" % (cond_text(case["c"]), cond_text(case["c"])), ["R"]
    elif kind == "plain": goal, outs = "( %s, R = then ; %s, R = else )" % (pos_text(case["c"]), pos_text(case["c"], True)), ["R"]
    elif kind == "tfilter": goal, outs = "tfilter(=(%s), %s, O1)" % (tp(case["x"]), tp(terms.mklist(case["l"]))), ["O1"]
    elif kind == "tpartition": goal, outs = "tpartition(=(%s), %s, O1, O2)" % (tp(case["x"]), tp(terms.mklist(case["l"]))), ["O1", "O2"]
    elif kind == "memberd_t": goal, outs = "memberd_t(%s, %s, O1)" % (tp(case["x"]), tp(terms.mklist(case["l"]))), ["O1"]
    else: goal, outs = "tmember(=(%s), %s)" % (tp(case["x"]), tp(terms.mklist(case["l"]))), []
    vs = "[%s]" % ",".join(VARS + outs)
    return "%s%s%s, copy_term(%s,%s,Gs), A = ans(%s,Gs)." % (pre, goal, post, vs, vs, vs)


def case_coq(case):
    kind = case["kind"]
    def bl(bs):
        out = "B0"
        for v, t in reversed(bs): out = "(BC %d %s %s)" % (VARNUM[v], tc(t), out)
        return out
    tl = tlist_coq
    if kind in ("if", "disj", "plain"):
        k = "(%s %s)" % ({"if": "KIf", "disj": "KDisj", "plain": "KPlain"}[kind], cond_coq(case["c"]))
    else:
        k = "(%s %s %s)" % ({"tfilter": "KTfilter", "tpartition": "KTpartition", "memberd_t": "KMemberd", "tmember": "KTmember"}[kind], tc(case["x"]), tl(case["l"]))
    return "%s %s %s" % (bl(case["pre"]), k, bl(case["post"]))


class NoText(Exception):
    pass


ATOM_CH = {"a": "a", "b": "b", "then": "t", "else": "e", "true": "T", "false": "F", "[]": "n"}
VAR_CH = {"X": "x", "Y": "y", "Z": "z", "O1": "p", "O2": "q"}


def ts(t):
    """compact text of a term (C54/Model.v, decode)"""
    k = t[0]
    if k == "var":
        if t[1] in VAR_CH: return VAR_CH[t[1]]
        if isinstance(t[1], int) and 0 <= t[1] <= 9: return str(t[1])
    elif k == "atom" and t[1] in ATOM_CH: return ATOM_CH[t[1]]
    elif k == "cmp" and t[1] == "f" and len(t[2]) == 1: return "f" + ts(t[2][0])
    elif k == "cmp" and t[1] == "." and len(t[2]) == 2: return "c" + ts(t[2][0]) + ts(t[2][1])
    raise NoText()


def cond_s(c):
    k = c[0]
    if k == "eq": return "=" + ts(c[1]) + ts(c[2])
    if k == "dif": return "#" + ts(c[1]) + ts(c[2])
    return ("&" if k == "and" else "|") + cond_s(c[1]) + cond_s(c[2])


def case_s(case, answers):
    """the whole case as one Coq string literal, or None when something has no compact text"""
    try:
        kind = case["kind"]
        pre = "".join(VAR_CH[v] + ts(t) for v, t in case["pre"])
        post = "".join(VAR_CH[v] + ts(t) for v, t in case["post"])
        if kind in ("if", "disj", "plain"): k = {"if": "I", "disj": "D", "plain": "P"}[kind] + cond_s(case["c"])
        else: k = {"tfilter": "L", "tpartition": "R", "memberd_t": "M", "tmember": "E"}[kind] + ts(case["x"]) + "".join(ts(e) for e in case["l"])
        ans = ";".join("".join(ts(t) for t in b) + "," + "".join(ts(x) + ts(y) for x, y in d) for b, d in answers)
        return '"%s/%s/%s/%s"' % (pre, k, post, ans)
    except NoText:
        return None


def judge_expr(fn, case, answers=None):
    """fn in check_case | chk_model | chk_ground | model_ground_ok"""
    s = case_s(case, answers if answers is not None else [])
    if s is not None: return "%s_s %s" % (fn, s)
    if fn == "model_ground_ok": return "model_ground_ok %s" % case_coq(case)
    return "%s %s %s" % (fn, case_coq(case), answers_coq(answers))


def binding_patterns(rng, vs, n):
    """the all-free pattern and n sampled patterns: each variable free, bound before, or bound after the call"""
    pats = [((), ())]
    seen = {repr(((), ()))}
    for _ in range(8 * n):
        if len(pats) > n: break
        pre, post = [], []
        for v in vs:
            r = rng.random()
            if r < 0.35: pre.append((v, rng.choice(GROUND[:3] if rng.random() < 0.85 else GROUND)))
            elif r < 0.7: post.append((v, rng.choice(GROUND[:3] if rng.random() < 0.85 else GROUND)))
        key = (tuple(pre), tuple(post))
        if repr(key) in seen: continue
        seen.add(repr(key))
        pats.append(key)
    return pats


def gen_cases(ctx):
    rng = ctx.rng
    n_cond = ctx.scale(330, 4000)
    n_list = ctx.scale(270, 3000)
    cases, skipped = [], 0
    seen = set()

    def term():
        return rng.choices(TERMS, TERM_W)[0]

    def atomic():
        return (rng.choice(["eq", "eq", "dif"]), term(), term())

    def cond(depth):
        if depth == 0 or rng.random() < 0.35: return atomic()
        return (rng.choice(["and", "or"]), cond(depth - 1), cond(depth - 1))

    fixed = [("eq", X, A("a")), ("dif", X, Y), ("eq", C("f", X), C("f", Y)), ("and", ("eq", X, A("a")), ("dif", Y, C("f", X))),
             ("or", ("eq", X, A("a")), ("eq", Y, C("f", X))), ("or", ("eq", X, Y), ("eq", Y, Z)), ("and", ("dif", X, Y), ("dif", Y, Z)),
             ("eq", A("a"), A("a")), ("eq", A("a"), A("b")), ("eq", X, X)]
    conds = list(fixed)
    tries = 0
    while len(conds) < n_cond and tries < 50 * n_cond:
        tries += 1
        c = cond(rng.choice([0, 0, 1, 1, 1, 2]))
        if len(cond_pairs(c)) > 3: continue
        conds.append(c)
    for c in conds:
        key = cond_text(c)
        if key in seen: continue
        seen.add(key)
        if reaches_occurs_check(cond_pairs(c)):
            skipped += 1
            continue
        vs = cond_vars(c)
        for pre, post in binding_patterns(rng, vs, ctx.scale(2, 6) if vs else 0):
            for kind in ("if", "disj", "plain"):
                cases.append({"kind": kind, "c": c, "pre": list(pre), "post": list(post), "group": key + repr((pre, post))})
    elems = [A("a"), A("b"), X, Y, Z, C("f", A("a")), C("f", X), C("f", Y)]
    lfixed = [("tfilter", X, [A("a"), Y, A("b")]), ("memberd_t", X, [A("a"), Y]), ("tmember", X, [A("a"), Y]), ("tpartition", X, [A("a"), Y]),
              ("tfilter", A("a"), [A("a"), A("b"), A("a")]), ("memberd_t", A("b"), [A("a"), A("b")]), ("tmember", X, []), ("tfilter", X, [])]
    lcases = list(lfixed)
    while len(lcases) < n_list:
        kind = rng.choice(["tfilter", "tfilter", "tpartition", "memberd_t", "memberd_t", "tmember"])
        n = rng.choice([0, 1, 2, 2, 3, 3, 4] if kind != "tpartition" else [1, 2, 2, 3])
        lcases.append((kind, rng.choice([X, X, X, A("a"), A("b"), C("f", X), C("f", A("a")), Y]), [rng.choice(elems) for _ in range(n)]))
    for kind, x, l in lcases:
        key = kind + tp(x) + tp(terms.mklist(l))
        if key in seen: continue
        seen.add(key)
        pairs = [(x, e) for e in l]
        if reaches_occurs_check(pairs[:4]):
            skipped += 1
            continue
        vs = terms.term_vars(C("p", x, *l))
        for pre, post in binding_patterns(rng, vs, 1 if vs else 0):
            cases.append({"kind": kind, "x": x, "l": l, "pre": list(pre), "post": list(post), "group": key})
    return cases, skipped


# ------------------------------------------------------------------ implementation side
CONSULT = ":- use_module(library(reif)).\n:- use_module(library(dif)).\n:- use_module(library(iso_ext)).\n"


def parse_answers(ans):
    """-> list of (binds, difs) with variables numbered jointly, or ('odd', text)"""
    out = []
    for a in ans:
        if a == ("false",): continue
        if a[0] != "sol": return ("odd", repr(a)[:300])
        t = a[1]["A"]
        try:
            binds, tail = terms.list_view(t[2][0])
            gs, tail2 = terms.list_view(t[2][1])
            difs = []
            for g in gs:
                if not (g[0] == "cmp" and g[1] == ":" and g[2][0] == A("dif") and g[2][1][0] == "cmp" and g[2][1][1] == "dif" and len(g[2][1][2]) == 2):
                    return ("odd", "unexpected residual goal %s" % tp(g))
                difs.append((g[2][1][2][0], g[2][1][2][1]))
        except (IndexError, TypeError):
            return ("odd", "unparsed answer %r" % (t,))
        flat = terms.number_vars(list(binds) + [x for p in difs for x in p])
        n = len(binds)
        out.append((flat[:n], [(flat[n + 2 * i], flat[n + 2 * i + 1]) for i in range(len(difs))]))
    return out


def answers_coq(al):
    out = "A0"
    for b, d in reversed(al):
        ds = "P0"
        for x, y in reversed(d): ds = "(PC (PP %s %s) %s)" % (tc(x), tc(y), ds)
        out = "(AC (AN %s %s) %s)" % (tlist_coq(b), ds, out)
    return out


def answers_text(al):
    if isinstance(al, tuple): return al[1]
    return " ; ".join("[%s]%s" % (",".join(tp(t) for t in b), "".join(", dif(%s,%s)" % (tp(x), tp(y)) for x, y in d)) for b, d in al) or "false"


def canon_key(al):
    return sorted((tuple(tp(t) for t in b), tuple(sorted((tp(x), tp(y)) for x, y in d))) for b, d in al)


def run(ctx):
    cases, skipped = gen_cases(ctx)
    B = 40
    jobs = []
    for j0 in range(0, len(cases), B):
        jobs.append({"id": "j%d" % j0, "consult": CONSULT, "queries": [case_query(c) for c in cases[j0:j0 + B]], "max_answers": 60, "timeout_ms": 10000})
    t0 = time.time()
    res = core.vrun_query(ctx.prop, jobs, tag="q")
    t_impl = time.time() - t0
    failures, tie_breaks = [], []
    dist = collections.Counter()
    judged = []
    for j0 in range(0, len(cases), B):
        rec = res.get("j%d" % j0, {})
        chunk = cases[j0:j0 + B]
        if "results" not in rec:
            failures.append({"key": "crash:" + case_query(chunk[0]), "what": "the implementation crashed or hung in a batch of reif queries", "input": case_query(chunk[0]),
                             "impl": json.dumps(rec)[:400], "spec": "answers", "property_fails": True})
            continue
        for c, r in zip(chunk, rec["results"]):
            al = parse_answers(terms.answers(r))
            c["answers"] = al
            dist["cases: " + c["kind"]] += 1
            if isinstance(al, tuple):
                failures.append({"key": "unexpected-answer:" + case_query(c), "what": "unexpected answer shape, error or residual goal", "input": case_query(c),
                                 "impl": al[1], "spec": "answers with bindings and residual dif/2 goals", "property_fails": True})
            else:
                judged.append(c)
                dist["answers per case: %s" % (len(al) if len(al) < 4 else "4+")] += 1

    # if_/3 against its own explicit reified disjunction, syntactically (the model comparison below is up to equivalence)
    groups = collections.defaultdict(dict)
    for c in judged:
        if c["kind"] in ("if", "disj"): groups[c["group"]][c["kind"]] = c
    for g in groups.values():
        if len(g) == 2:
            same = canon_key(g["if"]["answers"]) == canon_key(g["disj"]["answers"])
            dist["if_/3 vs explicit reified disjunction: " + ("identical answers" if same else "answers differ textually")] += 1

    exprs = [judge_expr("check_case", c, c["answers"]) for c in judged]
    # cross-validation of the model against its own direct evaluation on a sample
    sample = [c for i, c in enumerate(judged) if i % 7 == 0]
    mexprs = [judge_expr("model_ground_ok", c) for c in sample]
    # the compact text form against the constructor form on a sample (the decoder of C54/Model.v is on the comparison path)
    xsample = [c for i, c in enumerate(judged) if i % 25 == 4 and case_s(c, c["answers"]) is not None]
    xexprs = ["Bool.eqb (check_case_s %s) (check_case %s %s) && match decode %s with Some _ => true | None => false end"
              % (case_s(c, c["answers"]), case_coq(c), answers_coq(c["answers"]), case_s(c, c["answers"])) for c in xsample]
    t1 = time.time()
    allbad, errors = core.coq_eval_bools(ctx.prop, IMPORTS, exprs + mexprs + xexprs, chunk=400, tag="judge")
    t_judge = time.time() - t1
    for sh, e in errors:
        tie_breaks.append({"kind": "coq-eval", "what": "a shard of model evaluations was rejected by coqc", "detail": str(e)[-1500:]})
    bad = [i for i in allbad if i < len(exprs)]
    for i in allbad:
        if i >= len(exprs) + len(mexprs):
            c = xsample[i - len(exprs) - len(mexprs)]
            tie_breaks.append({"kind": "coq-eval", "what": "the compact text form of a case is not decoded to the case (decoder of C54/Model.v or encoder of checks/C54.py)",
                               "detail": xexprs[i - len(exprs) - len(mexprs)][:1500]})
        elif i >= len(exprs):
            c = sample[i - len(exprs)]
            tie_breaks.append({"kind": "coq-eval", "what": "the model's answers disagree with the model's own direct evaluation on ground instances",
                               "detail": "model_ground_ok %s" % case_coq(c)})
    # which part fails
    dexprs = []
    for i in bad:
        c = judged[i]
        dexprs += [judge_expr("chk_model", c, c["answers"]), judge_expr("chk_ground", c, c["answers"])]
    dbad, derr = core.coq_eval_bools(ctx.prop, IMPORTS, dexprs, chunk=250, tag="diag") if dexprs else ([], [])
    db = set(dbad)
    shown = 0
    for n, i in enumerate(bad):
        c = judged[i]
        parts = [p for k, p in ((2 * n, "answers differ from the model"), (2 * n + 1, "ground instances differ from the direct evaluation")) if k in db]
        spec = ""
        if shown < 4:
            shown += 1
            spec = core.coq_eval_show(ctx.prop, IMPORTS, "(model_answers %s, spec_instances %s)" % (case_coq(c), case_coq(c)))[-1500:]
        failures.append({"key": "%s:%s" % (c["kind"], case_query(c)), "what": "; ".join(parts) or "check_case is false", "input": case_query(c),
                         "impl": answers_text(c["answers"]), "spec": spec or "check_case %s" % case_coq(c), "property_fails": True})
        dist["disagreements: " + c["kind"]] += 1

    nontrivial = set()
    for c in judged:
        if len(c["answers"]) >= 2 or c["pre"] or c["post"]:
            nontrivial.add(case_query(c))
    samples = [("%s -> %s" % (case_query(c), answers_text(c["answers"])))[:600] for c in judged[:3] + judged[len(judged) // 2:len(judged) // 2 + 3] + judged[-3:]]
    dist["conditions/lists skipped by the finite-tree filter"] = skipped
    return {"evaluations": len(judged), "distinct_nontrivial": len(nontrivial),
            "rule": ("conditions built from =/dif atoms over terms of <= 4 nodes over {a,b,f/1,X,Y,Z} with ','/';' (<= 3 atoms), each with the all-free pattern and sampled "
                     "patterns binding each variable before or after the call, each run as if_/3, as the explicit reified disjunction and as the plain =/dif disjunction; "
                     "tfilter/tpartition/memberd_t/tmember on lists of <= 4 elements likewise; every case is one query whose full answer sequence is judged in Coq "
                     "(answers vs model, ground instances vs direct evaluation); non-trivial = distinct queries with at least two answers or with a variable bound "
                     "before/after the call"),
            "notes": ["implementation %.1fs, model judgement %.1fs (%d expressions, %d of them cross-checks of the compact text form)" % (t_impl, t_judge, len(exprs) + len(mexprs) + len(xexprs), len(xexprs))],
            "samples": samples, "distribution": dict(dist), "failures": failures, "tie_breaks": tie_breaks}
