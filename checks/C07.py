"""C07 -- Compiled programs compute ISO SLD-resolution answers."""
import json, os, sys
from vlib import core, terms

sys.path.insert(0, core.ROOT)
from gen import sld_common as S

META = {
    "level": "proof",
    "text": ("Coq theorems about the reference interpreter Engine/Sld.v (ISO 7.7/7.8 control: success continuations, cut barriers, "
             "call/N opaque to cut, if-then-else, \\+, catch/throw): solve_fuel_mono (a completed run is independent of the fuel, so "
             "out-of-fuel is excluded by statement) and the ISO control laws as equations on ordered answer sequences (conjunction, "
             "disjunction, if-then-else, negation, cut, call/1 opacity, once). On the pure fragment (true, fail, conjunction, disjunction, =/2, "
             "user predicate calls; no cut/exceptions) the interpreter is proved EQUAL, in both directions, to an inductive fuel-free and "
             "continuation-free derivation semantics answers_rel (Engine/SldRel.v: ordered answer LISTS, so order and multiplicity "
             "are part of the statement): sld_sound, sld_complete, sld_sound_complete, exec_complete_any_continuation (inside any context), "
             "answers_rel_functional; derived forms over a pure condition: ite_pure_cond, once_pure, naf_pure (first derivable answer / none); "
             "call/1 of a pure goal: call_body_rel (exact, relative to the relation) and call_body_equiv_partial / call_body_variants_partial "
             "(G completes => call(G) completes with the same answers up to the renaming v->v+1 of fresh variables, i.e. variants). "
             "The WAM compiler and engine are tied to the reference "
             "by correspondence: random programs (cuts at every position, all variable sharing patterns, indexing shapes, arities up to 8) "
             "are consulted and their queries' ordered answers + exception compared with the model evaluated inside coqc."),
    "note": ("Trusted: Coq kernel + vm_compute; the reference interpreter itself as the rendering of ISO resolution (its unification is a "
             "textbook substitution-based one with occurs check: runs that would create a cyclic binding are dropped and counted); the Python "
             "generator/serialisers (gen/sld_common.py); the harness vrun. The compiler/engine (codegen.rs, debray_allocator.rs, "
             "machine_state.rs ...) is not modelled: differential half only. Error contexts are not compared. "
             "The derivation relation answers_rel shares with the interpreter its unification function (unify ufuel: an aborting unification "
             "leaves no derivation) and its renaming-apart convention (fresh-name counter threaded through the states), which is why the "
             "agreement theorems are exact equalities; it shares no fuel, continuation, signal or cut barrier. Fragment of the agreement "
             "theorems: pure goals only (no cut, if-then-else, \\+, call/N, arithmetic, type tests, exceptions inside the goals related; "
             "ite_pure_cond/once_pure/naf_pure allow arbitrary Then/Else/continuations around a pure condition). NOT proved "
             "(call_body_equiv_partial): the converse direction call(G) completes => G completes, and call(G) inside a clause body "
             "(non-empty substitution: needs invariance of unify under instantiating the goal by the current substitution); "
             "no agreement theorem for programs with cut or exceptions (only the control-law equations). SldRelProofs.v sets "
             "`Strategy opaque [ufuel]` (conversion hint only, no axiom)."),
    "technique": "Coq proof (solve_fuel_mono + ISO control laws + sld_sound_complete against an inductive derivation relation on the pure fragment) over a reference interpreter + differential correspondence evaluated in Coq",
    "design_ref": "DESIGN.md section 8, C07",
    "coq_targets": ["C07/Props.vo"],
    "coq_dirs": ["Engine", "C07"],
    "props": "C07/Props.v",
    "trusted_base": ["Coq 8.16.1 kernel, vm_compute (no native_compute)", "gen/sld_common.py (program generator, Prolog/Coq serialisers)",
                     "harness/vrun + tools/vlib (correspondence)", "Engine/Sld.v as the statement of ISO depth-first resolution"],
    "assumptions": ["programs are within the generated space (<= 4 predicates + 3 recursive list helpers, <= 4 clauses each, nesting <= 3)",
                    "runs that need a cyclic binding, more than 60 answers, or more interpreter depth than the fuel are dropped (counted in the distribution)"],
}

FEATS = {"cut": 1, "ite": 1, "naf": 1, "call": 1, "arith": 1, "types": 1, "err": 1, "rec": 1, "big": 1}


def shape_corpus():
    """Systematic family (always run first): a clause that ENDS in a control construct whose branches pass, in their last
    call, a permanent variable that first occurred before the construct (as a body-goal argument, in a unification, or in the
    head) and may still be unbound; callees with and without an environment of their own.  Added after the seeded change
    seeded/C07-unsafe-var-globally-unneeded (debray_allocator) was missed by the random generator."""
    A, I, V, C, conj, TRUE = S.A, S.I, S.V, S.C, S.conj, S.TRUE
    out = []
    n = 0
    for ctrl in ("ite", "disj", "ite3", "disj_ite", "ite_then_goal"):
        for first in ("goal", "unif", "head"):
            for env in (True, False):
                for qbinds in (False, True):
                    pfx = "sc%d_" % n
                    n += 1
                    p, q, r, s_, t = [pfx + x for x in "pqrst"]
                    T, R, Y = V("T"), V("R"), V("Y")
                    call_r, call_s = C(r, Y, R), C(s_, Y, R)
                    ta, tb = C("==", T, A("a")), C("==", T, A("b"))
                    if ctrl == "ite": ctl = C(";", C("->", ta, call_r), call_s)
                    elif ctrl == "disj": ctl = C(";", conj([ta, call_r]), call_s)
                    elif ctrl == "ite3": ctl = C(";", C("->", ta, call_r), C(";", C("->", tb, call_s), call_r))
                    elif ctrl == "disj_ite": ctl = C(";", C(";", C("->", ta, call_r), call_s), call_r)
                    else: ctl = C(";", C("->", ta, conj([C(q, V("W")), call_r])), call_s)
                    if first == "goal": head, pre = C(p, T, R), [C(q, Y)]
                    elif first == "unif": head, pre = C(p, T, R), [C("=", Y, C("w", V("U")))]
                    else: head, pre = C(p, T, R, Y), [C(q, V("W0"))]
                    prog = [(head, conj(pre + [ctl]))]
                    prog.append((C(q, A("k") if qbinds else V("X")), TRUE))
                    def body():
                        if env: return conj([C(t, V("B")), C("=", V("R"), C("-", V("A"), V("B")))])
                        return C("=", V("R"), C("-", V("A"), I(5)))
                    prog.append((C(r, V("A"), V("R")), body()))
                    prog.append((C(s_, V("A"), V("R")), body()))
                    prog.append((C(t, I(5)), TRUE))
                    queries = []
                    for x in ("a", "b", "c"):
                        if first == "head": queries.append((C(p, A(x), V("Q0"), V("Q1")), C("ans", V("Q0"), V("Q1"))))
                        else: queries.append((C(p, A(x), V("Q0")), C("ans", V("Q0"))))
                    out.append((prog, queries))
    return out


def run(ctx):
    rng = ctx.rng
    nprog = ctx.scale(1200, 3600)
    jobs, meta = [], {}
    for prog, queries in shape_corpus():
        jid = "j%d" % len(jobs)
        jobs.append({"id": jid, "text": S.program_text(prog), "queries": queries})
        meta[jid] = (prog, queries)
    nprog += len(jobs)
    dist = {"programs": 0, "regenerated_too_big": 0, "dropped_impl": 0, "dropped_model_nofuel": 0, "dropped_model_cyclic_or_unsupported": 0,
            "dropped_model_many_answers": 0, "with_exception": 0, "with_answers": 0, "no_answers": 0, "cut_in_cond_programs": 0}
    while len(jobs) < nprog:
        pfx = "j%d_" % len(jobs)
        g = S.ProgGen(rng, pfx, FEATS)
        prog = g.program()
        est = S.estimate_program(prog)
        queries = []
        for _ in range(3):
            q, t = g.query()
            a, w = S.estimate_goal(q, est)
            if a <= 150 and w <= 2500:
                queries.append((q, t))
        if not queries:
            dist["regenerated_too_big"] += 1
            continue
        text = S.program_text(prog)
        jid = "j%d" % len(jobs)
        jobs.append({"id": jid, "text": text, "queries": queries})
        meta[jid] = (prog, queries)
        if g.ncut_cond: dist["cut_in_cond_programs"] += 1
    dist["programs"] = len(jobs)
    obs = S.run_impl(ctx.prop, jobs, tag="impl", timeout_ms=1500)

    defs, exprs, info = {}, [], []
    failures, tie_breaks = [], []
    for j in jobs:
        prog, queries = meta[j["id"]]
        pname = "prog_" + j["id"]
        defs[pname] = ("program", S.program_coq(prog))
        for i, (q, t) in enumerate(queries):
            seen = []
            for path, o in sorted(obs[j["id"]][i].items()):
                if o[0] == "panic":
                    # the answer channel panics on cyclic bindings: only a panic on a run the model completes is reported
                    exprs.append(S.check_expr(pname, q, t, ("ok", [], None, [])))
                    info.append((j["id"], i, path, o))
                    continue
                if o[0] != "ok":
                    dist["dropped_impl"] += 1
                    continue
                if o in seen:
                    continue
                seen.append(o)
                exprs.append(S.check_expr(pname, q, t, o))
                info.append((j["id"], i, path, o))
    codes, errs = S.coq_eval_codes(ctx.prop, S.IMPORTS, defs, exprs, chunk=250)
    for k, e in errs:
        tie_breaks.append({"kind": "coq-eval", "what": "model evaluation shard failed", "detail": e[-1500:]})
    nontrivial = set()
    evaluations = 0
    bad = []
    for c, (jid, i, path, o) in zip(codes, info):
        if c is None:
            continue
        if c == 2: dist["dropped_model_nofuel"] += 1; continue
        if c == 3: dist["dropped_model_cyclic_or_unsupported"] += 1; continue
        if c == 4: dist["dropped_model_many_answers"] += 1; continue
        if c == 5: dist["prefix_only_ambiguous_arith_error"] = dist.get("prefix_only_ambiguous_arith_error", 0) + 1; evaluations += 1; continue
        evaluations += 1
        prog, queries = meta[jid]
        q, t = queries[i]
        if o[0] == "panic":
            failures.append({"key": S.panic_key(prog, q, o[1]), "what": "query panics on a run without cyclic bindings", "input": S.program_text(prog) + "?- " + S.query_text(q, t),
                             "impl": o[1][:300], "spec": "no panic", "property_fails": True})
            continue
        if c == 1:
            bad.append((jid, i, path, o))
            continue
        if o[2] is not None: dist["with_exception"] += 1
        if o[1]: dist["with_answers"] += 1
        else: dist["no_answers"] += 1
        if o[1] or o[2] is not None:
            nontrivial.add((jid, i))
    reported = {}
    for (jid, i, path, o) in bad:
        prog, queries = meta[jid]
        q, t = queries[i]
        key = S.failure_key(prog, q, o)
        reported.setdefault(key, [])
        if len(reported[key]) >= 1:
            reported[key].append(1)
            continue
        spec = S.show_model(ctx.prop, S.program_coq(prog), q, t)
        reported[key].append(1)
        failures.append({"key": key, "count_in_this_run": 0, "what": "ordered answers / exception of the implementation differ from ISO depth-first resolution (%s path)" % path,
                         "input": S.program_text(prog) + "?- " + S.query_text(q, t),
                         "impl": "answers=%s ball=%s" % ([S.pl(a) for a in o[1]], S.pl(o[2]) if o[2] else None), "spec": spec[:1500], "property_fails": True})
    dist["disagreements"] = len(bad)
    dist["disagreements_by_key"] = {k: len(v) for k, v in reported.items()}
    seenp = set()
    fl = []
    for f in failures:          # one report per panic key
        if f["key"] in seenp and "panic" in f["key"]:
            continue
        seenp.add(f["key"]); fl.append(f)
    failures = fl
    samples = []
    for j in jobs[:3]:
        prog, queries = meta[j["id"]]
        o = obs[j["id"]][0]["clause"]
        samples.append({"program": S.program_text(prog), "query": S.query_text(*queries[0]), "impl": repr(o)[:200]})
    return {"evaluations": evaluations, "distinct_nontrivial": len(nontrivial),
            "rule": ("random programs (2-4 predicates with an acyclic call graph + recursive append/member/length helpers, 1-4 clauses each, bodies of 1-4 goals, "
                     "control nesting <= 3, <= 5 clause variables drawn at random so that all sharing patterns occur, cuts at neck/deep/inside ->, \\+, call/1, "
                     "first-argument shapes atom/integer/list/structure/variable, arities up to 8, type tests, integer arithmetic incl. errors, undefined procedures); "
                     "3 queries per program, each run directly and through a compiled wrapper clause; ordered variant-normalised answers + exception compared with "
                     "Sld.solve in Coq; non-trivial = distinct (program, query) agreeing with the model and having at least one answer or an exception"),
            "samples": samples, "distribution": dist, "failures": failures, "tie_breaks": tie_breaks}
