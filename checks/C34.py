"""C34 -- Large and deeply nested terms never crash the process."""
import json, time
from vlib import core

META = {
    "level": "other",
    "text": ("A native stack overflow is a run-time event of the process that no Gallina model can exhibit, so this property is decided at process "
             "level: terms of 10^3..10^5 nodes (thorough: 10^6) of six shapes (long list, right-nested f(f(..)), left-nested operators, deep list nesting, "
             "long string, chains of w/255) are built INSIDE Prolog and every operation (read, write, copy_term, compare, ==, unification, "
             "assertz+call+retract, findall, term_variables, ground, length, sort, keysort, a user-defined traversal) runs under catch/3 in its own query, "
             "at the largest size in its own process: a process that dies by a signal, hangs or panics is a violation naming shape, size and operation. "
             "Coq contributes the expected answers at sizes no test uses: theorems give, for every n, the list length, node count, written length, "
             "standard-order result, groundness/copy identity and sort result of the builders (length_long_list, size_right_nest, expect_nodes, "
             "compare_nested_prefix, compare_next_instance, copy_ground_identity, msort_long_list_sorted, sort_length_bound, expect_write, expect_length); "
             "the observed summaries are compared with these closed forms inside Coq."),
    "note": ("Trusted: Coq kernel + vm_compute; C13's model of the standard order; the writer model wl covers only the shapes used; the Prolog builder "
             "predicates are assumed to construct the Gallina builders' terms (checked indirectly: node counts, lengths and written lengths agree); "
             "crash detection = exit status of the vrun process (one machine per process, 8 MB main-thread stack as in the shipped binary's main thread); "
             "read and writeq round trips have no closed form here (their summary must be `same`)."),
    "technique": "process-level crash detection on size-parametric terms + Coq closed forms (by induction on n) for the expected answers",
    "coq_targets": ["C34/Props.vo"], "coq_dirs": ["C34"], "props": "C34/Props.v",
    "trusted_base": ["Coq 8.16.1 kernel, vm_compute", "coq/C13/Model.v (standard order)", "harness vrun (crash = exit by signal) + tools/vlib"],
    "assumptions": ["the harness process has the default 8 MB main-thread stack", "a resource error is an acceptable outcome for every operation"],
}
IMPORTS = "From V Require Import Base.Term C34.Model."

SUPPORT = r"""
:- use_module(library(lists)).
:- use_module(library(between)).
:- use_module(library(charsio)).
:- dynamic(big/1).

build(long_list, N, T) :- numlist(1, N, T).
build(right_nest, N, T) :- rn(N, a, T).
build(left_nest, N, T) :- ln(N, a, T).
build(deep_list, N, T) :- dl(N, [], T).
build(long_string, N, T) :- length(L, N), fill(L, x), atom_chars(A, L), atom_chars(A, T).
build(wide, N, T) :- K is N // 255, wd(K, end, T).
next(wide, N, N1) :- !, N1 is N + 255.
next(_, N, N1) :- N1 is N + 1.

rn(0, T, T) :- !.
rn(N, A, T) :- N1 is N-1, rn(N1, f(A), T).
ln(0, T, T) :- !.
ln(N, A, T) :- N1 is N-1, ln(N1, A+b, T).
dl(0, T, T) :- !.
dl(N, A, T) :- N1 is N-1, dl(N1, [A], T).
fill([], _).
fill([X|Xs], X) :- fill(Xs, X).
wd(0, T, T) :- !.
wd(K, A, T) :- functor(W, w, 255), arg(255, W, A), fillargs(254, W), K1 is K-1, wd(K1, W, T).
fillargs(0, _) :- !.
fillargs(I, W) :- arg(I, W, I), I1 is I-1, fillargs(I1, W).

% the text of the term, generated without the writer
rep(0, _, A, A) :- !.
rep(N, P, A0, A) :- append(P, A0, A1), N1 is N-1, rep(N1, P, A1, A).
text(right_nest, N, Cs) :- rep(N, ")", ".", T1), rep(N, "f(", [a|T1], Cs).
text(left_nest, N, Cs) :- rep(N, "+b", ".", T1), Cs = [a|T1].
text(deep_list, N, Cs) :- rep(N, "]", "].", T1), rep(N, "[", ['['|T1], Cs).
text(long_list, N, Cs) :- nums(N, "].", T1), Cs = ['['|T1].
text(long_string, N, Cs) :- length(L, N), fill(L, x), append(L, "\".", T1), Cs = ['"'|T1].
text(wide, N, Cs) :- build(wide, N, T), write_term_to_chars(T, [quoted(true)], Cs0), append(Cs0, " .", Cs).
nums(1, A, Cs) :- !, Cs = ['1'|A].
nums(N, A, Cs) :- number_chars(N, Ds), append([','|Ds], A, A1), N1 is N-1, nums(N1, A1, Cs).

% number of nodes by a traversal that is not tail recursive (uses the Prolog stacks, not the native one)
nodes(T, 1) :- atomic(T), !.
nodes(T, N) :- T =.. [_|As], nodes_l(As, 0, N0), N is N0+1.
nodes_l([], N, N).
nodes_l([A|As], N0, N) :- nodes(A, K), N1 is N0+K, nodes_l(As, N1, N).

% only small summaries leave the machine: never a big term, not even inside an error term
run(Op, S, N, R) :- catch(op(Op, S, N, R), Ball, summary(Ball, R)).
summary(Ball, R) :-
    (  nonvar(Ball), Ball = error(E, _), nonvar(E) ->
       (  E = resource_error(W), atomic(W) -> R = resource_error(W)
       ;  functor(E, F, A), ( A > 0, arg(1, E, X), atomic(X) -> R = error(F, X) ; R = error(F, A) )
       )
    ;  nonvar(Ball), atomic(Ball) -> R = ball(Ball)
    ;  R = ball
    ).
same(A, B, R) :- ( A == B -> R = same ; R = different ).

op(build, S, N, same) :- build(S, N, _).
op(read, S, N, R) :- text(S, N, Cs), read_term_from_chars(Cs, T, []), build(S, N, T0), same(T, T0, R).
op(write, S, N, L) :- build(S, N, T), write_term_to_chars(T, [], Cs), length(Cs, L).
op(writeq_read, S, N, R) :- build(S, N, T), write_term_to_chars(T, [quoted(true)], Cs0), append(Cs0, " .", Cs), read_term_from_chars(Cs, T1, []), same(T1, T, R).
op(copy, S, N, R) :- build(S, N, T), copy_term(T, C), same(C, T, R).
op(compare, S, N, O) :- build(S, N, T), next(S, N, N1), build(S, N1, T1), compare(O, T, T1).
op(equal, S, N, R) :- build(S, N, T), build(S, N, T1), same(T, T1, R).
op(unify, S, N, R) :- build(S, N, T), copy_term(T, C), ( T = C -> R = same ; R = failed ).
op(unify_fresh, S, N, R) :- build(S, N, T), build(S, N, T1), ( T = T1 -> R = same ; R = failed ).
op(assert, S, N, R) :- build(S, N, T), assertz(big(T)), ( big(X), X == T -> R0 = same ; R0 = different ), retract(big(_)), R = R0.
op(findall, S, N, R) :- build(S, N, T), findall(T, member(_, [1,2]), L), ( L = [A,B], A == T, B == T -> R = same ; R = different ).
op(term_variables, S, N, K) :- build(S, N, T), term_variables(T, Vs), length(Vs, K).
op(ground, S, N, R) :- build(S, N, T), ( ground(T) -> R = true ; R = false ).
op(length, S, N, L) :- build(S, N, T), length(T, L).
op(sort, _, N, R) :- numlist(1, N, L), reverse(L, Rv), sort(Rv, S), same(S, L, R).
op(keysort, _, N, R) :- numlist(1, N, L), reverse(L, Rv), pairs(Rv, Ps), keysort(Ps, S), pairs(L, Ps1), same(S, Ps1, R).
op(sort_terms, S, N, R) :- build(S, N, T), next(S, N, N1), build(S, N1, T1), sort([T1, T, T1], L), ( L = [A, B], A == T, B == T1 -> R = same ; R = different ).
op(nodes, S, N, K) :- build(S, N, T), nodes(T, K).
op(atom_length, S, N, L) :- build(S, N, T), atom_chars(A, T), atom_length(A, L).
op(occurs_check, S, N, R) :- build(S, N, T), copy_term(T, C), ( unify_with_occurs_check(T, C) -> R = same ; R = failed ).
op(subsumes, S, N, R) :- build(S, N, T), copy_term(T, C), ( subsumes_term(T, C) -> R = same ; R = failed ).
op(acyclic, S, N, R) :- build(S, N, T), ( acyclic_term(T) -> R = true ; R = false ).
op(setof, S, N, R) :- build(S, N, T), next(S, N, N1), build(S, N1, T1), setof(X, member(X, [T1, T, T1]), L), ( L = [A, B], A == T, B == T1 -> R = same ; R = different ).
op(univ, S, N, R) :- build(S, N, T), ( atomic(T) -> R = same ; T =.. [F|As], T1 =.. [F|As], same(T, T1, R) ).
op(write_canonical, S, N, R) :- build(S, N, T), write_term_to_chars(T, [quoted(true), ignore_ops(true)], Cs), length(Cs, L), ( L > N -> R = same ; R = short(L) ).
op(consulted, S, N, R) :- build(S, N, T), ( consulted_fact(X) -> same(X, T, R) ; R = missing ).
pairs([], []).
pairs([K|Ks], [K-v|Ps]) :- pairs(Ks, Ps).
"""

SHAPES = {"long_list": "LongList", "right_nest": "RightNest", "left_nest": "LeftNest", "deep_list": "DeepList", "long_string": "LongString", "wide": "Wide"}
# operation -> model operation (the closed form the answer is compared with)
OPS = {"build": "OSame", "read": "OSame", "write": "OWrite", "writeq_read": "OSame", "copy": "OSame", "compare": "OCompare", "equal": "OSame",
       "unify": "OSame", "unify_fresh": "OSame", "assert": "OSame", "findall": "OSame", "term_variables": "OTermVariables", "ground": "OGround",
       "length": "OLength", "sort": "OSort", "keysort": "OSort", "sort_terms": "OSame", "nodes": "ONodes", "atom_length": "OLength", "occurs_check": "OSame", "subsumes": "OSame", "acyclic": "OGround",
       "setof": "OSame", "univ": "OSame", "write_canonical": "OSame", "consulted": "OSame"}
ONLY = {"length": {"long_list", "deep_list", "long_string"}, "sort": {"long_list"}, "keysort": {"long_list"}, "atom_length": {"long_string"},
        "consulted": {"long_list", "right_nest", "left_nest", "deep_list", "long_string"}}


def clause_text(shape, n):
    """the text of the fact consulted_fact(<term>). (consulting goes through the harness' consult channel, not through a query)"""
    t = {"right_nest": lambda: "f(" * n + "a" + ")" * n,
         "left_nest": lambda: "a" + "+b" * n,
         "deep_list": lambda: "[" * (n + 1) + "]" * (n + 1),
         "long_list": lambda: "[" + ",".join(str(i) for i in range(1, n + 1)) + "]",
         "long_string": lambda: '"' + "x" * n + '"'}[shape]()
    return "consulted_fact(%s).\n" % t


def ops_for(shape):
    return [o for o in OPS if o not in ONLY or shape in ONLY[o]]


def query(op, shape, n):
    return "run(%s,%s,%d,R)." % (op, shape, n)


def classify(ans, ms, timeout_ms):
    """-> (kind, payload): kind in value | resource | fail | error | timeout | panic | odd"""
    if not isinstance(ans, list) or not ans: return "odd", json.dumps(ans)[:200]
    a = ans[0]
    if isinstance(a, dict) and "panic" in a: return "panic", a["panic"][:200]
    if isinstance(a, dict) and "b" in a and "R" in a["b"]:
        r = a["b"]["R"]
        if "i" in r: return "value", ("int", int(r["i"]))
        if "a" in r: return "value", ("atom", r["a"])
        if "c" in r and r["c"][0] == "resource_error": return "resource", json.dumps(r["c"][1:])[:100]
        return "error", json.dumps(r)[:200]
    if a == "false": return "fail", "false"
    if ms is not None and ms >= timeout_ms: return "timeout", json.dumps(a)[:200]
    return "odd", json.dumps(a)[:200]


def run(ctx):
    rng = ctx.rng
    bases = [1000, 10000, 100000] + ([1000000] if ctx.thorough else [])
    sizes = [b + rng.randrange(0, b // 10) for b in bases]      # closed forms hold for every n: each seed uses other sizes
    top = sizes[-1] if not ctx.thorough else sizes[-2]          # from this size on, one process per operation
    jobs, meta = [], {}
    def tmo(n): return 60000 if n <= 150000 else 900000
    for shape in SHAPES:
        for n in sizes:
            ops = ops_for(shape)
            if "consulted" in ops:
                ops = [o for o in ops if o != "consulted"]
                jid = "%s/%d/consulted" % (shape, n)
                jobs.append({"id": jid, "consult": SUPPORT + clause_text(shape, n), "queries": [query("consulted", shape, n)], "fresh": True, "timeout_ms": tmo(n)})
                meta[jid] = (shape, n, ["consulted"])
            if n >= top:
                for op in ops:
                    jid = "%s/%d/%s" % (shape, n, op)
                    jobs.append({"id": jid, "consult": SUPPORT, "queries": [query(op, shape, n)], "fresh": True, "timeout_ms": tmo(n)})
                    meta[jid] = (shape, n, [op])
            else:
                jid = "%s/%d" % (shape, n)
                jobs.append({"id": jid, "consult": SUPPORT, "queries": [query(op, shape, n) for op in ops], "fresh": True, "timeout_ms": tmo(n) * 3})
                meta[jid] = (shape, n, ops)
    # largest first, so that the long single operations do not end up at the tail of one shard
    jobs.sort(key=lambda j: -meta[j["id"]][1])
    t0 = time.time()
    res = core.vrun_query(ctx.prop, jobs, tag="q", timeout=3600)
    # a crashed multi-operation job: run its operations one per process to pin the operation
    redo = []
    for j in jobs:
        r = res.get(j["id"])
        shape, n, ops = meta[j["id"]]
        if len(ops) > 1 and (r is None or "results" not in r or not isinstance(r["results"], list)):
            for op in ops:
                jid = "%s/%d/%s" % (shape, n, op)
                redo.append({"id": jid, "consult": SUPPORT + (clause_text(shape, n) if op == "consulted" else ""), "queries": [query(op, shape, n)], "fresh": True, "timeout_ms": tmo(n)})
                meta[jid] = (shape, n, [op])
            del meta[j["id"]]
    if redo:
        res.update(core.vrun_query(ctx.prop, redo, tag="q2", timeout=3600))
    t_run = time.time() - t0

    failures, tie_breaks = [], []
    bools, binfo = [], []
    dist = {"outcomes": {}, "by_size": {}, "slowest_ms": {}, "run_s": round(t_run, 1)}
    nontriv = set()
    crashed = []
    for jid, (shape, n, ops) in sorted(meta.items()):
        r = res.get(jid)
        if r is None or "results" not in r or not isinstance(r.get("results"), list):
            kind = "hang" if r and r.get("hang") else "crash"
            op = ops[0] if len(ops) == 1 else "?"
            dist["outcomes"][kind] = dist["outcomes"].get(kind, 0) + 1
            nontriv.add((shape, n, op))
            crashed.append((shape, n, op, kind, r))
            continue
        dist["slowest_ms"][shape] = max(dist["slowest_ms"].get(shape, 0), r.get("ms", 0))
        for op, ans in zip(ops, r["results"]):
            kind, payload = classify(ans, r.get("ms"), tmo(n) * (3 if len(ops) > 1 else 1))
            dist["outcomes"][kind] = dist["outcomes"].get(kind, 0) + 1
            dist["by_size"][str(n)] = dist["by_size"].get(str(n), 0) + 1
            inp = "consult the support program of checks/C34.py; ?- %s" % query(op, shape, n)
            if n >= 10000: nontriv.add((shape, n, op))
            if kind == "value":
                obs = "(ObsInt %d)" % payload[1] if payload[0] == "int" else "(ObsAtom [%s])" % ";".join("%d%%N" % ord(c) for c in payload[1])
                bools.append("check %s %s %d %s" % (SHAPES[shape], OPS[op], n, obs)); binfo.append((shape, n, op, payload, inp))
            elif kind == "resource":
                pass
            elif kind in ("panic", "timeout"):
                failures.append({"key": "large-term:%s:%s:%s" % (kind, shape, op), "what": "the operation %s on a %s of size %d" % ("panicked" if kind == "panic" else "did not finish in time", shape, n),
                                 "input": inp, "impl": str(payload), "spec": "an answer or error(resource_error(_),_)", "property_fails": True})
            else:
                failures.append({"key": "large-term:wrong-answer:%s:%s" % (shape, op), "what": "the operation neither succeeded with the model's answer nor raised a resource error (size %d)" % n,
                                 "input": inp, "impl": str(payload), "spec": "the closed form of coq/C34 or error(resource_error(_),_)", "property_fails": True})

    # crashes: look for the smallest crashing size among a few smaller ones (evidence only), then report
    if crashed:
        probe, pmeta = [], {}
        for shape, n, op, kind, r in crashed:
            if op == "?": continue
            for frac in (0.75, 0.5, 0.35, 0.25):
                m = int(n * frac)
                jid = "p/%s/%d/%s" % (shape, m, op)
                probe.append({"id": jid, "consult": SUPPORT + (clause_text(shape, m) if op == "consulted" else ""), "queries": [query(op, shape, m)], "fresh": True, "timeout_ms": tmo(m)})
                pmeta[jid] = (shape, n, op, m)
        pres = core.vrun_query(ctx.prop, probe, tag="q3", timeout=3600) if probe else {}
        seen = set()
        for shape, n, op, kind, r in sorted(crashed, key=lambda c: (c[0], c[2], c[1])):
            key = "large-term:%s:%s:%s" % (kind, shape, op)
            if key in seen: continue
            seen.add(key)
            sm, ok = n, None
            for jid, (s2, n2, o2, m) in sorted(pmeta.items(), key=lambda x: -x[1][3]):
                if (s2, n2, o2) != (shape, n, op): continue
                pr = pres.get(jid)
                if pr is None or "results" not in pr: sm = min(sm, m)
                elif ok is None: ok = m
            failures.append({"key": key,
                             "what": "the process %s during %s on a %s of size %d (smallest size seen to do so: %d%s)" % (
                                 "hung" if kind == "hang" else "died (exit status %s)" % (r or {}).get("crash"), op, shape, n, sm,
                                 ", size %d still answers" % ok if ok else ""),
                             "input": "fresh machine; consult the support program of checks/C34.py%s; ?- %s" % (" followed by the fact consulted_fact(<the %s of size %d as text>)" % (shape, n) if op == "consulted" else "", query(op, shape, n)),
                             "impl": ((r or {}).get("stderr") or json.dumps(r))[-300:].strip(), "spec": "an answer or error(resource_error(_),_); the process survives",
                             "property_fails": True})

    bad, errs = core.coq_eval_bools(ctx.prop, IMPORTS, bools, chunk=60, timeout=900)
    for _, t in errs:
        tie_breaks.append({"kind": "coq-eval", "what": "model evaluation shard failed", "detail": t})
    seen = set()
    for j in bad:
        shape, n, op, payload, inp = binfo[j]
        key = "large-term:wrong-answer:%s:%s" % (shape, op)
        if key in seen: continue
        seen.add(key)
        spec = core.coq_eval_show(ctx.prop, IMPORTS, "expect %s %s (N.to_nat %d)" % (SHAPES[shape], OPS[op], n)) if n <= 20000 and len(seen) <= 3 else "closed form of coq/C34/Model.v expect"
        failures.append({"key": key, "what": "the answer differs from the closed form proved for the builder (size %d)" % n,
                         "input": inp, "impl": str(payload), "spec": spec[:600], "property_fails": True})
    samples = [{"query": b[4][-60:], "answer": str(b[3])} for b in binfo[:3] + binfo[-3:]]
    return {"evaluations": len(bools), "distinct_nontrivial": len(nontriv),
            "rule": ("case = (shape, size, operation): 6 shapes x sizes about 10^3, 10^4, 10^5 (thorough: 10^6; the exact sizes depend on the seed) x up to 19 "
                     "operations, each a separate query under catch/3 on a term built inside Prolog; at the largest size each operation runs in its own "
                     "process. evaluations = answers compared with the Coq closed forms; non-trivial = distinct case of size >= 10^4 (beyond what unit tests "
                     "use) that ran to an answer, a resource error or a crash."),
            "samples": samples, "distribution": dist, "failures": failures, "tie_breaks": tie_breaks}
