"""C25 -- All-solutions predicates collect exactly the solutions."""
import sys
from vlib import core, terms

sys.path.insert(0, core.ROOT)
from gen import sld_common as S

META = {
    "level": "proof",
    "text": ("Coq theorems about findall/3,4, bagof/3, setof/3 and forall/2 of the reference interpreter Engine/Sld.v: findall_is_map_copy_solve (the result "
             "is the list of fresh copies of the ordered solution instances of a top-level run of the goal), findall4_is_append, "
             "exception_in_generator_propagates_and_leaves_no_residue, bagof_groups_partition_solutions (+ non-empty, variant witnesses), "
             "bagof_fails_without_solutions, setof_is_sorted_bagof_partial, forall_is_double_negation. The implementation (builtins.pl findall/bagof/setof, "
             "the lifted heap, iso_ext.pl forall) is tied to the model by random generator goals from the C07 space with templates sharing variables "
             "with goal and context, nested all-solutions calls, ^, free variables, and a throw at the k-th solution followed by a second findall."),
    "note": ("Trusted: Coq kernel + vm_compute; Engine/Sld.v as the statement of ISO 8.10 (free-variable witness per 7.1.1.4, solutions key-sorted by witness "
             "and grouped by variant witnesses, setof sorts pairs in the standard order restricted to Var < Int < Atom < compound); gen/sld_common.py; "
             "harness vrun. countall/2 and call_nth/2 and attributed variables in templates are NOT covered. setof_is_sorted_bagof_partial assumes the "
             "antisymmetry of the model's term order on the collected terms. The lifted-heap copy (system_calls.rs, copier.rs) is differential only."),
    "technique": "Coq proof (findall/bagof/setof/forall laws of the reference interpreter) + differential correspondence evaluated in Coq",
    "design_ref": "DESIGN.md section 8, C25",
    "coq_targets": ["C25/Props.vo"],
    "coq_dirs": ["Engine", "C25"],
    "props": "C25/Props.v",
    "trusted_base": ["Coq 8.16.1 kernel, vm_compute (no native_compute)", "gen/sld_common.py (generator, serialisers)",
                     "harness/vrun + tools/vlib (correspondence)", "Engine/Sld.v as the statement of ISO 8.10 all-solutions semantics"],
    "assumptions": ["bagof/setof witnesses and setof solutions that are still unbound variables are ordered by variable age in the implementation; "
                    "the model orders them by creation number (agrees on the generated cases, dropped from comparison nowhere)"],
}

FEATS = {"cut": 1, "ite": 1, "naf": 1, "call": 1, "types": 1, "arith": 1, "catch": 1, "throw": 1, "log": 1, "findall": 1, "bagof": 1}


def contains(t, names):
    if t[0] == "cmp":
        return (t[1] in names) or any(contains(x, names) for x in t[2])
    return False


ALLSOL = ("findall", "bagof", "setof", "forall")


def caret_in_bagof(t):
    if t[0] != "cmp": return False
    if t[1] in ("bagof", "setof") and len(t[2]) == 3 and t[2][1][0] == "cmp" and t[2][1][1] == "^":
        return True
    return any(caret_in_bagof(x) for x in t[2])


def key_fn(prog, q, o=None):
    k = S.failure_key(prog, q, o)
    if (caret_in_bagof(q) or any(caret_in_bagof(b) for _, b in prog)):
        return "bagof-setof-caret-with-remaining-free-variables-fails"
    return k


def make_queries(g, rng):
    """besides the generator's queries: all-solutions goals over the program's predicates, and the throw-at-k-th-solution shape"""
    x = rng.random()
    V, C, A, I = S.V, S.C, S.A, S.I
    name, ar = rng.choice(g.preds)
    args = [V("Q%d" % i) for i in range(ar)]
    goal = C(name, *args) if ar else A(name)
    tv = [a for a in args]
    tmplv = args[0] if args else A("t")
    if x < 0.3:
        return g.query()
    if x < 0.45:
        q = C("findall", tmplv if rng.random() < 0.5 else C("-", tmplv, V("Q1")), goal, V("L"))
        return q, C("ans", V("L"), *args)
    if x < 0.6:
        gg = goal
        if ar >= 2 and rng.random() < 0.5:
            gg = C("^", args[1], gg)
            if ar >= 3 and rng.random() < 0.5:
                gg = C("^", args[2], gg)
        q = C(rng.choice(["bagof", "setof"]), tmplv, gg, V("L"))
        return q, C("ans", V("L"), *args)
    if x < 0.75:
        k = rng.choice([1, 2, 3])
        N = V("N")
        gen = S.conj([goal, C("log", tmplv)])
        # throw at the k-th solution (counted through the log side effect is not possible in the model: count by findall prefix)
        inner = S.conj([goal, C(";", C("->", C("==", tmplv, g.ground(1)), C("throw", C("stop", tmplv))), S.TRUE)])
        q = S.conj([C("catch", C("findall", tmplv, inner, V("L1")), C("stop", V("B")), C("=", V("L1"), A("caught"))),
                    C("findall", tmplv, goal, V("L2"))])
        return q, C("ans", V("L1"), V("B"), V("L2"))
    if x < 0.88:
        q = C("forall", goal, g.goals([a[1] for a in args] or ["Q0"], g.preds, 0, 1))
        return q, C("ans", *args) if args else A("ans")
    q = C("findall", C("-", tmplv, V("L")), S.conj([goal, C("findall", V("Y"), goal, V("L"))]), V("LL")) if not args else \
        C("findall", C("-", tmplv, V("L")), S.conj([goal, C("findall", V("Y"), C(name, *([V("Y")] + args[1:])), V("L"))]), V("LL"))
    return q, C("ans", V("LL"), *args)


def group_corpus():
    """bagof/setof over facts whose witness holds a variable the generator leaves unbound next to a part that varies in an
    interleaved, unsorted order (the groups must still be merged: the witness variables are unified before the sort), with
    the free variable before/after/inside the varying part, and templates of one or two variables.  No ^ (known finding)."""
    V, C, A, I = S.V, S.C, S.A, S.I
    out = []
    n = 0
    for zs in (["b", "a", "b"], ["a", "b", "a"], ["b", "b", "a"], ["c", "a", "c", "b", "a"], ["a", "a", "a"]):
        for shape in ("var_first", "var_last", "var_in_struct", "no_var", "shared_var"):
            name = "cb%d_p" % n; n += 1
            prog = []
            for k, z in enumerate(zs):
                anon = V("_A%d" % k)
                if shape == "var_first": args = [I(k + 1), anon, A(z)]
                elif shape == "var_last": args = [I(k + 1), A(z), anon]
                elif shape == "var_in_struct": args = [I(k + 1), C("f", anon, A(z)), A("w")]
                elif shape == "no_var": args = [I(k + 1), A("w"), A(z)]
                else: args = [I(k + 1), C("g", anon), C("h", anon, A(z))]
                prog.append((C(name, *args), S.TRUE))
            X, Y, Z, Lv = V("X"), V("Y"), V("Z"), V("L")
            qs = []
            for pred in ("bagof", "setof"):
                qs.append((C(pred, X, C(name, X, Y, Z), Lv), C("ans", Lv, Y, Z)))
                qs.append((C(pred, C("-", X, Y), C(name, X, Y, Z), Lv), C("ans", Lv, Z)))
            qs.append((C("findall", C("-", Lv, Z), C("bagof", X, C(name, X, Y, Z), Lv), V("LL")), C("ans", V("LL"))))
            out.append((prog, qs))
    return out


def run(ctx):
    nprog = ctx.scale(900, 1350)
    ev, nontrivial, dist, failures, tie_breaks, samples = S.run_differential(
        ctx, FEATS, nprog, check_fn="check_run", log=True, make_queries=make_queries, key_fn=key_fn, est_limits=(80, 1500), corpus=group_corpus(),
        nontrivial_fn=lambda prog, q, o: (contains(q, ALLSOL) or any(contains(b, ALLSOL) for _, b in prog)) and bool(o[1] or o[2] is not None))
    return {"evaluations": ev, "distinct_nontrivial": len(nontrivial),
            "rule": ("a fixed corpus of 25 bagof/setof grouping programs (witness with an unbound variable before/after/inside a part that varies in interleaved order), then random programs over the C07 control constructs plus findall/3, findall/4, bagof/3, setof/3 (with ^ and free variables), forall/2, "
                     "catch/throw and log/1 in clause bodies (nested all-solutions calls arise from nesting <= 3); queries: generator queries, "
                     "findall/bagof/setof over a program predicate with templates sharing variables with goal and context, findall inside findall, forall, "
                     "and catch(findall(.., (Goal, (X == K -> throw(stop(X)) ; true)), L1), stop(B), ..), findall(.., Goal, L2) (no residue after an exception "
                     "in the generator); ordered answers, exception and log compared with Sld.solve in Coq; non-trivial = distinct (program, query) "
                     "using an all-solutions predicate, with an answer or exception, agreeing with the model"),
            "samples": samples, "distribution": dist, "failures": failures, "tie_breaks": tie_breaks}
