"""C53 -- library(ugraphs): results match the graph-theoretic definitions."""
import itertools, json, time
from vlib import core, terms

META = {
    "level": "proof",
    "text": ("Coq theorems over a model of src/lib/ugraphs.pl (graphs as strictly sorted association lists): every operation preserves the "
             "representation invariant, and its vertex set and edge set are exactly the mathematical ones (graph_extensionality makes that "
             "determine the returned list); the Warshall loop of transitive_closure/2 (mirrored arm by arm) is proved to compute the path "
             "relation (paths of length >= 1, least transitive superset); reachable/3 = start vertex plus path targets; transpose is an "
             "involution; the top_sort checker is sound and complete for the inductive definition and a topological order exists iff the graph "
             "is acyclic. The model is tied to the implementation differentially: all 531 graphs on <= 3 vertices (self-loops included) and random "
             "graphs on <= 7 vertices (integer vertices and a pool of mixed terms mapped order-preservingly), every predicate compared exactly "
             "inside Coq, top_sort/2 by validity."),
    "note": ("Trusted: Coq kernel + vm_compute; the model's operations other than transitive_closure are specifications (set-defined), not "
             "mirrors of the Prolog clauses -- the tie to the clauses is the differential run only; vertices are integers in the model, the "
             "standard order of the mixed vertex pool is assumed (and re-checked against sort/2 in every run); top_sort/3 and connect_ugraph/3 "
             "are not covered. No axioms."),
    "technique": ("Coq proof (representation_invariant_preserved, *_spec, transitive_closure_spec, transpose_involutive, reachable_spec, "
                  "top_sort_spec, top_order_exists_iff_acyclic) over a reference model (Warshall part: impl-mirror) + differential "
                  "correspondence evaluated in Coq"),
    "design_ref": "DESIGN.md section 8, C53",
    "coq_targets": ["C53/Props.vo"],
    "coq_dirs": ["C53"],
    "props": "C53/Props.v",
    "trusted_base": ["Coq 8.16.1 kernel, vm_compute (no native_compute)", "harness/vrun + tools/vlib (correspondence)",
                     "checks/C53.py generator and term <-> integer vertex mapping"],
    "assumptions": ["the mixed vertex pool is in ascending standard order (re-checked against sort/2 of the implementation in every run)",
                    "graph arguments are well-formed S-representations (the library's documented precondition); neighbours need not be vertices"],
}

IMPORTS = "From V Require Import C53.Model."
LIB = ":- use_module(library(ugraphs)).\n"

# ascending standard order as implemented (ISO 7.2): floats, integers, atoms, compounds by arity/name/args
POOL = [terms.flt(0.5), terms.flt(1.0), ("int", -7), ("int", 1), ("int", 10), ("atom", "B"), ("atom", "a"), ("atom", "ab"),
        ("atom", "b"), ("cmp", "f", [("atom", "a")]), ("cmp", "g", [("int", 0)]), ("cmp", "f", [("atom", "a"), ("atom", "b")])]


def freeze(t):
    return (t[0], t[1], tuple(freeze(x) for x in t[2])) if t[0] == "cmp" else tuple(t)


POOL_INDEX = {freeze(t): i for i, t in enumerate(POOL)}


class Enc:
    """vertex encoding: model integer <-> Prolog term"""
    def __init__(self, kind):
        self.kind = kind

    def text(self, v):
        return terms.arg_text(("int", v)) if self.kind == "int" else terms.arg_text(POOL[v])

    def back(self, t):
        if self.kind == "int":
            return t[1] if t[0] == "int" else None
        return POOL_INDEX.get(freeze(t))


# ---------------------------------------------------------------- text forms
def g_text(g, enc):
    return "[" + ",".join("%s-[%s]" % (enc.text(v), ",".join(enc.text(n) for n in ns)) for v, ns in g) + "]"


def l_text(l, enc):
    return "[" + ",".join(enc.text(v) for v in l) + "]"


def e_text(es, enc):
    return "[" + ",".join("%s-%s" % (enc.text(a), enc.text(b)) for a, b in es) + "]"


def g_coq(g):
    return "[" + "; ".join("((%d), [%s])" % (v, "; ".join("(%d)" % n for n in ns)) for v, ns in g) + "]"


def l_coq(l):
    return "[" + "; ".join("(%d)" % v for v in l) + "]"


def e_coq(es):
    return "[" + "; ".join("((%d), (%d))" % (a, b) for a, b in es) + "]"


# op -> (prolog name, Coq constructor, argument kinds, result kind)
OPS = {
    "veu": ("vertices_edges_to_ugraph", "QVeu", "le", "g"),
    "vertices": ("vertices", "QVertices", "g", "l"),
    "edges": ("edges", "QEdges", "g", "e"),
    "add_vertices": ("add_vertices", "QAddV", "gl", "g"),
    "del_vertices": ("del_vertices", "QDelV", "gl", "g"),
    "add_edges": ("add_edges", "QAddE", "ge", "g"),
    "del_edges": ("del_edges", "QDelE", "ge", "g"),
    "neighbours": ("neighbours", "QNeighbours", "vg", "l"),
    "neighbors": ("neighbors", "QNeighbours", "vg", "l"),
    "transpose": ("transpose_ugraph", "QTranspose", "g", "g"),
    "compose": ("compose", "QCompose", "gg", "g"),
    "transitive_closure": ("transitive_closure", "QTc", "g", "g"),
    "reachable": ("reachable", "QReachable", "vg", "l"),
    "complement": ("complement", "QComplement", "g", "g"),
    "ugraph_union": ("ugraph_union", "QUnion", "gg", "g"),
    "top_sort": ("top_sort", "QTopSort", "g", "l"),
}


def arg_text(kind, a, enc):
    return {"g": g_text, "l": l_text, "e": e_text, "v": lambda v, e: e.text(v)}[kind](a, enc)


def arg_coq(kind, a):
    return {"g": g_coq, "l": l_coq, "e": e_coq, "v": lambda v: "(%d)" % v}[kind](a)


def query_text(case):
    op, args, enc = case
    name, _, kinds, _ = OPS[op]
    return "%s(%s,R)." % (name, ",".join(arg_text(k, a, enc) for k, a in zip(kinds, args)))


def query_coq(case, names=None):
    """Coq `query`; graph arguments whose literal is in `names` are replaced by the bound name"""
    op, args, _ = case
    _, con, kinds, _ = OPS[op]
    parts = []
    for k, a in zip(kinds, args):
        t = arg_coq(k, a)
        parts.append(names[t] if names and k == "g" and t in names else t)
    return "(%s %s)" % (con, " ".join(parts))


def unit_coq(unit, cases, outs):
    """one bool expression for a list of case indices; graphs that occur several times are let-bound"""
    if len(unit) == 1:
        i = unit[0]
        return "(check %s %s)%%Z" % (query_coq(cases[i]), outs[i][0])
    count = {}
    for i in unit:
        for k, a in zip(OPS[cases[i][0]][2], cases[i][1]):
            if k == "g":
                t = g_coq(a)
                count[t] = count.get(t, 0) + 1
    names = {t: "g%d" % n for n, t in enumerate(t for t, c in count.items() if c > 1)}
    body = "check_all [%s]" % "; ".join("(%s, %s)" % (query_coq(cases[i], names), outs[i][0]) for i in unit)
    for t, nm in names.items():
        body = "let %s : graph := %s in %s" % (nm, t, body)
    return "(%s)%%Z" % body


def split_top(s):
    """split the printed Coq list '[a; b; c]' at its top-level semicolons"""
    s = s.strip()
    if not (s.startswith("[") and s.endswith("]")):
        return [s]
    out, depth, cur = [], 0, []
    for ch in s[1:-1]:
        if ch in "([": depth += 1
        elif ch in ")]": depth -= 1
        if ch == ";" and depth == 0:
            out.append("".join(cur).strip()); cur = []
        else:
            cur.append(ch)
    if "".join(cur).strip():
        out.append("".join(cur).strip())
    return out


# ---------------------------------------------------------------- decoding the implementation's answer
def decode_list(t, enc):
    items, tail = terms.list_view(t)
    if tail != terms.NIL:
        return None
    out = [enc.back(x) for x in items]
    return None if any(x is None for x in out) else out


def decode(result, kind, enc):
    """-> (coq result expression, short text)"""
    ans = terms.answers(result)
    if ans and ans[-1] == ("false",):
        ans = ans[:-1]
    if not ans:
        return "RFail", "fails"
    if len(ans) != 1 or ans[0][0] != "sol" or "R" not in ans[0][1]:
        return "ROther", json.dumps(result)[:300]
    t = ans[0][1]["R"]
    text = terms.to_prolog(t) if not terms.term_vars(t) else "<non-ground> " + json.dumps(result)[:200]
    if kind == "l":
        l = decode_list(t, enc)
        return ("ROther", text) if l is None else ("(RList %s)" % l_coq(l), text)
    items, tail = terms.list_view(t)
    if tail != terms.NIL:
        return "ROther", text
    out = []
    for x in items:
        if not (x[0] == "cmp" and x[1] == "-" and len(x[2]) == 2):
            return "ROther", text
        a = enc.back(x[2][0])
        b = enc.back(x[2][1]) if kind == "e" else decode_list(x[2][1], enc)
        if a is None or b is None:
            return "ROther", text
        out.append((a, b))
    return ("(RPairs %s)" % e_coq(out) if kind == "e" else "(RGraph %s)" % g_coq(out)), text


# ---------------------------------------------------------------- generators
def all_graphs(labels):
    """every closed graph (self-loops allowed) on exactly these vertices"""
    n = len(labels)
    for bits in itertools.product([0, 1], repeat=n * n):
        yield [(labels[i], [labels[j] for j in range(n) if bits[i * n + j]]) for i in range(n)]


def random_graph(rng, universe, nmax):
    n = rng.randint(0, nmax)
    vs = sorted(rng.sample(universe, n))
    p = rng.choice([0.1, 0.2, 0.3, 0.5, 0.7])
    dag = rng.random() < 0.5
    perm = vs[:]
    rng.shuffle(perm)
    rank = {v: i for i, v in enumerate(perm)}
    dangling = rng.random() < 0.25
    others = [u for u in universe if u not in vs]
    g = []
    for v in vs:
        ns = [w for w in vs if rng.random() < p and (not dag or rank[v] < rank[w])]
        if dangling and others and rng.random() < 0.4:
            ns = sorted(set(ns + rng.sample(others, min(len(others), rng.randint(1, 2)))))
        g.append((v, ns))
    return g


def rand_list(rng, universe, g, mode):
    vs = [v for v, _ in g]
    if mode == "subset":                       # distinct vertices of the graph
        return rng.sample(vs, rng.randint(0, len(vs)))
    if mode == "distinct":                     # distinct, any
        return rng.sample(universe, rng.randint(0, min(4, len(universe))))
    return [rng.choice(universe) for _ in range(rng.randint(1, 5))]   # anything, duplicates likely


def rand_edges(rng, universe, g):
    vs = [v for v, _ in g] or universe
    es = []
    for _ in range(rng.randint(0, 5)):
        r = rng.random()
        if r < 0.4 and any(ns for _, ns in g):
            v, ns = rng.choice([p for p in g if p[1]])
            es.append((v, rng.choice(ns)))      # an existing edge
        elif r < 0.8:
            es.append((rng.choice(vs), rng.choice(vs)))
        else:
            es.append((rng.choice(universe), rng.choice(universe)))
    if es and rng.random() < 0.3:
        es.append(rng.choice(es))
    return es


def graph_cases(rng, g, enc, universe, partner, k):
    """the cases run on one graph; k alternates the spelling neighbours/neighbors"""
    vs = [v for v, _ in g]
    es = [(v, w) for v, ns in g for w in ns]
    out = [("vertices", (g,), enc), ("edges", (g,), enc), ("transpose", (g,), enc), ("transitive_closure", (g,), enc),
           ("complement", (g,), enc), ("top_sort", (g,), enc)]
    nonv = [u for u in universe if u not in vs]
    probe = vs + (rng.sample(nonv, 1) if nonv else [])
    for v in probe:
        out.append(("neighbours" if k % 2 == 0 else "neighbors", (v, g), enc))
        out.append(("reachable", (v, g), enc))
    # vertices_edges_to_ugraph: rebuild the graph from shuffled vertices/edges with duplicates, and from a partial vertex list
    sv = vs + rng.sample(vs, len(vs) // 2)
    se = es + rng.sample(es, len(es) // 2)
    rng.shuffle(sv); rng.shuffle(se)
    out.append(("veu", (sv, se), enc))
    out.append(("veu", (rand_list(rng, universe, g, "any")[: rng.randint(0, 3)], rand_edges(rng, universe, g)), enc))
    out.append(("add_vertices", (g, rand_list(rng, universe, g, "distinct")), enc))
    if len(g) > 3 or rng.random() < 0.4:
        out.append(("add_vertices", (g, rand_list(rng, universe, g, "any")), enc))
    out.append(("del_vertices", (g, rand_list(rng, universe, g, "subset")), enc))
    if len(g) > 3 or rng.random() < 0.4:
        out.append(("del_vertices", (g, rand_list(rng, universe, g, "any")), enc))
    out.append(("add_edges", (g, rand_edges(rng, universe, g)), enc))
    out.append(("del_edges", (g, rand_edges(rng, universe, g)), enc))
    out.append(("compose", (g, partner), enc))
    out.append(("compose", (partner, g), enc))
    out.append(("ugraph_union", (g, partner), enc))
    return out


def category(case, out=None):
    """stable sub-key of a failing case: the input feature (or error) that the known defects depend on"""
    op, args, _ = case
    if out is not None and out[0] == "ROther" and "type_error" in out[1] and '"sort"' in out[1]:
        return "sort2-type-error-on-char-prefixed-list"
    if op == "add_vertices":
        return "duplicate-in-vertex-list" if len(set(args[1])) < len(args[1]) else "distinct-vertex-list"
    if op == "del_vertices":
        vs = set(v for v, _ in args[0])
        return "vertex-list-names-absent-vertex" if any(v not in vs for v in args[1]) else "vertex-list-within-graph"
    return "mismatch"


def case_size(case):
    return len(query_text(case))


def has_edge(a):
    return isinstance(a, list) and any(isinstance(p, tuple) and isinstance(p[1], list) and p[1] for p in a)


SOLO = ("duplicate-in-vertex-list", "vertex-list-names-absent-vertex")   # evaluated one by one (see category)


def run(ctx):
    t0 = time.time()
    rng = ctx.rng
    tie_breaks, failures = [], []
    ENC_I, ENC_M = Enc("int"), Enc("mixed")
    groups = []          # one list of cases per graph (or per block of graph pairs)
    dist = {"ops": {}, "encoding": {"int": 0, "mixed": 0}, "graphs_exhaustive": 0, "graphs_random": 0, "vertices": {},
            "closed": 0, "dangling": 0}

    # 1. exhaustive: every graph on <= 3 vertices (labels 1..n), integer vertices
    small = []
    for n in range(0, 4):
        small += list(all_graphs(list(range(1, n + 1))))
    uni_small = [0, 1, 2, 3, 4]
    for k, g in enumerate(small):
        partner = rng.choice(small) if rng.random() < 0.7 else random_graph(rng, uni_small, 4)
        groups.append(graph_cases(rng, g, ENC_I, uni_small, partner, k))
        dist["graphs_exhaustive"] += 1
    # all pairs of graphs on <= 2 vertices for the two binary graph operations
    tiny = [g for g in small if len(g) <= 2]
    for a in tiny:
        groups.append([(op, (a, b), ENC_I) for b in tiny for op in ("compose", "ugraph_union")])

    # 2. random graphs on <= 7 vertices, integer or mixed-term vertices, a quarter with neighbours that are not vertices
    nrand = ctx.scale(220, 6000)
    for k in range(nrand):
        if rng.random() < 0.5:
            enc, universe = ENC_M, list(range(len(POOL)))
        else:
            enc, universe = ENC_I, list(range(-3, 11))
        g = random_graph(rng, universe, 7)
        partner = random_graph(rng, universe, 6)
        groups.append(graph_cases(rng, g, enc, universe, partner, k))
        dist["graphs_random"] += 1
        dist["vertices"][len(g)] = dist["vertices"].get(len(g), 0) + 1
        vs = set(v for v, _ in g)
        if all(w in vs for _, ns in g for w in ns): dist["closed"] += 1
        else: dist["dangling"] += 1

    # distinct cases only
    seen, cases, owner = set(), [], []
    for gi, grp in enumerate(groups):
        for c in grp:
            key = query_text(c)
            if key not in seen:
                seen.add(key); cases.append(c); owner.append(gi)

    # 3. implementation
    B = 40
    jobs = []
    for i in range(0, len(cases), B):
        jobs.append({"id": str(i), "consult": LIB, "queries": [query_text(c) for c in cases[i:i + B]],
                     "max_answers": 3, "timeout_ms": 20000, "fresh": False})
    shuffled = POOL[:]
    rng.shuffle(shuffled)
    jobs.append({"id": "pool", "consult": "", "queries": ["sort([%s],R)." % ",".join(terms.arg_text(t) for t in shuffled + shuffled[:3])],
                 "max_answers": 2, "timeout_ms": 5000, "fresh": False})
    res = core.vrun_query(ctx.prop, jobs, tag="impl")
    pool_ok = False
    try:
        a = terms.answers(res["pool"]["results"][0])
        items, tail = terms.list_view(a[0][1]["R"])
        pool_ok = [freeze(x) for x in items] == [freeze(t) for t in POOL]
    except Exception:
        pool_ok = False
    if not pool_ok:
        tie_breaks.append({"kind": "harness", "what": "the mixed vertex pool is not in the implementation's standard order (sort/2 disagrees)",
                           "detail": json.dumps(res.get("pool"))[:600]})

    outs = []
    for i in range(0, len(cases), B):
        r = res.get(str(i))
        for j, c in enumerate(cases[i:i + B]):
            if r is None or "results" not in r or j >= len(r["results"]):
                o = ("ROther", "no result: %s" % json.dumps(r)[:200])
            else:
                o = decode(r["results"][j], OPS[c[0]][3], c[2])
            outs.append(o)
            dist["ops"][c[0]] = dist["ops"].get(c[0], 0) + 1
            dist["encoding"][c[2].kind] += 1
    top = [(c, o) for c, o in zip(cases, outs) if c[0] == "top_sort"]
    dist["top_sort_succeeded"] = sum(1 for _, o in top if o[0].startswith("(RList"))
    dist["top_sort_failed"] = sum(1 for _, o in top if o[0] == "RFail")
    dist["reachable_failed"] = sum(1 for c, o in zip(cases, outs) if c[0] == "reachable" and o[0] == "RFail")

    # 4. model: every comparison is evaluated in Coq -- one expression per graph, then the members of failing groups one by one;
    # undecodable answers and the cases in the categories of the known defects are evaluated one by one from the start
    units, cur = [], {}
    for i, c in enumerate(cases):
        if outs[i][0] == "ROther" or category(c, outs[i]) in SOLO:
            units.append([i])
        else:
            cur.setdefault(owner[i], []).append(i)
    units += [u for _, u in sorted(cur.items())]
    t_impl = time.time() - t0
    def one(i):
        return unit_coq([i], cases, outs)

    exprs = [unit_coq(u, cases, outs) for u in units]
    chunk = max(40, -(-len(exprs) // core.NPROC))
    bad_units, errs = core.coq_eval_bools(ctx.prop, IMPORTS, exprs, chunk=chunk)
    tie_breaks += [{"kind": "coq-eval", "what": "model evaluation shard failed", "detail": t} for _, t in errs]
    bad = [units[k][0] for k in bad_units if len(units[k]) == 1]
    multi = [k for k in bad_units if len(units[k]) > 1]
    dist["coq_expressions"] = len(exprs)
    dist["failing_groups"] = len(multi)
    if multi:
        members = [i for k in multi[:80] for i in units[k]]
        mb, errs2 = core.coq_eval_bools(ctx.prop, IMPORTS, [one(i) for i in members], chunk=max(40, -(-len(members) // core.NPROC)), tag="members")
        tie_breaks += [{"kind": "coq-eval", "what": "model evaluation shard failed (members of failing groups)", "detail": t} for _, t in errs2]
        bad += [members[j] for j in mb]
        if not mb and not errs2:
            tie_breaks.append({"kind": "coq-eval", "what": "a group of comparisons fails but none of its members does", "detail": exprs[multi[0]][:1500]})

    by_key = {}
    for i in bad:
        c = cases[i]
        by_key.setdefault("%s:%s" % (OPS[c[0]][0], category(c, outs[i])), []).append((c, outs[i]))
    dist["mismatches_by_key"] = {k: len(v) for k, v in by_key.items()}
    reported = []
    for key, lst in sorted(by_key.items()):
        lst.sort(key=lambda co: case_size(co[0]))
        reported += [(key, c, o, len(lst)) for c, o in lst[:2]]
    specs = {}
    showable = [r for r in reported if r[1][0] != "top_sort"]
    if showable:
        txt = core.coq_eval_show(ctx.prop, IMPORTS, "([%s])%%Z" % "; ".join("run %s" % query_coq(r[1]) for r in showable))
        m = txt[txt.find("["):txt.rfind("]") + 1]
        parts = split_top(m)
        if len(parts) == len(showable):
            specs = {query_text(r[1]): p for r, p in zip(showable, parts)}
        else:
            specs = {query_text(r[1]): "(all reported cases, in order) " + txt for r in showable}
    for key, c, o, n in reported:
        spec = specs.get(query_text(c), "any topological order of the graph (is_top_order), or failure iff none exists (cyclic, or a neighbour that is not a vertex)")
        failures.append({"key": key, "what": "%s/%d result differs from the graph-theoretic definition (%d such cases in this run)"
                         % (OPS[c[0]][0], len(OPS[c[0]][2]) + 1, n),
                         "input": query_text(c), "impl": o[1], "spec": spec, "vertex_encoding": c[2].kind, "property_fails": True})

    t_all = time.time() - t0
    nontrivial = set()
    for c in cases:
        if any(has_edge(a) for a in c[1]) or (c[0] == "veu" and c[1][1]):
            nontrivial.add(query_text(c))
    step = max(1, len(cases) // 10)
    samples = [{"query": query_text(c), "impl": o[1][:160]} for c, o in list(zip(cases, outs))[::step][:10]]
    return {
        "evaluations": len(cases),
        "distinct_nontrivial": len(nontrivial),
        "exhaustive": "all 531 graphs on <= 3 vertices (self-loops included) for every predicate; all 361 pairs of graphs on <= 2 vertices for compose/3 and ugraph_union/3",
        "rule": ("cases = (predicate, arguments): every graph on <= 3 vertices with integer vertices, plus random graphs on <= 7 vertices (half "
                 "DAG-biased, a quarter with neighbours that are not vertices, half with vertices from a 12-term pool of floats, integers, atoms and "
                 "compounds mapped order-preservingly to integers); for each graph: vertices, edges, transpose_ugraph, transitive_closure, complement, "
                 "top_sort, neighbours/neighbors and reachable for every vertex and one non-vertex, vertices_edges_to_ugraph on shuffled/duplicated "
                 "vertex and edge lists, add/del_vertices and add/del_edges with random lists (duplicates, absent vertices, existing and new edges), "
                 "compose and ugraph_union with a partner graph. The implementation's single answer (or failure) is decoded and compared in Coq "
                 "(check = exact equality with the model; top_sort by validity; the cases of one graph form one check_all expression, members of a "
                 "failing group are re-evaluated one by one). Non-trivial = distinct case whose graph argument (or edge list) has at least one edge."),
        "samples": samples,
        "notes": ["generation + implementation run %.1fs, Coq evaluation %.1fs" % (t_impl, t_all - t_impl)],
        "distribution": dist,
        "failures": failures,
        "tie_breaks": tie_breaks,
    }
