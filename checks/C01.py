"""C01 -- Integer arithmetic is exact at every magnitude."""
import json, os, re
from vlib import core

META = {
    "level": "proof",
    "text": ("Coq theorem eval_exact: the impl-mirror model of arithmetic_ops.rs (Fixnum/bignum case split, checked_* fallbacks, "
             "56-bit renormalisation, binary gcd, checked_signed_shl, shift-count clamps, binary_pow) equals the exact Z semantics "
             "for every nested expression and every magnitude; the mirror is tied to the code by regenerating the Fixnum bounds from "
             "src/parser/ast.rs and by running model and implementation (compiled and meta-call path) on boundary-biased expressions."),
    "note": ("Trusted: Coq kernel + vm_compute; dashu IBig operations are modelled as Z operations (+,-,*,quot,rem,gcd,shifts,land/lor/lxor/lnot); "
             "i64 checked_* as range tests on Z; Rust `<<` as two's-complement wrap; the translator gen/fixnum.py; the harness vrun; the Python generator."),
    "technique": "Coq refinement proof (impl-mirror = exact Z semantics) + regenerated constants + differential correspondence evaluated in Coq",
    "design_ref": "DESIGN.md section 8, C01",
    "coq_targets": ["C01/Props.vo"],
    "coq_dirs": ["C01", "Gen"],
    "props": "C01/Props.v",
    "trusted_base": ["Coq 8.16.1 kernel, vm_compute (no native_compute)", "gen/fixnum.py translator", "harness/vrun + tools/vlib (correspondence)",
                     "dashu IBig / Rust i64 primitives modelled, not verified"],
    "assumptions": ["dashu big-integer operations behave as the corresponding Z operations",
                    "left-shift counts in the correspondence are capped at 10^4 bits (larger results abort the process with OOM, see DESIGN.md section 10 item 9)"],
}


def gen(ctx):
    import importlib.util
    spec = importlib.util.spec_from_file_location("gen_fixnum", os.path.join(core.ROOT, "gen", "fixnum.py"))
    m = importlib.util.module_from_spec(spec)
    spec.loader.exec_module(m)
    m.generate(core.REPO, os.path.join(core.COQ, "Gen", "Fixnum.v"))


# ------------------------------------------------------------------ expressions
UN = {"neg": ("-", "ONeg"), "abs": ("abs", "OAbs"), "sign": ("sign", "OSign"), "bnot": ("\\", "OBnot"), "plus": ("+", "OPlus")}
BIN = {"add": ("+", "OAdd"), "sub": ("-", "OSub"), "mul": ("*", "OMul"), "idiv": ("//", "OIdiv"), "div": ("div", "ODiv"),
       "mod": ("mod", "OMod"), "rem": ("rem", "ORem"), "gcd": ("gcd", "OGcd"), "min": ("min", "OMin"), "max": ("max", "OMax"),
       "pow": ("^", "OPow"), "shl": ("<<", "OShl"), "shr": (">>", "OShr"), "and": ("/\\", "OAnd"), "or": ("\\/", "OOr"), "xor": ("xor", "OXor")}


def fix_bounds():
    s = open(os.path.join(core.COQ, "Gen", "Fixnum.v")).read()
    a = int(re.search(r"fix_min_bits : Z := (\d+)", s).group(1))
    b = int(re.search(r"fix_max_bits : Z := (\d+)", s).group(1))
    return -(1 << a), (1 << b) - 1


class TooBig(Exception):
    pass


LIMIT_BITS = 2500


def py_eval(e, trace=None):
    """Reference evaluation in Python (size control / non-triviality only; the oracle is the Coq spec)."""
    k = e[0]
    if k == "lit":
        v = e[1]
    elif k == "un":
        a = py_eval(e[2], trace)
        if a is None: return None
        o = e[1]
        v = {"neg": -a, "abs": abs(a), "sign": (a > 0) - (a < 0), "bnot": ~a, "plus": a}[o]
    else:
        o = e[1]
        a = py_eval(e[2], trace)
        if a is None: return None
        b = py_eval(e[3], trace)
        if b is None: return None
        if o in ("idiv", "div", "mod", "rem") and b == 0:
            return None
        if o == "add": v = a + b
        elif o == "sub": v = a - b
        elif o == "mul":
            if a.bit_length() + b.bit_length() > LIMIT_BITS: raise TooBig()
            v = a * b
        elif o == "idiv": v = abs(a) // abs(b) * (1 if (a < 0) == (b < 0) else -1)
        elif o == "div": v = a // b
        elif o == "mod": v = a % b
        elif o == "rem": v = a - b * (abs(a) // abs(b) * (1 if (a < 0) == (b < 0) else -1))
        elif o == "gcd":
            import math
            v = math.gcd(a, b)
        elif o == "min": v = min(a, b)
        elif o == "max": v = max(a, b)
        elif o == "pow":
            if b < 0:
                if a in (1, -1): v = a ** (-b)
                else: return None
            else:
                if abs(a) > 1 and b * max(1, abs(a).bit_length()) > LIMIT_BITS: raise TooBig()
                v = a ** b
        elif o in ("shl", "shr"):
            left = (o == "shl") == (b >= 0)
            c = abs(b)
            if left:
                if a != 0 and c + a.bit_length() > LIMIT_BITS: raise TooBig()
                if a == 0 and c > (1 << 70): raise TooBig()
                v = a << c if a != 0 else 0
            else:
                v = a >> min(c, 1 << 20) if c < (1 << 20) else (-1 if a < 0 else 0)
        elif o == "and": v = a & b
        elif o == "or": v = a | b
        elif o == "xor": v = a ^ b
    if trace is not None:
        trace.append(v)
    return v


def to_prolog(e):
    k = e[0]
    if k == "lit":
        return "(%d)" % e[1] if e[1] < 0 else str(e[1])
    if k == "un":
        return "%s(%s)" % (UN[e[1]][0], to_prolog(e[2])) if e[1] in ("abs", "sign") else "(%s (%s))" % (UN[e[1]][0], to_prolog(e[2]))
    f = BIN[e[1]][0]
    if e[1] in ("gcd", "min", "max", "xor"):
        return "%s(%s,%s)" % (f, to_prolog(e[2]), to_prolog(e[3]))
    return "((%s) %s (%s))" % (to_prolog(e[2]), f, to_prolog(e[3]))


def to_coq(e, fb):
    k = e[0]
    if k == "lit":
        return "(Lit (%s (%d)))" % ("Fix" if fb[0] <= e[1] <= fb[1] else "Big", e[1])
    if k == "un":
        return "(Un %s %s)" % (UN[e[1]][1], to_coq(e[2], fb))
    return "(Bin %s %s %s)" % (BIN[e[1]][1], to_coq(e[2], fb), to_coq(e[3], fb))


def subterms(e):
    yield e
    if e[0] == "un":
        yield from subterms(e[2])
    elif e[0] == "bin":
        yield from subterms(e[2])
        yield from subterms(e[3])


def size(e):
    return sum(1 for _ in subterms(e))


def operand_pool(rng):
    pool = [0, 1, -1, 2, -2, 3, -3, 7, -7]
    for k in (31, 32, 53, 55, 56, 62, 63, 64, 65, 100, 200):
        for d in (-2, -1, 0, 1, 2):
            pool += [(1 << k) + d, -(1 << k) + d]
    for _ in range(40):
        bits = rng.choice([8, 20, 54, 56, 60, 64, 70, 128, 400])
        pool.append(rng.getrandbits(bits) * rng.choice([1, -1]))
    return pool


SHL_COUNTS = [0, 1, 7, 8, 54, 55, 56, 62, 63, 64, 65, 70, 127, 128, 1000, 2000]
SHR_EXTRA = [1 << 31, (1 << 32) - 1, 1 << 32, 1 << 63, 1 << 64, 1 << 70]


def gen_cases(ctx):
    rng = ctx.rng
    pool = operand_pool(rng)
    cases = []
    n_pairs = ctx.scale(6000, 120000)
    n_nested = ctx.scale(3000, 80000)
    bins = list(BIN)
    for _ in range(n_pairs):
        o = rng.choice(bins)
        a = rng.choice(pool)
        if o in ("shl", "shr"):
            c = rng.choice(SHL_COUNTS + (SHR_EXTRA if rng.random() < 0.4 else []))
            if rng.random() < 0.3: c = -c
            b = c
        elif o == "pow":
            b = rng.choice(list(range(0, 8)) + [31, 32, 55, 56, 63, 64, 70, -1, -2, -3, -70, 1 << 40, -(1 << 70)])
        else:
            b = rng.choice(pool)
        cases.append(("bin", o, ("lit", a), ("lit", b)))
    for _ in range(n_pairs // 8):
        cases.append(("un", rng.choice(list(UN)), ("lit", rng.choice(pool))))

    def rnd(depth):
        if depth == 0 or rng.random() < 0.25:
            return ("lit", rng.choice(pool))
        if rng.random() < 0.15:
            return ("un", rng.choice(list(UN)), rnd(depth - 1))
        o = rng.choice(bins)
        if o in ("shl", "shr"):
            c = rng.choice(SHL_COUNTS[:12]) * rng.choice([1, 1, -1])
            return ("bin", o, rnd(depth - 1), ("lit", c))
        if o == "pow":
            return ("bin", o, rnd(depth - 1), ("lit", rng.choice([0, 1, 2, 3, 5, 17, -1, -2])))
        return ("bin", o, rnd(depth - 1), rnd(depth - 1))
    for _ in range(n_nested):
        cases.append(rnd(rng.choice([2, 3, 4])))
    # shrink-back-through-bignum forms
    for v in (0, 1, 2, -1, 5, (1 << 55) - 1, -(1 << 55)):
        t = ("bin", "add", ("bin", "sub", ("bin", "pow", ("lit", 2), ("lit", 70)), ("bin", "pow", ("lit", 2), ("lit", 70))), ("lit", v))
        for o in bins:
            cases.append(("bin", o, t, ("lit", 3)))
            cases.append(("bin", o, ("lit", 3), t))
            cases.append(("bin", o, t, t))
    return cases


def classify(ans):
    """vrun answers for 'X is E' -> (coq impl_out, text)"""
    if len(ans) >= 1 and isinstance(ans[0], dict):
        a = ans[0]
        if "b" in a and "X" in a["b"]:
            t = a["b"]["X"]
            if "i" in t:
                return "(IVal (%s))" % t["i"], t["i"]
            return "IOther", core.term_text(t)
        f = core.error_formal(a)
        if f is not None and "c" in f:
            c = f["c"]
            if c[0] == "evaluation_error" and c[1].get("a") == "zero_divisor":
                return "IZeroDiv", "evaluation_error(zero_divisor)"
            if c[0] == "evaluation_error" and c[1].get("a") == "undefined":
                return "IUndefined", "evaluation_error(undefined)"
            if c[0] == "type_error" and c[1].get("a") == "float" and "i" in c[2]:
                return "(IMustBeFloat (%s))" % c[2]["i"], "type_error(float,%s)" % c[2]["i"]
        if f is not None:
            return "IOther", core.term_text(f)
    return "IOther", json.dumps(ans)[:300]


def run_impl(ctx, exprs, tag):
    """Each expression through the meta-call path (X is E as a query) and the compiled path (clause body)."""
    jobs = []
    B = 40
    for i in range(0, len(exprs), B):
        chunk = exprs[i:i + B]
        prog = "".join("t%d(X) :- X is %s.\n" % (i + j, to_prolog(e)) for j, e in enumerate(chunk))
        qs = []
        for j, e in enumerate(chunk):
            qs.append("X is %s." % to_prolog(e))
            qs.append("t%d(X)." % (i + j))
        jobs.append({"id": str(i), "consult": prog, "queries": qs, "timeout_ms": 20000, "fresh": i % (B * 25) == 0})
    res = core.vrun_query(ctx.prop, jobs, tag=tag)
    out = []
    for i in range(0, len(exprs), B):
        r = res.get(str(i))
        n = len(exprs[i:i + B])
        if r is None or "results" not in r:
            for j in range(n):
                out.append((("IOther", "no result: %s" % json.dumps(r)[:200]),) * 2)
            continue
        rs = r["results"]
        for j in range(n):
            out.append((classify(rs[2 * j]) if 2 * j < len(rs) else ("IOther", "missing"),
                        classify(rs[2 * j + 1]) if 2 * j + 1 < len(rs) else ("IOther", "missing")))
    return out


def run(ctx):
    fb = fix_bounds()
    raw = gen_cases(ctx)
    cases, seen = [], set()
    dropped = 0
    nontrivial = set()
    dist = {"ops": {}, "errors": 0, "depth": {}}
    for e in raw:
        key = to_prolog(e)
        if key in seen:
            continue
        try:
            tr = []
            v = py_eval(e, tr)
        except TooBig:
            dropped += 1
            continue
        seen.add(key)
        cases.append(e)
        if v is None:
            dist["errors"] += 1
            nontrivial.add(key)
        elif any(abs(x) >= fb[1] - 2 for x in tr) or any(abs(s[1]) >= fb[1] - 2 for s in subterms(e) if s[0] == "lit"):
            nontrivial.add(key)
        if e[0] != "lit":
            dist["ops"][e[1]] = dist["ops"].get(e[1], 0) + 1
        d = size(e)
        dist["depth"][min(d, 15)] = dist["depth"].get(min(d, 15), 0) + 1
    dist["dropped_too_big"] = dropped

    impl = run_impl(ctx, cases, "impl")
    IMPORTS = "From V Require Import C01.Model."
    bools, meta = [], []
    for e, (m, c) in zip(cases, impl):
        ce = to_coq(e, fb)
        for path, o in (("metacall", m), ("compiled", c)):
            bools.append("spec_agrees %s %s" % (ce, o[0]))
            meta.append((e, path, o))
    bad, errs = core.coq_eval_bools(ctx.prop, IMPORTS, bools, chunk=600)
    tie_breaks = [{"kind": "coq-eval", "what": "model evaluation shard failed", "detail": t} for _, t in errs]
    # mirror vs impl (diagnostic for the tie): only where spec agrees, to spot a drifting mirror
    failures = []
    if bad:
        # shrink: every subterm of each failing expression, smallest failing one is reported
        subs, sseen = [], set()
        for i in bad[:60]:
            for s in subterms(meta[i][0]):
                k = to_prolog(s)
                if k not in sseen and s[0] != "lit":
                    sseen.add(k); subs.append(s)
        simpl = run_impl(ctx, subs, "shrink")
        sb, smeta = [], []
        for s, (m, c) in zip(subs, simpl):
            for path, o in (("metacall", m), ("compiled", c)):
                sb.append("spec_agrees %s %s" % (to_coq(s, fb), o[0])); smeta.append((s, path, o))
        sbad, _ = core.coq_eval_bools(ctx.prop, IMPORTS, sb, chunk=600, tag="shrinkcases")
        failing = sorted((smeta[i] for i in sbad), key=lambda t: size(t[0]))
        reported = set()
        for (s, path, o) in failing[:15]:
            k = to_prolog(s)
            if k in reported:
                continue
            reported.add(k)
            spec = core.coq_eval_show(ctx.prop, IMPORTS, "eval_spec %s" % to_coq(s, fb))
            failures.append({"key": failure_key(s, o), "what": "is/2 result differs from the exact integer semantics",
                             "input": "X is %s." % k, "path": path, "impl": o[1], "spec": spec, "property_fails": True})
        if not failures:
            for i in bad[:5]:
                e, path, o = meta[i]
                failures.append({"key": failure_key(e, o), "what": "is/2 result differs from the exact integer semantics",
                                 "input": "X is %s." % to_prolog(e), "path": path, "impl": o[1],
                                 "spec": core.coq_eval_show(ctx.prop, IMPORTS, "eval_spec %s" % to_coq(e, fb)), "property_fails": True})
    samples = []
    for e, (m, c) in list(zip(cases, impl))[:: max(1, len(cases) // 8)][:8]:
        samples.append({"query": "X is %s." % to_prolog(e), "impl_metacall": m[1][:80], "impl_compiled": c[1][:80]})
    return {
        "evaluations": len(bools),
        "distinct_nontrivial": len(nontrivial),
        "rule": ("expressions over the 16 binary and 5 unary integer functors; operands from the boundary pool {0,+-1..7, +-2^k+d for k in "
                 "31,32,53,55,56,62,63,64,65,100,200, d in -2..2, random bignums up to 400 bits}; each evaluated through the meta-call path and "
                 "the compiled path and compared in Coq with eval_spec; non-trivial = distinct expression with an operand or intermediate "
                 "value at or beyond the small-integer boundary (|v| >= 2^55-2), or an error result"),
        "samples": samples,
        "distribution": dist,
        "failures": failures,
        "tie_breaks": tie_breaks,
    }


def failure_key(e, o):
    ops = sorted(set(s[1] for s in subterms(e) if s[0] != "lit"))
    return "arith:" + ",".join(ops)
