"""C41 -- JSON text and JSON terms convert faithfully both ways (library(serialization/json), json_chars//1)."""
import json, os
from vlib import core, terms

META = {
    "level": "proof",
    "text": ("Coq theorem json_parse_print: for every well-formed value (strings over all code points up to 0x10FFFF, integers of any size, "
             "arrays/objects nested to any depth) the text the library generates (model `print`, an arm-by-arm mirror of the generation rules of "
             "json.pl) is parsed back to exactly that value by a reference RFC 8259 / McKeeman parser (whitespace, all escapes, \\uXXXX with "
             "surrogate pairs; fuel = length + 1); string and integer literal round trips and nine malformed families (trailing comma, leading "
             "zero, bare control character, lone low/high surrogate, unterminated string/array, text after the document) are separate theorems, "
             "as is escaped_string_round_trip (every \\uXXXX escape and surrogate pair decodes to the denoted scalar value). "
             "The model is tied to json.pl differentially: the implementation parses the model's text to the model's term, the model parses the "
             "implementation's generated text, the implementation re-parses its own text, free-form valid documents (whitespace, alternative "
             "escapes, exponents) give the same term in both, and on a malformed stream the accept/reject verdicts agree (all compared in Coq)."),
    "note": ("Trusted: Coq kernel + vm_compute; harness vrun; the Python generators (the Python printer is re-checked against the model's print "
             "inside Coq for every case). The parser is a reference model of the grammar, not a mirror of the DCG; the printer mirrors only the "
             "FIRST answer of phrase(json_chars(T), Cs) (later answers add whitespace). Numbers: only integers are modelled exactly; number texts "
             "with a fraction or a negative exponent are parsed by the model to the exact decimal m*10^e and the implementation's float is only "
             "required to lie within relative 2^-50 of it (differential, not a theorem); the text generated for floats is not modelled. Raw "
             "(unescaped) surrogate code points cannot occur in Prolog text and are not exercised. Not proved: print_parse on canonical text, "
             "rejection families for objects, completeness of the rejection list. No axioms."),
    "technique": ("Coq proof (json_parse_print, string/integer literal round trips, parse_rejects_* families) over a reference parser + "
                  "impl-mirror printer model + differential correspondence (cross round trips, verdict agreement) evaluated in Coq"),
    "design_ref": "DESIGN.md section 8, C41",
    "coq_targets": ["C41/Props.vo"],
    "coq_dirs": ["C41"],
    "props": "C41/Props.v",
    "trusted_base": ["Coq 8.16.1 kernel, vm_compute (no native_compute)", "harness/vrun + tools/vlib (correspondence)",
                     "Python value/text generators in checks/C41.py (printer re-checked in Coq per case)"],
    "assumptions": ["only the first answer of the generating direction is constrained",
                    "floats: implementation result within relative 2^-50 of the exact decimal (correct rounding is not demanded)",
                    "texts are sequences of Unicode scalar values (Prolog chars); raw surrogate code points are out of scope"],
}

IMPORTS = "From V Require Import Base.Term C41.Model."

PRELUDE = r"""
:- use_module(library(serialization/json)).
:- use_module(library(dcgs)).
:- use_module(library(lists)).
c41_cc(Code, Char) :- char_code(Char, Code).
c41_chars(Codes, Chars) :- maplist(c41_cc, Codes, Chars).
c41_conv(null, null).
c41_conv(b(B), boolean(B)).
c41_conv(n(N), number(N)).
c41_conv(s(Cs), string(S)) :- c41_chars(Cs, S).
c41_conv(l(L), list(L2)) :- maplist(c41_conv, L, L2).
c41_conv(p(L), pairs(L2)) :- maplist(c41_convp, L, L2).
c41_convp(K-V, string(S)-V2) :- c41_chars(K, S), c41_conv(V, V2).
c41_parse(Codes, T) :- c41_chars(Codes, Cs), phrase(json_chars(T), Cs).
c41_gen(CF, Codes) :- c41_conv(CF, T), once(phrase(json_chars(T), Cs)), c41_chars(Codes, Cs).
c41_rt(CF, Codes, T2) :- c41_gen(CF, Codes), c41_chars(Codes, Cs), phrase(json_chars(T2), Cs).
"""

# ------------------------------------------------------------------ values
# ("null",) ("bool", b) ("int", n) ("str", [codes]) ("arr", [v]) ("obj", [([codes], v)])
SPECIAL = [34, 92, 47, 8, 12, 10, 13, 9, 0, 1, 7, 11, 14, 27, 31, 32, 127, 128, 159, 160, 173, 233, 955, 0x2028, 0x2029,
           0xD7FF, 0xE000, 0xFEFF, 0xFFFD, 0xFFFE, 0xFFFF, 0x10000, 0x1F600, 0x1D11E, 0xE0001, 0x10FFFF, 117, 110, 98, 39, 123, 91, 44, 58]
PLAINC = [ord(c) for c in "abcxyzuUnN019 _-+.eE"]


def int_pool(rng):
    pool = [0, 1, -1, 2, 9, 10, -10, 99, 100, 101, -100, 1000, 123456789, -987654321, 10 ** 15, -10 ** 15]
    for k in (31, 32, 53, 55, 56, 62, 63, 64, 65, 128):
        for d in (-1, 0, 1):
            pool += [(1 << k) + d, -(1 << k) + d]
    for _ in range(30):
        pool.append(rng.getrandbits(rng.choice([8, 30, 60, 64, 70, 128, 300])) * rng.choice([1, -1]))
    pool += [10 ** 30, -10 ** 40, 5 * 10 ** 22, 120000]
    return pool


def gen_str(rng):
    r = rng.random()
    if r < 0.15:
        return []
    n = rng.choice([1, 1, 2, 3, 4, 6, 10])
    return [rng.choice(SPECIAL) if rng.random() < 0.55 else rng.choice(PLAINC) for _ in range(n)]


def gen_value(rng, pool, budget, depth=0):
    """returns (value, nodes used)"""
    r = rng.random()
    if budget <= 1 or depth >= 5 or r < 0.45:
        k = rng.random()
        if k < 0.12: return ("null",), 1
        if k < 0.24: return ("bool", rng.random() < 0.5), 1
        if k < 0.60: return ("int", rng.choice(pool)), 1
        return ("str", gen_str(rng)), 1
    n = rng.choice([0, 0, 1, 1, 2, 2, 3, 4, 6])
    used = 1
    items = []
    isobj = r > 0.72
    for _ in range(n):
        if used >= budget:
            break
        v, u = gen_value(rng, pool, min(budget - used, max(1, (budget - used) // 2 + 1)), depth + 1)
        used += u
        if isobj:
            key = gen_str(rng) if rng.random() < 0.8 else [107]       # duplicate keys happen on purpose
            items.append((key, v))
        else:
            items.append(v)
    return (("obj", items) if isobj else ("arr", items)), used


def nodes(v):
    if v[0] == "arr": return 1 + sum(nodes(x) for x in v[1])
    if v[0] == "obj": return 1 + sum(nodes(x) for _, x in v[1])
    return 1


def depth(v):
    if v[0] == "arr": return 1 + max([depth(x) for x in v[1]] + [0])
    if v[0] == "obj": return 1 + max([depth(x) for _, x in v[1]] + [0])
    return 0


def strings_of(v):
    if v[0] == "str": yield v[1]
    elif v[0] == "arr":
        for x in v[1]: yield from strings_of(x)
    elif v[0] == "obj":
        for k, x in v[1]:
            yield k
            yield from strings_of(x)


def ints_of(v):
    if v[0] == "int": yield v[1]
    elif v[0] == "arr":
        for x in v[1]: yield from ints_of(x)
    elif v[0] == "obj":
        for _, x in v[1]: yield from ints_of(x)


def has_empty(v):
    if v[0] in ("arr", "obj"):
        if not v[1]: return True
        return any(has_empty(x if v[0] == "arr" else x[1]) for x in v[1])
    return False


NEEDS_ESC = {34, 92, 47}


def features(v):
    f = set()
    for s in strings_of(v):
        for c in s:
            if c < 32 or c in NEEDS_ESC: f.add("escape")
            if c > 127: f.add("nonascii")
            if c > 0xFFFF: f.add("astral")
    for n in ints_of(v):
        if n < 0: f.add("negative")
        if abs(n) >= 1 << 55: f.add("bignum")
    if depth(v) >= 2: f.add("nested")
    if has_empty(v): f.add("empty")
    return f


# ------------------------------------------------------------------ serialisations
def codes_coq(cs):
    return "(@nil N)" if not cs else "[" + ";".join(str(c) for c in cs) + "]%N"


def to_coq(v):
    k = v[0]
    if k == "null": return "JNull"
    if k == "bool": return "(JBool %s)" % ("true" if v[1] else "false")
    if k == "int": return "(JInt (%d)%%Z)" % v[1]
    if k == "str": return "(JStr %s)" % codes_coq(v[1])
    if k == "arr": return "(JArr [%s])" % "; ".join(to_coq(x) for x in v[1]) if v[1] else "(JArr [])"
    if k == "obj": return "(JObj [%s])" % "; ".join("(%s, %s)" % (codes_coq(a), to_coq(x)) for a, x in v[1]) if v[1] else "(JObj [])"
    raise ValueError(v)


def pl_codes(cs):
    return "[" + ",".join(str(c) for c in cs) + "]"


def to_codeform(v):
    """Prolog text of the code form understood by c41_conv/2."""
    k = v[0]
    if k == "null": return "null"
    if k == "bool": return "b(%s)" % ("true" if v[1] else "false")
    if k == "int": return "n(%d)" % v[1]
    if k == "str": return "s(%s)" % pl_codes(v[1])
    if k == "arr": return "l([%s])" % ",".join(to_codeform(x) for x in v[1])
    if k == "obj": return "p([%s])" % ",".join("%s-%s" % (pl_codes(a), to_codeform(x)) for a, x in v[1])
    raise ValueError(v)


ESC = {34: 34, 92: 92, 47: 47, 8: 98, 12: 102, 10: 110, 13: 114, 9: 116}
HEXL = "0123456789abcdef"


def py_print_str(cs):
    out = [34]
    for c in cs:
        if c in ESC: out += [92, ESC[c]]
        elif c >= 32: out.append(c)
        else: out += [92, 117, 48, 48, ord(HEXL[c // 16]), ord(HEXL[c % 16])]
    out.append(34)
    return out


def tokens_canon(v):
    """token list of the canonical (library) text: ('p', codes) punctuation, ('s', codes of literal, raw), ('n', codes), ('w', codes) literal word"""
    k = v[0]
    if k == "null": return [("w", [ord(c) for c in "null"])]
    if k == "bool": return [("w", [ord(c) for c in ("true" if v[1] else "false")])]
    if k == "int": return [("n", [ord(c) for c in str(v[1])])]
    if k == "str": return [("s", py_print_str(v[1]))]
    if k == "arr":
        t = [("p", [91])]
        for i, x in enumerate(v[1]):
            if i: t.append(("p", [44]))
            t += tokens_canon(x)
        return t + [("p", [93])]
    t = [("p", [123])]
    for i, (a, x) in enumerate(v[1]):
        if i: t.append(("p", [44]))
        t += [("s", py_print_str(a)), ("p", [58])] + tokens_canon(x)
    return t + [("p", [125])]


def flat(toks):
    out = []
    for _, c in toks: out += c
    return out


def py_print(v):
    return flat(tokens_canon(v))


WS = [32, 10, 13, 9]


def fancy_str(rng, cs, allow_pairs):
    out = [34]
    for c in cs:
        opts = []
        if c >= 32 and c not in (34, 92): opts.append("raw")
        if c in ESC: opts += ["short", "short"]
        if c <= 0xFFFF: opts.append("u")
        elif allow_pairs: opts = ["pair"]
        o = rng.choice(opts)
        if o == "raw": out.append(c)
        elif o == "short": out += [92, ESC[c]]
        elif o == "u":
            h = "%04x" % c
            h = "".join(ch.upper() if rng.random() < 0.5 else ch for ch in h)
            out += [92, 117] + [ord(ch) for ch in h]
        else:
            c2 = c - 0x10000
            for u in (0xD800 + (c2 >> 10), 0xDC00 + (c2 & 0x3FF)):
                h = "%04x" % u
                h = h.upper() if rng.random() < 0.5 else h
                out += [92, 117] + [ord(ch) for ch in h]
    out.append(34)
    return out


def fancy_int(rng, n):
    r = rng.random()
    if n == 0 and r < 0.5:
        return rng.choice(["-0", "0e5", "0E+0", "-0e0", "0e00", "0E-0"])
    if n != 0 and n % 10 == 0 and r < 0.7:
        s = str(n)
        z = len(s) - len(s.rstrip("0"))
        k = rng.randint(1, z)
        return s[:len(s) - k] + rng.choice(["e", "E", "e+", "E+", "e0", "E+00"]) + str(k)
    if r < 0.25:
        return str(n) + rng.choice(["e0", "E0", "e+0", "E-0", "e-00"])
    return str(n)


def tokens_fancy(rng, v, allow_pairs=False):
    k = v[0]
    if k in ("null", "bool"): return tokens_canon(v)
    if k == "int": return [("n", [ord(c) for c in fancy_int(rng, v[1])])]
    if k == "str": return [("s", fancy_str(rng, v[1], allow_pairs))]
    if k == "arr":
        t = [("p", [91])]
        for i, x in enumerate(v[1]):
            if i: t.append(("p", [44]))
            t += tokens_fancy(rng, x, allow_pairs)
        return t + [("p", [93])]
    t = [("p", [123])]
    for i, (a, x) in enumerate(v[1]):
        if i: t.append(("p", [44]))
        t += [("s", fancy_str(rng, a, allow_pairs)), ("p", [58])] + tokens_fancy(rng, x, allow_pairs)
    return t + [("p", [125])]


def with_ws(rng, toks, p=0.4):
    out = []
    def ws():
        return [rng.choice(WS) for _ in range(rng.choice([1, 1, 2, 3]))] if rng.random() < p else []
    out += ws()
    for _, c in toks:
        out += c
        out += ws()
    return out


# ------------------------------------------------------------------ malformed stream
def S(s):
    return [ord(c) for c in s]


FIXED_BAD = {
    "empty": ["", " ", "\n\t"],
    "bad_literal": ["nul", "tru", "fals", "True", "NULL", "nulll", "t rue", "truefalse", "undefined", "nil", "'a'", "a"],
    "bad_number": ["1.", ".5", "+1", "1e", "1e+", "1E-", "--1", "0x10", "1.e5", "- 1", "Infinity", "NaN", "-", "1.2.3", "1e2e3", "1e2.5", "-.5",
                   "1,5", "1_000", "०", "1 2", "00", "-00", "01", "-01", "007", "0.0.", "1e1 1", "1.5e", "0e", "0."],
    "bad_escape": ['"\\x"', '"\\u12G4"', '"\\u123"', '"\\\'"', '"\\a"', '"\\v"', '"\\0"', '"\\U0041"', '"\\u 041"', '"\\u+041"', '"\\u-041"',
                   '"\\', '"\\"', '"\\u"', '"\\u00"', '"\\x41"', '"\\ "', '"\\\n"'],
    "lone_surrogate": ['"\\ud800"', '"\\udc00"', '"\\udfff"', '"\\udbff"', '"\\ud800x"', '"\\ud800\\n"', '"\\ud800\\u0041"', '"\\ud800\\ud800"',
                       '"\\udc00\\ud800"', '"a\\uDEADb"', '"\\ud83d\\u00e9"', '"\\ud83d \\ude00"', '"\\ud83d\\\\ude00"', '"\\ud83d\\ude0"'],
    "structure": ["[", "]", "{", "}", "[[]", "[]]", "{}}", "{{}", "[}", "{]", "[,]", "[,1]", "[1,]", "[1,,2]", "[1 2]", "{,}", '{"a"}', '{"a":}',
                  '{"a":1,}', '{"a":1,,"b":2}', '{"a" 1}', '{"a":1 "b":2}', '{"a":1;"b":2}', '{a:1}', "{1:2}", '{"a":1', '{"a":', '{"a"', '{"a',
                  '{null:1}', '{"a":1}}', '[1,2', '[1,', '["a",', '[1]]', '[1][2]', '{"a":1}{"b":2}', '[1],', ',1', ':1', '"a":1', '1,2',
                  "{[]:1}", '{"a":1,"b"}', "[1:2]", '["a":1]', "(1)", "[1,2)", "<1>", '{"a"::1}', "[[[[[[[[[[", "]]]]]", '[{"a":[1,{"b":]}]'],
    "bad_ws": ["\x0c1", "1\x0c", "\x0b[]", "[\xa01]", "\ufeff1", "1\x00", "\x001", "[1\x0c,2]", "\u30001", "1\u2028", "\x851"],
    "comments": ["/* c */ 1", "1 // c", "[1, /* x */ 2]", "# c\n1", "[1,2] -- x"],
    "garbage_after": ["1 x", "null null", "[] []", '"a" "b"', "{} 1", "1]", "1}", "1,", "true,", "[]x", '{}"', "null\x00", "1 .", "[1]e", '"a"b', "0 0"],
    "quotes": ["'a'", '"a', 'a"', '"a"b"', '"', '""" ', "\"a\nb\"", "\"a\tb\"", "\"a\rb\"", "\"\x00\"", "\"\x1f\"", "\"\x08\"", "\"\x0c\"", "“a”"],
    # valid oddities (the model accepts; listed here so that the verdict stream also contains accepted documents)
    "valid_odd": ['"\x7f"', '" "', '"/"', '"\\/"', " 1 ", "\n[\n]\n", "{ }", "[ ]", '{"":""}', '{"a":1,"a":2}', "-0", "0e0", "1E+2", "1e-0",
                  '"\\u0000"', '"\\uFFFF"', '"\\ufFfE"', "[[[[[[[[[[[[[[[[[[[[1]]]]]]]]]]]]]]]]]]]]", "123456789012345678901234567890", '"\U0010ffff"',
                  '"\\ud7ff"', '"\\ue000"', "\r\n\t 1", '"\\b\\f\\n\\r\\t\\"\\\\\\/"', "1e400", "-1E+30", "[1,[2,[3,[]]],{}]"],
}


def mutate(rng, v):
    """(family, text codes) derived from a valid value by one token-level damage."""
    toks = tokens_fancy(rng, v) if rng.random() < 0.5 else tokens_canon(v)
    fam = rng.choice(["trailing_comma", "leading_zero", "bare_control", "lone_surrogate", "truncated", "garbage_after", "drop_token",
                      "swap_token", "bad_escape", "dup_comma", "bad_ws", "single_quote"])
    idx = lambda pred: [i for i, t in enumerate(toks) if pred(t)]
    T = [list(t) for t in toks]
    def text():
        return with_ws(rng, [(a, b) for a, b in T], p=0.15)
    if fam == "trailing_comma":
        c = idx(lambda t: t[0] == "p" and t[1] in ([93], [125]))
        if not c: return None
        i = rng.choice(c); T.insert(i, ["p", [44]]); return fam, text()
    if fam == "dup_comma":
        c = idx(lambda t: t[0] == "p" and t[1] == [44])
        if not c: return None
        i = rng.choice(c); T.insert(i, ["p", [44]]); return fam, text()
    if fam == "leading_zero":
        c = idx(lambda t: t[0] == "n")
        if not c: return None
        i = rng.choice(c); n = T[i][1]
        z = [48] * rng.choice([1, 1, 2])
        T[i][1] = ([45] + z + n[1:]) if n[0] == 45 else z + n
        return fam, text()
    if fam in ("bare_control", "lone_surrogate", "bad_escape"):
        c = idx(lambda t: t[0] == "s")
        if not c: return None
        i = rng.choice(c); s = T[i][1]
        # insertion points that do not split an escape sequence: rebuild positions by scanning
        pos, j = [], 1
        while j < len(s):
            pos.append(j)
            if s[j] == 92:
                j += 6 if s[j + 1] == 117 else 2
            else:
                j += 1
        p = rng.choice(pos)
        if fam == "bare_control":
            ins = [rng.choice([0, 1, 8, 9, 10, 12, 13, 27, 31])]
        elif fam == "lone_surrogate":
            ins = S(rng.choice(["\\ud800", "\\udbff", "\\udc00", "\\udfff", "\\uD83D", "\\uDE00", "\\ud800\\u0061", "\\ud800\\ud800", "\\udc00\\ud800"]))
            if p < len(s) and s[p] == 92 and s[p + 1] == 117:
                ins = ins + [120]                 # keep the following escape from completing a pair
        else:
            ins = S(rng.choice(["\\x", "\\a", "\\u12", "\\uZZZZ", "\\'", "\\0", "\\U0041", "\\u00g0", "\\ u0041"]))
        T[i][1] = s[:p] + ins + s[p:]
        return fam, text()
    if fam == "truncated":
        t = with_ws(rng, toks, p=0.15)
        if len(t) < 2: return None
        return fam, t[:rng.randint(1, len(t) - 1)]
    if fam == "garbage_after":
        g = rng.choice(["x", "]", "}", ",", "1", "null", " {}", " []", '"a"', ":", "\x00", "e5", ".5", "\\"])
        return fam, text() + S(g)
    if fam == "drop_token":
        if len(T) < 2: return None
        i = rng.randrange(len(T)); del T[i]; return fam, text()
    if fam == "swap_token":
        c = idx(lambda t: t[0] == "p")
        if not c: return None
        i = rng.choice(c)
        T[i][1] = [rng.choice([x for x in (44, 58, 91, 93, 123, 125, 59, 40) if [x] != T[i][1]])]
        return fam, text()
    if fam == "bad_ws":
        if len(T) < 2: return None
        i = rng.randrange(1, len(T)); T.insert(i, ["p", [rng.choice([12, 11, 160, 0xFEFF, 0x2028, 0, 133])]]); return fam, text()
    if fam == "single_quote":
        c = idx(lambda t: t[0] == "s")
        if not c: return None
        i = rng.choice(c); s = T[i][1]
        T[i][1] = [39] + s[1:-1] + [39]; return fam, text()
    return None


# ------------------------------------------------------------------ float-valued number texts
def gen_dec(rng):
    sign = rng.choice(["", "", "-"])
    ip = rng.choice(["0", "0", "1", "7", str(rng.randint(1, 999)), str(rng.getrandbits(rng.choice([20, 50, 56])))])
    fl = rng.choice([0, 1, 1, 2, 3, 6, 10, 15, 17])
    fp = "".join(rng.choice("0123456789") for _ in range(fl))
    ex = rng.choice([None, None, 0, 1, 2, 5, 10, 20, -1, -2, -5, -10, -20])
    if fl == 0 and (ex is None or ex >= 0):
        ex = -rng.choice([1, 2, 3, 7, 15])
    s = sign + ip + ("." + fp if fl else "")
    if ex is not None:
        s += rng.choice(["e", "E"]) + (rng.choice(["", "+"]) if ex >= 0 else "-") + str(abs(ex))
    return s


# ------------------------------------------------------------------ implementation runs
def run_all(ctx, streams, per_job=200, max_answers=3):
    """streams: {tag: [query text]} -> {tag: [answer list per query]}; one vrun batch so that the shards stay busy."""
    jobs = []
    for tag, queries in streams.items():
        for i in range(0, len(queries), per_job):
            jobs.append({"id": "%s%d" % (tag, i), "consult": PRELUDE, "queries": queries[i:i + per_job], "max_answers": max_answers,
                         "timeout_ms": 20000, "fresh": True})
    res = core.vrun_query(ctx.prop, jobs, tag="impl")
    outs = {}
    for tag, queries in streams.items():
        out = []
        for i in range(0, len(queries), per_job):
            r = res.get("%s%d" % (tag, i))
            n = len(queries[i:i + per_job])
            if r is None or "results" not in r:
                out += [[{"harness": json.dumps(r)[:300]}]] * n
            else:
                rs = r["results"]
                out += [rs[j] if j < len(rs) else [{"harness": "missing"}] for j in range(n)]
        outs[tag] = out
    return outs


def solutions(ans):
    """-> (list of binding dicts, list of non-solution markers)"""
    sols = [a["b"] for a in ans if isinstance(a, dict) and "b" in a]
    other = [a for a in ans if not (isinstance(a, dict) and "b" in a) and a not in ("true", "false")]
    return sols, other


def ans_text(ans):
    return json.dumps(ans, ensure_ascii=True)[:400]


NO_TERM = "CVar"


def compact(t):
    """python term (terms.py) -> Coq cterm text; strings (proper lists of one-character atoms) become CStr"""
    k = t[0]
    if k == "var": return "CVar"
    if k == "int": return "(CInt (%d)%%Z)" % t[1]
    if k == "flt": return "(CFlt (%d)%%Z)" % t[1]
    if k == "rat": return "(CRat (%d)%%Z (%d)%%Z)" % (t[1], t[2])
    if k == "atom":
        return "(CList [])" if t == terms.NIL else "(CAtom %s)" % codes_coq([ord(c) for c in t[1]])
    if k == "cmp":
        if t[1] == "." and len(t[2]) == 2:
            items, tail = terms.list_view(t)
            if tail == terms.NIL:
                if all(x[0] == "atom" and len(x[1]) == 1 for x in items):
                    return "(CStr %s)" % codes_coq([ord(x[1]) for x in items])
                return "(CList [%s])" % "; ".join(compact(x) for x in items)
        return "(CCmp %s [%s])" % (codes_coq([ord(c) for c in t[1]]), "; ".join(compact(x) for x in t[2]))
    raise ValueError(t)


def term_coq(j):
    try:
        return compact(terms.from_json(j))
    except Exception:
        return NO_TERM


def codes_of(j):
    """vrun JSON list of integers -> python list, else None"""
    try:
        t = terms.from_json(j)
        items, tail = terms.list_view(t)
        if tail != terms.NIL or any(x[0] != "int" for x in items): return None
        return [x[1] for x in items]
    except Exception:
        return None


def show(cs):
    return "".join(chr(c) if 32 <= c < 127 else "\\u{%x}" % c for c in cs)


def run(ctx):
    rng = ctx.rng
    pool = int_pool(rng)
    NV = ctx.scale(850, 8000)
    NBAD = ctx.scale(1200, 10000)
    NFANCY = ctx.scale(600, 6000)
    NPAIR = ctx.scale(40, 200)
    NDEC = ctx.scale(250, 2000)

    values, seen = [], set()
    fixed = [("arr", []), ("obj", []), ("str", []), ("int", 0), ("null",), ("bool", True), ("bool", False),
             ("arr", [("arr", []), ("obj", []), ("str", [])]), ("obj", [([], ("arr", []))]),
             ("str", list(range(0, 32))), ("str", [34, 92, 47, 127, 0x1F600, 0x10FFFF, 0xFFFF, 0x10000]),
             ("arr", [("int", n) for n in (-(1 << 55), (1 << 55) - 1, 1 << 55, -(1 << 63), 1 << 64)]),
             ("obj", [([107], ("int", 1)), ([107], ("int", 2))])]
    for v in fixed:
        values.append(v); seen.add(to_coq(v))
    while len(values) < NV:
        v, _ = gen_value(rng, pool, rng.choice([1, 2, 4, 8, 12, 20, 20]))
        if nodes(v) > 20: continue
        k = to_coq(v)
        if k in seen: continue
        seen.add(k); values.append(v)

    dist = {"values": len(values), "nodes": {}, "features": {}, "malformed_families": {}, "malformed_model_rejects": 0,
            "malformed_model_accepts": 0, "impl_errors_on_rejected": 0, "timeouts": 0}
    nontrivial = set()
    for v in values:
        n = nodes(v); dist["nodes"][min(n, 20)] = dist["nodes"].get(min(n, 20), 0) + 1
        f = features(v)
        for x in f: dist["features"][x] = dist["features"].get(x, 0) + 1
        if f: nontrivial.add(to_coq(v))

    failures, tie_breaks, samples = [], [], []
    bools, meta = [], []

    # ---- (i) implementation parses the model's text; (ii)+(iii) implementation generates and re-parses
    texts = [py_print(v) for v in values]
    q1 = ["c41_parse(%s, T)." % pl_codes(t) for t in texts]
    q2 = ["c41_rt(%s, Codes, T)." % to_codeform(v) for v in values]
    # free-form valid documents
    fancy = []
    for _ in range(NFANCY):
        v = rng.choice(values)
        fancy.append((v, with_ws(rng, tokens_fancy(rng, v)), "valid"))
    astral = [v for v in values if "astral" in features(v)]
    for _ in range(NPAIR if astral else 0):
        v = rng.choice(astral)
        fancy.append((v, with_ws(rng, tokens_fancy(rng, v, allow_pairs=True)), "surrogate_pair_escape"))
    q3 = ["c41_parse(%s, T)." % pl_codes(t) for _, t, _ in fancy]
    # malformed stream
    bad = []
    for fam, lst in FIXED_BAD.items():
        for s in lst:
            bad.append((fam, S(s)))
    tries = 0
    while len(bad) < NBAD and tries < NBAD * 5:
        tries += 1
        m = mutate(rng, rng.choice(values))
        if m is not None:
            bad.append(m)
    sb = set(); bad2 = []
    for fam, t in bad:
        k = tuple(t)
        if k in sb: continue
        sb.add(k); bad2.append((fam, t))
    bad = bad2
    q4 = ["c41_parse(%s, T)." % pl_codes(t) for _, t in bad]
    # float-valued number texts
    decs = sorted(set(gen_dec(rng) for _ in range(NDEC)) | {"1.5", "0.1", "1e-2", "-0.0", "0E-5", "1.5e1", "10e-1", "123.456e-7", "0.000001", "9007199254740993.0"})
    q5 = ["c41_parse(%s, T)." % pl_codes(S(d)) for d in decs]
    R = run_all(ctx, {"i": q1, "g": q2, "f": q3, "b": q4, "d": q5})
    r1, r2, r3, r4, r5 = R["i"], R["g"], R["f"], R["b"], R["d"]
    for v, t, a1, a2, qa, qb in zip(values, texts, r1, r2, q1, q2):
        cv = to_coq(v)
        s1, o1 = solutions(a1)
        if len(s1) >= 1 and all(s == s1[0] for s in s1) and not o1:
            bools.append("check_model_text %s %s %s" % (cv, codes_coq(t), term_coq(s1[0]["T"])))
        else:
            bools.append("check_model_text %s %s %s" % (cv, codes_coq(t), NO_TERM))
        meta.append(("model_text", v, t, qa, a1))
        s2, o2 = solutions(a2)
        it = codes_of(s2[0]["Codes"]) if s2 else None
        if len(s2) >= 1 and all(s == s2[0] for s in s2) and not o2 and it is not None:
            bools.append("check_impl_text %s %s %s" % (cv, codes_coq(it), term_coq(s2[0]["T"])))
        else:
            bools.append("check_impl_text %s (@nil N) %s" % (cv, NO_TERM))
        meta.append(("impl_text", v, it, qb, a2))
    for v, t, a1 in list(zip(values, texts, r1))[:: max(1, len(values) // 4)][:4]:
        samples.append({"value": to_coq(v)[:200], "model_text": show(t)[:200], "impl_parse": ans_text(a1)[:200]})

    # ---- free-form valid documents
    for (v, t, kind), a, q in zip(fancy, r3, q3):
        s, o = solutions(a)
        ok = len(s) >= 1 and all(x == s[0] for x in s) and not o
        bools.append("check_valid_text %s %s %s" % (to_coq(v), codes_coq(t), term_coq(s[0]["T"]) if ok else NO_TERM))
        meta.append((kind, v, t, q, a))
        nontrivial.add("f:" + show(t))

    # ---- malformed stream: verdicts
    for (fam, t), a, q in zip(bad, r4, q4):
        s, o = solutions(a)
        accepted = len(s) >= 1
        if any(isinstance(x, dict) and "harness" in x for x in o):
            tie_breaks.append({"kind": "harness", "what": "no result for a malformed-stream query", "detail": q[:300] + " " + ans_text(a)})
        if not accepted and any(isinstance(x, dict) and ("err" in x or "exc" in x) for x in a):
            dist["impl_errors_on_rejected"] += 1
            if "interrupt" in json.dumps(a): dist["timeouts"] += 1
        bools.append("check_verdict %s %s" % (codes_coq(t), "true" if accepted else "false"))
        meta.append(("verdict:" + fam, accepted, t, q, a))
        dist["malformed_families"][fam] = dist["malformed_families"].get(fam, 0) + 1

    # ---- number texts that become floats
    for d, a, q in zip(decs, r5, q5):
        s, o = solutions(a)
        bits = None
        if len(s) >= 1 and all(x == s[0] for x in s) and not o:
            T = s[0]["T"]
            if "c" in T and T["c"][0] == "number" and "f" in T["c"][1]:
                bits = int(T["c"][1]["f"], 16)
        bools.append("check_dec_text %s (%d)%%Z" % (codes_coq(S(d)), bits if bits is not None else (0x7ff << 52)))
        meta.append(("float_text", d, S(d), q, a))
        nontrivial.add("d:" + d)

    badidx, errs = core.coq_eval_bools(ctx.prop, IMPORTS, bools, chunk=350)
    for k, t in errs:
        tie_breaks.append({"kind": "coq-eval", "what": "model evaluation shard failed", "detail": str(t)[-1500:]})

    # ---- classify disagreements
    def model_parse(t):
        return core.coq_eval_show(ctx.prop, IMPORTS, "parse %s" % codes_coq(t))[:600]
    reported = {}
    for i in badidx:
        kind, v, t, q, a = meta[i]
        if kind.startswith("verdict:"):
            fam = kind.split(":", 1)[1]
            accepted = v
            if accepted:
                key = "json:accept:" + fam
                what = "the implementation produces a term for a text that is not valid JSON (RFC 8259)"
            else:
                key = "json:reject:" + fam
                what = "the implementation rejects (fails or raises) a valid RFC 8259 document"
        elif kind == "surrogate_pair_escape" and not solutions(a)[0]:
            key = "json:reject:surrogate_pair_escape"
            what = "a valid document whose string uses a \\uD8xx\\uDCxx surrogate pair escape is not parsed to the denoted character"
        elif kind in ("valid", "surrogate_pair_escape"):
            key = "json:valid_text:" + ("no_term" if not solutions(a)[0] else "wrong_term")
            what = "a valid document (whitespace / alternative escapes / exponent forms) is not parsed to the documented term"
        elif kind == "model_text":
            key = "json:parse_generated:" + ("no_term" if not solutions(a)[0] else "wrong_term")
            what = "the implementation does not parse the canonical text of a value to that value's term (or the printer model drifted)"
        elif kind == "impl_text":
            key = "json:generate:" + ("no_text" if t is None else "roundtrip")
            what = "generated text is not parsed back to the value by the RFC parser and/or by the implementation itself"
        else:
            key = "json:number:float_inaccurate"
            what = "a number text with fraction/negative exponent is not parsed to a float within relative 2^-50 of its decimal value"
        if key in reported and reported[key] >= 2:
            continue
        reported[key] = reported.get(key, 0) + 1
        failures.append({"key": key, "what": what, "input": q[:1500], "text": show(t) if t is not None else None,
                         "impl": ans_text(a),
                         "spec": (model_parse(t) if reported[key] == 1 else "(see the first failure with this key)") if t is not None else "parse (print v) = Some v",
                         "property_fails": True})

    ev = len(bools)
    for fam_t, a in list(zip(bad, r4))[:: max(1, len(bad) // 4)][:4]:
        samples.append({"malformed_family": fam_t[0], "text": show(fam_t[1])[:160], "impl": ans_text(a)[:160]})
    for d, a in list(zip(decs, r5))[:2]:
        samples.append({"float_text": d, "impl": ans_text(a)[:160]})
    # how many malformed texts the model rejects (measured through the verdicts that agreed + those that did not)
    badset = set(badidx)
    for i, m in enumerate(meta):
        if m[0].startswith("verdict:"):
            agree = i not in badset
            model_acc = (m[1] if agree else not m[1])
            if model_acc: dist["malformed_model_accepts"] += 1
            else:
                dist["malformed_model_rejects"] += 1
                nontrivial.add("b:" + show(m[2]))
    return {
        "evaluations": ev,
        "distinct_nontrivial": len(nontrivial),
        "rule": ("values <= 20 nodes over null/booleans/integers (boundary pool: 0, +-1, +-2^k+d for k in 31..128, powers of ten, random bignums up to 300 "
                 "bits)/strings (quotes, backslash, slash, all C0 controls incl. NUL, DEL, Latin-1, BMP edge code points, astral plane)/arrays/objects "
                 "(duplicate and empty keys, empty containers); per value: (i) implementation parses the model's text, (ii) model parses the "
                 "implementation's text, (iii) implementation re-parses its own text; free-form valid texts with random whitespace, escape forms "
                 "(short, \\uXXXX either case, raw; surrogate pairs in a separate sub-stream) and exponent forms; a malformed stream (fixed lists + "
                 "token-level damage: trailing/duplicate comma, leading zero, bare control char, lone surrogate, truncation, garbage after, dropped/"
                 "swapped token, bad escape, bad whitespace, single quotes) where only the accept/reject verdict is compared; float-valued number "
                 "texts within 2^-50. Every comparison is evaluated in Coq. Non-trivial = distinct value with an escape-needing/non-ASCII/astral "
                 "character, a negative or >= 2^55 integer, nesting depth >= 2 or an empty container; plus distinct free-form texts, distinct float "
                 "texts and distinct malformed texts that the model rejects"),
        "samples": samples,
        "distribution": dist,
        "failures": failures,
        "tie_breaks": tie_breaks,
    }
