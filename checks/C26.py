"""C26 -- dif/2, freeze/2 and when/2 are insensitive to posting order."""
import collections, itertools, json, time
from vlib import core, terms

META = {
    "level": "proof",
    "text": ("Coq theorems over a model of coroutining stores on the shared term datatype (unification = C10's proved mgu): the "
             "operational semantics that processes unifications and dif/freeze/when posts one at a time (binding, re-testing pending "
             "difs, waking goals) equals, for EVERY order of the operations, an order-free denotation (mgu of all equations; failure "
             "iff no mgu or a dif pair identical under it; a goal ran iff its condition holds under it; a dif remains iff still "
             "unifiable), hence order_insensitive; every goal runs exactly once and a frozen goal exactly when its variable is bound "
             "(after every prefix); failure iff unsolvable or some dif pair identical in every solution. The model is tied to "
             "library(dif/freeze/when) by running ALL permutations of generated histories over X,Y,Z on the implementation and "
             "comparing, inside Coq, success, variant-normalised bindings, the multiset of executed goals (global and backtrackable "
             "log), the suspended goals and the residual dif constraints (up to logical equivalence) with the denotation."),
    "note": ("Trusted: Coq kernel + vm_compute; C10's unify_oc (proved sound/most general/complete there); harness vrun; the Python generator, "
             "the parser of copy_term/3 residual goals and the classification of disagreements by repair (a disagreement is attributed to "
             "a known mechanism only if the history contains the syntactic trigger AND the observation passes check_obs after undoing "
             "exactly that mechanism's effect). Goals are logging goals (no further bindings): the confluent fragment; goals that bind "
             "are not modelled. Finite trees only: histories in which an occurs-check situation can arise under some order are "
             "filtered out by the generator (the implementation builds rational trees there). Residual dif sets are compared up to "
             "logical equivalence (each constraint entailed by one of the other side, dif_entails_spec), because the implementation may "
             "legitimately drop a dif that another residual dif entails. when/2 of this implementation accepts only nonvar/ground/','/';' "
             "conditions: for ?=/2 conditions (kept in the model and theorems) the correspondence only checks that every order either "
             "fails or raises domain_error(when_condition, _)."),
    "technique": ("Coq proof (operational_eq_denotation, order_insensitive, goals_run_exactly_once, frozen_runs_once, "
                  "frozen_runs_as_soon_as_bound, dif_fails_iff_identical, dif_entailed_is_dropped) over a reference model + "
                  "all-permutations differential correspondence evaluated in Coq"),
    "design_ref": "DESIGN.md section 8, C26",
    "coq_targets": ["C26/Props.vo"],
    "coq_dirs": ["C26", "C10"],
    "props": "C26/Props.v",
    "trusted_base": ["Coq 8.16.1 kernel, vm_compute (no native_compute)", "C10 unification model (proved in C10/Proofs.v)",
                     "harness/vrun + tools/vlib (correspondence)", "Python parser of residual goals and permutation driver in checks/C26.py"],
    "assumptions": ["suspended goals are logging goals (they bind nothing)",
                    "terms are finite trees: histories that can reach an occurs-check situation are not generated",
                    "residual dif constraints are compared up to logical equivalence over an infinite Herbrand universe"],
}

IMPORTS = "From V Require Import Base.Term C10.Model C26.Model."
KEY_PROBE = "dif-posting-executes-suspended-goals"
KEY_ALIAS = "when-goal-duplicated-by-aliasing"
KEY_DUPDIF = "when-goal-duplicated-when-shared-dif-is-resolved"

V = lambda n: ("var", n)
A = lambda s: ("atom", s)
C = lambda f, *a: ("cmp", f, list(a))
X, Y, Z = V("X"), V("Y"), V("Z")
VARNUM = {"X": 0, "Y": 1, "Z": 2}

# operations: ("dif", a, b) ("freeze", t) ("when", cond) ("unify", a, b)
# cond: ("nonvar", t) ("ground", t) ("decide", a, b) ("and", c1, c2) ("or", c1, c2)
POSTS = [
    ("dif", X, Y), ("dif", X, A("a")), ("dif", C("f", X, Y), C("f", A("a"), A("b"))), ("dif", Y, Z), ("dif", Y, A("b")),
    ("dif", Z, C("f", X)),
    ("freeze", X), ("freeze", Y), ("freeze", Z),
    ("when", ("nonvar", X)), ("when", ("ground", C("-", X, Y))), ("when", ("or", ("nonvar", X), ("nonvar", Y))),
    ("when", ("and", ("nonvar", X), ("nonvar", Y))), ("when", ("ground", Z)), ("when", ("nonvar", Y)),
    ("when", ("or", ("ground", X), ("nonvar", Z))),
]
DECIDE = ("when", ("decide", X, Y))
UNIFS = [
    ("unify", X, A("a")), ("unify", X, Y), ("unify", X, C("f", Y)), ("unify", Y, A("b")), ("unify", Z, X), ("unify", Y, A("a")),
    ("unify", Z, C("f", A("a"))), ("unify", Y, Z), ("unify", X, A("b")),
]


# ------------------------------------------------------------------ texts
def cond_text(c):
    k = c[0]
    if k == "nonvar": return "nonvar(%s)" % terms.to_prolog(c[1])
    if k == "ground": return "ground(%s)" % terms.to_prolog(c[1])
    if k == "decide": return "?=(%s,%s)" % (terms.to_prolog(c[1]), terms.to_prolog(c[2]))
    if k == "and": return "(%s,%s)" % (cond_text(c[1]), cond_text(c[2]))
    return "(%s;%s)" % (cond_text(c[1]), cond_text(c[2]))


def cond_coq(c):
    k = c[0]
    if k == "nonvar": return "(CNonvar %s)" % terms.to_coq(c[1], VARNUM)
    if k == "ground": return "(CGround %s)" % terms.to_coq(c[1], VARNUM)
    if k == "decide": return "(CDecide %s %s)" % (terms.to_coq(c[1], VARNUM), terms.to_coq(c[2], VARNUM))
    return "(%s %s %s)" % ("CAnd" if k == "and" else "COr", cond_coq(c[1]), cond_coq(c[2]))


def cond_vars(c):
    k = c[0]
    if k in ("nonvar", "ground"): return terms.term_vars(c[1])
    if k == "decide": return terms.term_vars(C("p", c[1], c[2]))
    return list(dict.fromkeys(cond_vars(c[1]) + cond_vars(c[2])))


def op_text(op, k, lg="log"):
    if op[0] == "dif": return "dif(%s,%s)" % (terms.to_prolog(op[1]), terms.to_prolog(op[2]))
    if op[0] == "freeze": return "freeze(%s,%s(%d))" % (terms.to_prolog(op[1]), lg, k)
    if op[0] == "when": return "when(%s,%s(%d))" % (cond_text(op[1]), lg, k)
    return "%s=%s" % (terms.to_prolog(op[1]), terms.to_prolog(op[2]))


def op_coq(op, k):
    if op[0] == "dif": return "(PostDif %d%%N %s %s)" % (k, terms.to_coq(op[1], VARNUM), terms.to_coq(op[2], VARNUM))
    if op[0] == "freeze": return "(PostFreeze %d%%N %s)" % (k, terms.to_coq(op[1], VARNUM))
    if op[0] == "when": return "(PostWhen %d%%N %s)" % (k, cond_coq(op[1]))
    return "(Unify %s %s)" % (terms.to_coq(op[1], VARNUM), terms.to_coq(op[2], VARNUM))


def seq_text(seq):
    return ", ".join(op_text(o, i + 1) for i, o in enumerate(seq))


def seq_coq(seq):
    return "[" + "; ".join(op_coq(o, i + 1) for i, o in enumerate(seq)) + "]"


# ------------------------------------------------------------------ finite-tree filter (generator side only)
def walk(t, s):
    while t[0] == "var" and t[1] in s:
        t = s[t[1]]
    return t


def occurs(v, t, s):
    t = walk(t, s)
    if t[0] == "var": return t[1] == v
    if t[0] == "cmp": return any(occurs(v, x, s) for x in t[2])
    return False


def unify_py(a, b, s):
    """-> (substitution or None, met_cycle): triangular substitution, occurs situations are reported"""
    s = dict(s)
    stack = [(a, b)]
    cyc = False
    while stack:
        a, b = stack.pop()
        a, b = walk(a, s), walk(b, s)
        if a == b: continue
        if a[0] == "var" or b[0] == "var":
            if a[0] != "var": a, b = b, a
            if occurs(a[1], b, s):
                return None, True
            s[a[1]] = b
        elif a[0] == "cmp" and b[0] == "cmp" and a[1] == b[1] and len(a[2]) == len(b[2]):
            stack.extend(zip(a[2], b[2]))
        else:
            return None, cyc
    return s, cyc


def cond_pairs(c):
    if c[0] == "decide": return [(c[1], c[2])]
    if c[0] in ("and", "or"): return cond_pairs(c[1]) + cond_pairs(c[2])
    return []


def reaches_occurs_check(seq):
    eqs = [(o[1], o[2]) for o in seq if o[0] == "unify"]
    probes = [(o[1], o[2]) for o in seq if o[0] == "dif"]
    for o in seq:
        if o[0] == "when": probes += cond_pairs(o[1])
    for r in range(len(eqs) + 1):
        for sub in itertools.permutations(range(len(eqs)), r):
            s, ok = {}, True
            for i in sub:
                s2, cyc = unify_py(eqs[i][0], eqs[i][1], s)
                if cyc: return True
                if s2 is None:
                    ok = False
                    break
                s = s2
            if not ok: continue
            for a, b in probes:
                _, cyc = unify_py(a, b, s)
                if cyc: return True
    return False


# ------------------------------------------------------------------ generator
def gen_histories(ctx):
    rng = ctx.rng
    n_small = ctx.scale(600, 9000)
    n_five = ctx.scale(25, 500)
    n_decide = ctx.scale(25, 200)
    out, seen, skipped = [], set(), 0

    def draw(n, decide=False):
        while True:
            r = rng.random()
            if r < 0.8:
                npost = rng.randint(1, n - 1) if n > 1 else rng.randint(0, 1)
            else:
                npost = rng.randint(0, n)
            seq = [rng.choice(POSTS) for _ in range(npost)] + [rng.choice(UNIFS) for _ in range(n - npost)]
            if decide:
                seq[rng.randrange(len(seq))] = DECIDE
            rng.shuffle(seq)
            return seq

    fixed = [[("freeze", X), ("dif", X, A("a")), ("unify", X, A("b"))],
             [("when", ("ground", C("-", X, Y))), ("unify", X, Y), ("unify", Y, A("b"))],
             [("dif", X, Y), ("unify", X, A("a")), ("unify", Y, A("a"))],
             [("dif", X, Y), ("unify", X, Y)],
             [("dif", C("f", X, Y), C("f", A("a"), A("b"))), ("unify", X, A("a")), ("unify", Y, A("b"))],
             [("freeze", X), ("freeze", X), ("unify", Z, X), ("unify", Z, C("f", A("a")))],
             [("dif", X, A("a")), ("dif", C("f", X, Y), C("f", A("a"), A("b")))]]
    plan = [(s, False) for s in fixed]
    plan += [(None, (rng.choice([1, 2, 2, 3, 3, 3, 4, 4, 4, 4]), False)) for _ in range(n_small)]
    plan += [(None, (5, False)) for _ in range(n_five)]
    plan += [(None, (rng.choice([2, 3, 3, 4]), True)) for _ in range(n_decide)]
    for fx, spec in plan:
        for _ in range(30):
            seq = fx if fx is not None else draw(*spec)
            key = tuple(sorted(op_text(o, 0) for o in seq))
            if key in seen:
                if fx is not None: break
                continue
            if reaches_occurs_check(seq):
                skipped += 1
                if fx is not None: break
                continue
            seen.add(key)
            out.append(seq)
            break
    return out, skipped


# ------------------------------------------------------------------ implementation side
def consult_text(lg):
    return (":- use_module(library(dif)).\n:- use_module(library(freeze)).\n:- use_module(library(when)).\n"
            ":- use_module(library(iso_ext)).\n:- dynamic(%s_f/1).\n"
            "%s(K) :- assertz(%s_f(K)), bb_get(%s_b, L0), bb_b_put(%s_b, [K|L0]).\n" % (lg, lg, lg, lg, lg))


def query_text(seq, perm, lg):
    body = ", ".join(op_text(seq[i], i + 1, lg) for i in perm)
    return ("retractall(%s_f(_)), bb_put(%s_b, []), "
            "catch((%s, copy_term([X,Y,Z],[X,Y,Z],Gs), bb_get(%s_b, LB), R0 = ok(X,Y,Z,Gs,LB)), error(E,_), R0 = ex(E)), "
            "findall(K, %s_f(K), L), R = r(R0, L)." % (lg, lg, body, lg, lg))


def int_list(t):
    items, tail = terms.list_view(t)
    if tail != terms.NIL or any(x[0] != "int" for x in items): raise ValueError("not an integer list")
    return [x[1] for x in items]


def strip_mod(g, m=None):
    if g[0] == "cmp" and g[1] == ":" and len(g[2]) == 2 and g[2][0][0] == "atom" and (m is None or g[2][0][1] == m):
        return g[2][1]
    raise ValueError("unexpected goal %r" % (g,))


def goal_ids(g, lg):
    """identifiers inside a (conjunction of) user:lg(k) goals"""
    if g[0] == "cmp" and g[1] == "," and len(g[2]) == 2:
        return goal_ids(g[2][0], lg) + goal_ids(g[2][1], lg)
    g = strip_mod(g, "user")
    if g[0] == "cmp" and g[1] == lg and len(g[2]) == 1 and g[2][0][0] == "int":
        return [g[2][0][1]]
    raise ValueError("unexpected suspended goal %r" % (g,))


def observe(ans, lg):
    """one query's answers -> ('fail',) | ('err', formal) | ('ok', binds, glog, blog, waiting, difs) | ('odd', text)"""
    try:
        if not ans or ans[0] == ("false",):
            return ("fail",)
        if ans[0][0] != "sol":
            return ("odd", repr(ans[0])[:300])
        if len(ans) > 1 and ans[1][0] == "sol":
            return ("odd", "more than one solution")
        r = ans[0][1]["R"]
        r0, glog = r[2][0], int_list(r[2][1])
        if r0[1] == "ex":
            return ("err", terms.number_vars([r0[2][0]])[0])
        x, y, z, gs, lb = r0[2]
        blog = int_list(lb)
        items, tail = terms.list_view(gs)
        waiting, difs = [], []
        for g in items:
            if g[0] != "cmp" or g[1] != ":": raise ValueError("unexpected residual %r" % (g,))
            mod, inner = g[2][0][1], g[2][1]
            if mod == "dif" and inner[1] == "dif" and len(inner[2]) == 2:
                difs.append((inner[2][0], inner[2][1]))
            elif mod == "freeze" and inner[1] == "freeze" and len(inner[2]) == 2:
                waiting += goal_ids(inner[2][1], lg)
            elif mod == "when" and inner[1] == "when" and len(inner[2]) == 2:
                waiting += goal_ids(inner[2][1], lg)
            else:
                raise ValueError("unexpected residual %r" % (g,))
        flat = [x, y, z] + [t for p in difs for t in p]
        flat = terms.number_vars(flat)
        binds = flat[:3]
        difs = sorted(set((terms.to_prolog(flat[3 + 2 * i]), terms.to_prolog(flat[4 + 2 * i]), i) for i in range(len(difs))))
        dif_terms = [(flat[3 + 2 * i], flat[4 + 2 * i]) for (_, _, i) in difs]
        # drop textual duplicates
        seen, dd = set(), []
        for (ta, tb, i), p in zip(difs, dif_terms):
            if (ta, tb) not in seen:
                seen.add((ta, tb))
                dd.append(p)
        return ("ok", tuple(binds), tuple(sorted(glog)), tuple(sorted(blog)), tuple(sorted(waiting)), tuple(dd))
    except (ValueError, KeyError, IndexError, TypeError) as e:
        return ("odd", "unparsed answer: %s" % (str(e)[:300],))


def obs_key(o):
    if o[0] != "ok": return repr(o)
    return repr((tuple(terms.to_prolog(t) for t in o[1]), o[2], o[3], o[4], tuple((terms.to_prolog(a), terms.to_prolog(b)) for a, b in o[5])))


def obs_coq(o):
    if o[0] == "fail": return "OFail"
    nl = lambda l: "[" + "; ".join("%d%%N" % k for k in l) + "]"
    return "(OOk [%s] %s %s %s [%s])" % ("; ".join(terms.to_coq(t) for t in o[1]), nl(o[2]), nl(o[3]), nl(o[4]),
                                         "; ".join("(%s, %s)" % (terms.to_coq(a), terms.to_coq(b)) for a, b in o[5]))


def obs_text(o):
    if o[0] == "fail": return "false"
    if o[0] == "err": return "error(%s)" % terms.to_prolog(o[1])
    if o[0] == "odd": return o[1]
    return "[X,Y,Z]=[%s] executed=%s executed_on_surviving_branch=%s suspended=%s residual_dif=[%s]" % (
        ",".join(terms.to_prolog(t) for t in o[1]), list(o[2]), list(o[3]), list(o[4]),
        ",".join("dif(%s,%s)" % (terms.to_prolog(a), terms.to_prolog(b)) for a, b in o[5]))


# ------------------------------------------------------------------ repairs: undo one known mechanism on an observation
def probe_eligible(seq):
    """a dif over a non-ground pair and a suspended goal: dif/2 tests unifiability with \\=/2, which wakes goals"""
    return any(o[0] == "dif" and terms.term_vars(C("p", o[1], o[2])) for o in seq) and any(o[0] in ("freeze", "when") for o in seq)


def dup_ids(seq):
    """when-goals over >= 2 variables (they are attached to each of their variables) and the known trigger present in the history:
    two variables are aliased, or a dif over two variables is there while a variable is bound to a compound term with a variable"""
    ids = [i + 1 for i, o in enumerate(seq) if o[0] == "when" and len(cond_vars(o[1])) >= 2]
    if not ids: return [], None
    if any(o[0] == "unify" and o[1][0] == "var" and o[2][0] == "var" for o in seq): return ids, KEY_ALIAS
    if (any(o[0] == "dif" and len(terms.term_vars(C("p", o[1], o[2]))) >= 2 for o in seq) and
            any(o[0] == "unify" and o[2][0] == "cmp" and terms.term_vars(o[2]) for o in seq)): return ids, KEY_DUPDIF
    return [], None


def multiset_le(a, b):
    ca, cb = collections.Counter(a), collections.Counter(b)
    return all(cb[k] >= n for k, n in ca.items())


def dedupe(l, ids):
    out, seen = [], set()
    for k in l:
        if k in ids and k in seen: continue
        seen.add(k)
        out.append(k)
    return tuple(out)


def repair(o, seq, probe, alias):
    if o[0] != "ok": return None
    _, b, g, l, w, d = o
    if probe:
        if not probe_eligible(seq) or not multiset_le(l, g) or g == l: return None
        g = l
    if alias:
        ids = set(dup_ids(seq)[0])
        g2, l2, w2 = dedupe(g, ids), dedupe(l, ids), dedupe(w, ids)
        if not ids or (g2, l2, w2) == (g, l, w): return None
        g, l, w = g2, l2, w2
    return ("ok", b, g, l, w, d)


WHAT = {
    KEY_PROBE: ("posting dif/2 (or re-posting it when one of its variables is bound) tests unifiability with \\=/2, which binds the "
                "variables speculatively and so EXECUTES the goals suspended on them by freeze/2 or when/2; the bindings are undone "
                "but the goals' side effects are not, and the goals run again when the variable is really bound: a frozen goal runs "
                "without its variable being bound, and more than once, depending on the order of the posts"),
    KEY_ALIAS: ("when/2 attaches a goal whose condition mentions two variables to both; unifying the two variables appends the two "
                "when_list attributes without removing the duplicate, so the goal is listed twice in the residual goals and runs "
                "twice when the condition becomes true, whereas posting after the aliasing runs it once"),
    KEY_DUPDIF: ("a when/2 goal over two variables X,Y is listed twice in the residual goals (and runs twice later) after X is bound to a "
                 "compound term containing Y while a dif/2 constraint over both X and Y is resolved by the same binding, e.g. "
                 "dif(X,g(Y)), when(ground(X-Y),G), X=f(Y); posting the when/2 before the dif/2, or after the binding, lists it once"),
}


# ------------------------------------------------------------------ the check
def run(ctx):
    hist, skipped = gen_histories(ctx)
    jobs, perms_of = [], {}
    for j, seq in enumerate(hist):
        perms = list(itertools.permutations(range(len(seq))))
        perms_of[j] = perms
        lg = "lg%d" % j
        jobs.append({"id": "h%d" % j, "consult": consult_text(lg), "queries": [query_text(seq, p, lg) for p in perms],
                     "max_answers": 2, "timeout_ms": 10000})
    t0 = time.time()
    res = core.vrun_query(ctx.prop, jobs, tag="perms")
    t_impl = time.time() - t0

    failures, tie_breaks, samples = [], [], []
    dist = collections.Counter()
    evaluations = 0
    cases = []          # (j, obs) to be judged by the model
    classes = {}        # j -> {key: (obs, [perms])}
    decide_hist = 0
    for j, seq in enumerate(hist):
        rec = res.get("h%d" % j, {})
        has_decide = any(o == DECIDE for o in seq)
        if "results" not in rec:
            failures.append({"key": "crash:" + seq_text(seq), "what": "the implementation crashed or hung on a history", "input": seq_text(seq),
                             "impl": json.dumps(rec)[:400], "spec": "an answer", "property_fails": True})
            continue
        cl = {}
        for p, r in zip(perms_of[j], rec["results"]):
            o = observe(terms.answers(r), "lg%d" % j)
            cl.setdefault(obs_key(o), (o, []))[1].append(p)
            evaluations += 1
        classes[j] = cl
        dist["histories of %d operations" % len(seq)] += 1
        if has_decide:
            decide_hist += 1
            for k, (o, ps) in cl.items():
                good = o[0] == "fail" or (o[0] == "err" and o[1][0] == "cmp" and o[1][1] == "domain_error" and o[1][2][0] == A("when_condition"))
                if not good:
                    failures.append({"key": "decide-condition:" + seq_text(seq), "what": "a history with an (unsupported) ?=/2 when-condition neither failed nor raised domain_error(when_condition,_)",
                                     "input": query_text(seq, ps[0], "log"), "impl": obs_text(o), "spec": "failure or domain_error(when_condition, ?=(X,Y))", "property_fails": True})
            continue
        for k, (o, ps) in cl.items():
            if o[0] in ("odd", "err"):
                failures.append({"key": "unexpected-answer:" + seq_text(seq), "what": "unexpected answer shape or error for a history", "input": query_text(seq, ps[0], "log"),
                                 "impl": obs_text(o), "spec": "success with bindings and residual dif/freeze/when goals, or failure", "property_fails": True})
            else:
                cases.append((j, k))
        dist["orders behaved alike" if len(cl) == 1 else "orders behaved differently"] += 1

    qv = "[0%N; 1%N; 2%N]"
    exprs = ["check_obs %s %s %s" % (qv, seq_coq(hist[j]), obs_coq(classes[j][k][0])) for j, k in cases]
    # verdicts of the model for the distribution and the non-triviality count (evaluated in the same pass)
    vexprs = []
    for c in (0, 1):
        vexprs += ["N.eqb (verdict %s %s) %d" % (qv, seq_coq(seq), c) for seq in hist if DECIDE not in seq]
    t1 = time.time()
    allbad, errors = core.coq_eval_bools(ctx.prop, IMPORTS, exprs + vexprs, chunk=500, tag="judge")
    t_judge = time.time() - t1
    for sh, e in errors:
        tie_breaks.append({"kind": "coq-eval", "what": "a shard of model evaluations was rejected by coqc", "detail": str(e)[-1500:]})
    bad = [i for i in allbad if i < len(exprs)]
    vbad = [i - len(exprs) for i in allbad if i >= len(exprs)]
    nplain = len(vexprs) // 2
    vb = set(vbad)
    plain = [seq for seq in hist if DECIDE not in seq]
    nontrivial = set()
    for i, seq in enumerate(plain):
        v = 0 if i not in vb else (1 if (nplain + i) not in vb else 2)
        dist["model: " + ["history fails", "succeeds, nothing woken, nothing residual", "succeeds with woken goals or residual constraints"][v]] += 1
        kinds = set(o[0] for o in seq)
        if "unify" in kinds and len(kinds) > 1:
            nontrivial.add(tuple(sorted(op_text(o, 0) for o in seq)))

    # classify disagreements: which repair (undoing one known mechanism) makes the observation agree with the model
    badcases = [cases[i] for i in bad]
    rexprs, rindex = [], []
    for (j, k) in badcases:
        o = classes[j][k][0]
        for name, (pr, al) in (("probe", (True, False)), ("alias", (False, True)), ("both", (True, True))):
            o2 = repair(o, hist[j], pr, al)
            if o2 is not None:
                rindex.append((j, k, name))
                rexprs.append("check_obs %s %s %s" % (qv, seq_coq(hist[j]), obs_coq(o2)))
    t2 = time.time()
    rbad, rerr = core.coq_eval_bools(ctx.prop, IMPORTS, rexprs, chunk=600, tag="classify") if rexprs else ([], [])
    t_classify = time.time() - t2
    for sh, e in rerr:
        tie_breaks.append({"kind": "coq-eval", "what": "a shard of classification evaluations was rejected by coqc", "detail": str(e)[-1500:]})
    rb = set(rbad)
    verdicts = collections.defaultdict(dict)
    for i, (j, k, name) in enumerate(rindex):
        verdicts[(j, k)][name] = i not in rb
    # disagreements that no repair explains: which components of the observation differ (a small third pass)
    COMPS = ("chk_success", "chk_binds", "chk_glog", "chk_blog", "chk_waiting", "chk_difs")
    unexpl = [(j, k) for (j, k) in badcases if not any(verdicts[(j, k)].get(n) for n in ("probe", "alias", "both"))]
    cexprs = ["%s %s %s %s" % (comp, qv, seq_coq(hist[j]), obs_coq(classes[j][k][0])) for (j, k) in unexpl[:100] for comp in COMPS]
    cbad, cerr = core.coq_eval_bools(ctx.prop, IMPORTS, cexprs, chunk=300, tag="components") if cexprs else ([], [])
    for sh, e in cerr:
        tie_breaks.append({"kind": "coq-eval", "what": "a shard of component evaluations was rejected by coqc", "detail": str(e)[-1500:]})
    for i, (j, k) in enumerate(unexpl[:100]):
        for c, comp in enumerate(COMPS):
            verdicts[(j, k)][comp] = (i * len(COMPS) + c) not in set(cbad)
    by_key = {}
    badset = set(badcases)
    spec_needed = []
    for (j, k) in badcases:
        v = verdicts[(j, k)]
        o, ps = classes[j][k]
        seq = hist[j]
        if v.get("probe"): keys = [KEY_PROBE]
        elif v.get("alias"): keys = [dup_ids(seq)[1]]
        elif v.get("both"): keys = [KEY_PROBE, dup_ids(seq)[1]]
        else:
            wrong = [c[4:] for c in ("chk_success", "chk_binds", "chk_glog", "chk_blog", "chk_waiting", "chk_difs") if not v.get(c, True)]
            keys = ["unexplained:%s:%s" % ("+".join(wrong), seq_text(seq))]
        for key in keys:
            cur = by_key.get(key)
            cand = (len(seq), len(query_text(seq, ps[0], "log")), j, k)
            if cur is None or cand < cur[0]:
                by_key[key] = (cand, cur[1] + 1 if cur else 1)
            else:
                by_key[key] = (cur[0], cur[1] + 1)
            dist["disagreement: " + (key if key in WHAT else "unexplained")] += 1
    for key, ((_, _, j, k), count) in sorted(by_key.items()):
        o, ps = classes[j][k]
        seq = hist[j]
        agree = [kk for kk in classes[j] if (j, kk) not in badset]
        spec = core.coq_eval_show(ctx.prop, IMPORTS, "denote %s %s" % (qv, seq_coq(seq))) if len(by_key) <= 6 else "denote %s %s" % (qv, seq_coq(seq))
        other = ""
        if agree:
            o2, ps2 = classes[j][agree[0]]
            other = " | the order %s agrees with the model: %s" % (query_text(seq, ps2[0], "log"), obs_text(o2))
        failures.append({"key": key, "what": (WHAT.get(key, "an order of a history disagrees with the order-free denotation") +
                                             " (%d observation classes in this run)" % count),
                         "input": query_text(seq, ps[0], "log"), "impl": obs_text(o) + other,
                         "spec": "model denotation (bindings canonical; ran; suspended; residual dif ids): " + spec[-600:], "property_fails": True})

    # orders of one history that disagree with each other are disagreements with the model for at least one of them,
    # so they are all covered above; count them for the record
    for j, cl in classes.items():
        if len(samples) < 8 and len(hist[j]) >= 3 and DECIDE not in hist[j]:
            o, ps = next(iter(cl.values()))
            samples.append("%s -> %s (%d orders, %d behaviours)" % (query_text(hist[j], ps[0], "log"), obs_text(o), len(perms_of[j]), len(cl)))
    dist["histories with a ?=/2 condition (error check only)"] = decide_hist
    dist["histories skipped by the finite-tree filter"] = skipped
    dist["observation classes judged by the model"] = len(cases)
    dist["observation classes disagreeing with the model"] = len(badcases)
    return {"evaluations": evaluations, "distinct_nontrivial": len(nontrivial),
            "rule": ("histories = multisets of 1..4 (and a sample of 5) operations over X,Y,Z drawn from %d posts and %d unifications; EVERY permutation of every "
                     "history is run on the implementation (evaluations = permutations run); each distinct behaviour of a history is judged in Coq against "
                     "the denotation; non-trivial = distinct histories (as multisets) with at least one unification and one post, so that order can matter" % (len(POSTS) + 1, len(UNIFS))),
            "notes": ["implementation %.1fs, model judgement %.1fs (%d expressions), classification %.1fs (%d expressions)" % (t_impl, t_judge, len(exprs) + len(vexprs), t_classify, len(rexprs))],
            "samples": samples, "distribution": dict(dist), "failures": failures, "tie_breaks": tie_breaks}
