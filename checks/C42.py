"""C42 -- module qualification and imports resolve to the right definitions."""
import json, os, shutil
from vlib import core

META = {
    "level": "proof",
    "text": ("Coq theorems over a reference model of module resolution (modules with definitions, export lists, full or selective imports): "
             "own_definition_wins, import_requires_export_and_listing, answering_module_defines_it, qualified_call_uses_named_module, "
             "meta_argument_in_caller_module (call/1, findall/3, maplist/N and a meta_predicate-declared user predicate resolve their goal in "
             "the calling module), namespaces_independent (a definition added to module A never changes what another module resolves unless "
             "it imports A and A exports it), resolution_deterministic / imported_answer_is_the_only_provider. Tied to the code differentially: "
             "generated layouts of up to 4 modules are written as files, loaded with use_module/1,2 on a fresh machine, every predicate answers "
             "with the name of its defining module, and each reachable call form from every context is compared in Coq with resolve_call "
             "(check_layout_decides_agreement)."),
    "note": ("Trusted: Coq kernel + vm_compute; harness vrun; the Python generator (file writer) and its localising mirror of resolve (the verdict "
             "is Coq's). The model is a REFERENCE model of the property text, not a mirror of loader.rs/loader.pl: load order, re-loading, "
             "re-export, import conflicts between two modules exporting one name, operators and goal expansion are outside it and are not "
             "generated. Scratch files live in /var/tmp/verif_c42_<pid>/ for the duration of the run. No axioms."),
    "technique": "Coq proof (own_definition_wins, import_requires_export_and_listing, qualified_call_uses_named_module, namespaces_independent, meta_argument_in_caller_module) over a reference model + differential correspondence evaluated in Coq",
    "design_ref": "DESIGN.md section 8, C42",
    "coq_targets": ["C42/Props.vo"],
    "coq_dirs": ["C42"],
    "props": "C42/Props.v",
    "trusted_base": ["Coq 8.16.1 kernel, vm_compute (no native_compute)", "harness/vrun + tools/vlib (correspondence)",
                     "Python layout generator and file writer (checks/C42.py)"],
    "assumptions": ["layouts are well-formed: acyclic imports, export lists name defined predicates, no two imported modules offer the same name to one importer",
                    "modules are files loaded once per fresh machine through use_module/1,2"],
}

IMPORTS = "From V Require Import C42.Model.\nOpen Scope N_scope."
NAMES = ["p", "q", "r"]
RUN = 7            # predicate id of run/1
MM = 9             # module id of the meta-predicate's module
LIMIT_PER_KEY = 3


def mname(i): return "user" if i == 0 else ("mm" if i == MM else "m%d" % i)


def resolve(layout, c, n):
    m = layout[c]
    if n in m["defs"]: return c
    prov = []
    for j, imp in m["imports"]:
        if n in layout[j]["exports"] and n in layout[j]["defs"] and (imp == "all" or n in imp):
            if j not in prov: prov.append(j)
    return prov[0] if len(prov) == 1 else None


def resolve_last_wins(layout, c, n, depth=0):
    """What a 'the later of definition and import wins, imports are re-exported' reading gives (classification of failures only)."""
    m = layout[c]
    offering = [j for j, imp in m["imports"] if n in layout[j]["exports"] and (imp == "all" or n in imp)]
    if n in m["defs"] and not (offering and m["order"] == "defs_first"): return c
    if not offering or depth > 6: return None
    return resolve_last_wins(layout, offering[0], n, depth + 1)


def gen_layout(rng):
    while True:
        k = rng.choice([1, 2, 2, 3, 3, 4, 4])
        layout = {}
        for i in range(1, k + 1):
            defs = [n for n in range(3) if rng.random() < 0.6]
            exports = [n for n in defs if rng.random() < 0.7]
            imports = []
            for j in range(1, i):
                r = rng.random()
                if r < 0.45: continue
                if r < 0.75: imports.append((j, "all"))
                else: imports.append((j, [n for n in layout[j]["exports"] if rng.random() < 0.6]))
            layout[i] = {"defs": defs, "exports": exports, "imports": imports, "order": rng.choice(["imports_first", "imports_first", "defs_first"])}
        udefs = [n for n in range(3) if rng.random() < 0.4]
        uimports = []
        for j in range(1, k + 1):
            r = rng.random()
            if r < 0.3: continue
            if r < 0.7: uimports.append((j, "all"))
            else: uimports.append((j, [n for n in layout[j]["exports"] if rng.random() < 0.6]))
        layout[0] = {"defs": udefs, "exports": [], "imports": uimports, "order": rng.choice(["imports_first", "defs_first"])}
        layout[MM] = {"defs": [RUN], "exports": [RUN], "imports": [], "order": "imports_first"}
        ok = True
        for c in layout:
            if c == MM: continue
            for n in range(3):
                offering = {j for j, imp in layout[c]["imports"] if n in layout[j]["exports"] and (imp == "all" or n in imp)}
                if len(offering) > 1: ok = False
        if ok:
            for c in layout:
                if c != MM: layout[c]["imports"] = layout[c]["imports"] + [(MM, "all")]
            return layout, k


def pi(n): return "%s/1" % (NAMES[n] if n < 3 else "run")


def wrappers(i):
    me = mname(i)
    out = []
    for n in range(3):
        a = NAMES[n]
        out.append("call_%s_from_%s(X) :- %s(X).\n" % (a, me, a))
        out.append("callc_%s_from_%s(X) :- call(%s(X)).\n" % (a, me, a))
        out.append("fa_%s_from_%s(L) :- findall(X, %s(X), L).\n" % (a, me, a))
        out.append("ml_%s_from_%s(L) :- L = [_], maplist(%s, L).\n" % (a, me, a))
        out.append("meta_%s_from_%s(X) :- run(%s(X)).\n" % (a, me, a))
    return "".join(out)


def import_text(d, j, imp, directive=True):
    f = "'%s/%s.pl'" % (d, mname(j))
    g = "use_module(%s)" % f if imp == "all" else "use_module(%s, [%s])" % (f, ", ".join([pi(n) for n in imp] + ["mk_%s/0" % mname(j)]))
    return (":- %s.\n" % g) if directive else g + "."


def write_layout(d, layout, k):
    os.makedirs(d, exist_ok=True)
    with open(os.path.join(d, "mm.pl"), "w") as f:
        f.write(":- module(mm, [run/1, mk_mm/0]).\n:- meta_predicate(run(0)).\nrun(G) :- call(G).\nmk_mm.\n")
    for i in range(1, k + 1):
        m = layout[i]
        head = ":- module(m%d, [%s]).\n:- use_module(library(lists)).\n" % (i, ", ".join([pi(n) for n in m["exports"]] + ["mk_m%d/0" % i]))
        head += import_text(d, MM, "all")        # the meta-predicate's declaration is visible before any clause that calls it
        imps = "".join(import_text(d, j, imp) for j, imp in m["imports"] if j != MM)
        defs = "".join("%s(m%d).\n" % (NAMES[n], i) for n in m["defs"]) + "mk_m%d.\n" % i
        body = imps + defs + wrappers(i) if m["order"] == "imports_first" else defs + wrappers(i) + imps
        with open(os.path.join(d, "m%d.pl" % i), "w") as f:
            f.write(head + body)


def run(ctx):
    rng = ctx.rng
    nlay = ctx.scale(120, 1500)
    base = "/var/tmp/verif_c42_%d" % os.getpid()
    shutil.rmtree(base, ignore_errors=True)
    os.makedirs(base)
    failures, tie_breaks, reported = [], [], {}
    try:
        layouts, jobs, allcases = [], [], []
        for L in range(nlay):
            layout, k = gen_layout(rng)
            d = os.path.join(base, "L%d" % L)
            write_layout(d, layout, k)
            u = layout[0]
            utext = ":- use_module(library(lists)).\n" + "".join("%s(user).\n" % NAMES[n] for n in u["defs"]) + wrappers(0)
            loads = []
            imported = {j for j, _ in u["imports"]}
            pre = [import_text(d, MM, "all", directive=False)]
            for j, imp in u["imports"]:
                if j != MM: loads.append(import_text(d, j, imp, directive=False))
            for j in range(1, k + 1):
                if j not in imported:
                    loads.append("use_module('%s/m%d.pl', [mk_m%d/0])." % (d, j, j))     # load without importing any of p, q, r
            steps = []
            steps += [{"q": q, "take": 1} for q in pre]
            if u["order"] == "imports_first":
                steps += [{"q": q, "take": 1} for q in loads] + [{"consult": utext}]
            else:
                steps += [{"consult": utext}] + [{"q": q, "take": 1} for q in loads]
            nload = len(steps)
            cases = []     # (ctx, form, pred, query, kind)
            for n in range(3):
                a = NAMES[n]
                cases += [(0, "Unq", n, "%s(X)." % a, "x"), (0, "ViaCall", n, "call(%s(X))." % a, "x"), (0, "ViaFindall", n, "findall(X, %s(X), L)." % a, "l"),
                          (0, "ViaMaplist", n, "L = [_], maplist(%s, L)." % a, "l"), (0, "ViaMeta", n, "run(%s(X))." % a, "x"),
                          (0, "Qual0", n, "user:%s(X)." % a, "x"), (0, "QualVar", n, "M = user, M:%s(X)." % a, "x")]
                for c in [0] + list(range(1, k + 1)):
                    me = mname(c)
                    pre = "" if c == 0 else me + ":"
                    cases += [(c, "Unq", n, "%scall_%s_from_%s(X)." % (pre, a, me), "x"), (c, "ViaCall", n, "%scallc_%s_from_%s(X)." % (pre, a, me), "x"),
                              (c, "ViaFindall", n, "%sfa_%s_from_%s(L)." % (pre, a, me), "l"), (c, "ViaMaplist", n, "%sml_%s_from_%s(L)." % (pre, a, me), "l"),
                              (c, "ViaMeta", n, "%smeta_%s_from_%s(X)." % (pre, a, me), "x")]
                    if c != 0:
                        cases += [(0, "Qual%d" % c, n, "%s:%s(X)." % (me, a), "x"), (0, "QualCall%d" % c, n, "call(%s:%s(X))." % (me, a), "x"),
                                  (0, "QualFindall%d" % c, n, "findall(X, %s:%s(X), L)." % (me, a), "l")]
            steps += [{"q": q, "take": 1} for (_, _, _, q, _) in cases]
            jobs.append({"id": "L%d" % L, "steps": steps, "max_answers": 2, "timeout_ms": 20000, "fresh": True})
            layouts.append((layout, k, d, nload, cases, u["order"]))
        res = core.vrun_query(ctx.prop, jobs, tag="impl")
    finally:
        shutil.rmtree(base, ignore_errors=True)

    def report(key, what, q, impl, spec, extra=None):
        reported[key] = reported.get(key, 0) + 1
        if reported[key] > LIMIT_PER_KEY: return
        f = {"key": key, "what": what, "input": q, "impl": impl, "spec": spec, "property_fails": True}
        if extra: f.update(extra)
        failures.append(f)

    ids = {"user": 0, "m1": 1, "m2": 2, "m3": 3, "m4": 4, "mm": MM}

    def observe(ans, kind, n):
        """-> ('ans', id) | ('exist', n) | ('other', text)"""
        if not ans: return ("other", "no answer")
        a = ans[0]
        if isinstance(a, dict) and "b" in a:
            t = a["b"].get("X" if kind == "x" else "L")
            if t is not None:
                if kind == "l" and "l" in t and len(t["l"]) == 1: t = t["l"][0]
                if "a" in t and t["a"] in ids: return ("ans", ids[t["a"]])
            return ("other", json.dumps(a)[:150])
        f = core.error_formal(a)
        if f is not None and "c" in f and f["c"][0] == "existence_error" and f["c"][1].get("a") == "procedure":
            p = f["c"][2]
            if "c" in p and p["c"][0] == ":": p = p["c"][2]
            if "c" in p and p["c"][0] == "/" and p["c"][2].get("i") == "1":
                nm = p["c"][1].get("a")
                if nm in NAMES: return ("exist", NAMES.index(nm))
                if nm == "run": return ("exist", RUN)
        return ("other", json.dumps(a)[:200])

    def layout_text(layout, k, order):
        out = []
        for c in [0] + list(range(1, k + 1)):
            m = layout[c]
            out.append("%s: defines %s; exports %s; imports %s; %s" % (
                mname(c), [NAMES[n] for n in m["defs"]], [NAMES[n] for n in m["exports"]],
                [(mname(j), "all" if imp == "all" else [NAMES[n] for n in imp]) for j, imp in m["imports"] if j != MM], m["order"]))
        return " | ".join(out)

    def coq_pred(n): return "(%d, 1)" % n

    def coq_layout(layout):
        ms = []
        for c, m in layout.items():
            imps = "; ".join("(%d, %s)" % (j, "All" if imp == "all" else "Only [%s]" % "; ".join(coq_pred(n) for n in imp)) for j, imp in m["imports"])
            ms.append("mkM %d [%s] [%s] [%s]" % (c, "; ".join(coq_pred(n) for n in m["defs"]), "; ".join(coq_pred(n) for n in m["exports"]), imps))
        return "[%s]" % "; ".join(ms)

    def coq_form(form, n):
        if form.startswith("Qual"):
            tail = form[4:]
            mod = 0 if tail in ("0", "Var") else int("".join(ch for ch in tail if ch.isdigit()))
            return "Qual %d %s" % (mod, coq_pred(n))
        if form == "ViaMeta": return "ViaMeta %s %s" % (coq_pred(RUN), coq_pred(n))
        return "%s %s" % (form, coq_pred(n))

    bools, bmeta = [], []
    evaluations = 0
    nontrivial = set()
    dist = {"layouts": nlay, "modules_hist": {}, "by_form": {}, "by_expected": {"own": 0, "imported": 0, "existence": 0}, "own_and_import_conflicts": 0,
            "load_failures": 0, "samples_skipped": 0}
    samples = []
    for L, (layout, k, d, nload, cases, uorder) in enumerate(layouts):
        rec = res.get("L%d" % L)
        dist["modules_hist"][k] = dist["modules_hist"].get(k, 0) + 1
        if rec is None or "results" not in rec:
            tie_breaks.append({"kind": "harness", "what": "layout job gave no results", "detail": json.dumps(rec)[:400]})
            continue
        rs = rec["results"]
        ltxt = layout_text(layout, k, uorder)
        loadbad = [i for i in range(nload) if not (rs[i] == "ok" or (isinstance(rs[i], list) and rs[i] and rs[i][0] == "true"))]
        if loadbad:
            dist["load_failures"] += 1
            report("modules:load-failed", "loading the layout (use_module/1,2 of the files, consult of user) did not succeed", ltxt, json.dumps(rs[loadbad[0]])[:300], "true")
            continue
        ccases, local_bad = [], []
        for (c, form, n, q, kind), a in zip(cases, rs[nload:]):
            evaluations += 1
            ob = observe(a, kind, n)
            target = c
            if form.startswith("Qual"):
                tail = form[4:]
                target = 0 if tail in ("0", "Var") else int("".join(ch for ch in tail if ch.isdigit()))
            ex = resolve(layout, target, n)
            exp = ("ans", ex) if ex is not None else ("exist", n)
            fk = form.rstrip("0123456789")
            dist["by_form"][fk] = dist["by_form"].get(fk, 0) + 1
            dist["by_expected"]["existence" if ex is None else ("own" if ex == target else "imported")] += 1
            own_and_imp = n in layout[target]["defs"] and any(
                n in layout[j]["exports"] and (imp == "all" or n in imp) for j, imp in layout[target]["imports"] if j != MM)
            if own_and_imp: dist["own_and_import_conflicts"] += 1
            nontrivial.add((json.dumps({str(c0): [m["defs"], m["exports"], [(j, i) for j, i in m["imports"]], m["order"]] for c0, m in layout.items()}, sort_keys=True), c, form, n))
            if ob[0] == "other":
                local_bad.append((c, form, n, q, ob, exp, own_and_imp, target))
                continue
            cobs = "Answer %d" % ob[1] if ob[0] == "ans" else "Existence %s" % coq_pred(ob[1])
            ccases.append("(%d, %s, %s)" % (c, coq_form(form, n), cobs))
            if ob != exp: local_bad.append((c, form, n, q, ob, exp, own_and_imp, target))
        bools.append("check_layout %s [%s]" % (coq_layout(layout), "; ".join(ccases)))
        bmeta.append((layout, k, ltxt, local_bad, d))
        if len(samples) < 6 and L % max(1, nlay // 6) == 0:
            c, form, n, q, kind = cases[len(cases) // 2]
            samples.append({"layout": ltxt, "query": q, "impl": json.dumps(rs[nload + len(cases) // 2])[:100]})

    bad, errs = core.coq_eval_bools(ctx.prop, IMPORTS, bools, chunk=40)
    tie_breaks += [{"kind": "coq-eval", "what": "model evaluation shard failed", "detail": t} for _, t in errs]
    badset = set(bad)
    for i, (layout, k, ltxt, local_bad, d) in enumerate(bmeta):
        py_bad = any(ob[0] != "other" for (_, _, _, _, ob, _, _, _) in local_bad)
        if (i in badset) != py_bad and not errs:
            tie_breaks.append({"kind": "coq-eval", "what": "the Coq model and the Python mirror of resolve disagree about a layout", "detail": bools[i][:1500]})
        for (c, form, n, q, ob, exp, own_and_imp, target) in local_bad:
            fk = form.rstrip("0123456789")
            if ob[0] == "other":
                key = "modules:unexpected-outcome:%s" % fk
            elif ob[0] == "ans" and ob[1] == resolve_last_wins(layout, target, n):
                key = "modules:later-import-overrides-own-definition"
            else:
                key = "modules:resolution-mismatch:%s" % fk
            show = lambda o: ("answered by %s" % mname(o[1])) if o[0] == "ans" else ("existence_error(procedure, %s)" % pi(o[1])) if o[0] == "exist" else o[1]
            report(key, "the call is answered by another definition than the module layout prescribes",
                   "%s   [context %s]   %% layout: %s" % (q.replace(d + "/", ""), mname(c), ltxt), show(ob), show(exp))
    dist["failures_by_key"] = dict(reported)
    return {
        "evaluations": evaluations,
        "distinct_nontrivial": len(nontrivial),
        "rule": ("layouts: 1-4 module files m1..mk plus user and a module mm holding the meta-predicate run/1 (meta_predicate(run(0))); each module "
                 "defines a random subset of p/1,q/1,r/1 (facts answering with the module's name), exports a random subset of its definitions, and "
                 "imports earlier modules fully or selectively (acyclic; no two imports offer one name; a module may both define and import a "
                 "name; directives before or after the definitions); user defines some of the names and imports some modules (before or after "
                 "its own clauses). Every layout is loaded on a fresh machine and each name is called from user and from inside each module: "
                 "plain goal, call/1, findall/3, maplist/2, run/1, and from user qualified (M:G, M bound at run time, call(M:G), findall over "
                 "M:G). Observable: the answering module or existence_error(procedure, N/1); compared in Coq with resolve_call. Non-trivial = "
                 "distinct (layout, context, call form, name)."),
        "samples": samples,
        "distribution": dist,
        "failures": failures,
        "tie_breaks": tie_breaks,
    }
