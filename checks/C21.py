"""C21 -- Atom identity is text identity."""
import importlib.util, json, os
from vlib import core, terms

META = {
    "level": "proof",
    "text": ("Coq theorems over the mirror of the atom representation: inline packing (little-endian bytes in the name field) is invertible and injective for every "
             "eligible text (inline_roundtrip, inline_injective), the build-time and run-time length limits regenerated from the two source files agree and fit "
             "48 bits (build_and_runtime_agree), and interning any two texts one after the other yields the same atom iff the texts are equal, whichever "
             "representation each ends up in (identity_iff_text, table invariant kept). Tied to the code by the translator gen/atom_params.py, by interning "
             "generated texts through a hook and comparing the raw atom index / inline flag / read-back with the model, and by comparing atoms created through "
             "every builtin path with == and compare/3."),
    "note": ("Trusted: Coq kernel + vm_compute; gen/atom_params.py (regex over the two source files); the static-atom map and the shared table are modelled as one list "
             "(static atoms = a prefix); hook verif_hooks::intern_atom; harness + generator. Atom ordering by code points is covered by C13 (string_order_is_codepoint_lex)."),
    "technique": "Coq proof (inline codec round trip/injectivity, interning identity_iff_text) + regenerated constants + differential correspondence through a hook and builtins",
    "coq_targets": ["C21/Props.vo"], "coq_dirs": ["C21"], "props": "C21/Props.v",
    "trusted_base": ["Coq 8.16.1 kernel, vm_compute", "gen/atom_params.py translator", "src/verif_hooks.rs intern_atom", "harness vrun + tools/vlib"],
    "assumptions": ["the static atom map holds no text that is eligible for inlining (checked on the predefined atoms sampled)"],
}
IMPORTS = "From V Require Import C21.Model."


def gen(ctx):
    spec = importlib.util.spec_from_file_location("gen_atom_params", os.path.join(core.ROOT, "gen", "atom_params.py"))
    m = importlib.util.module_from_spec(spec); spec.loader.exec_module(m)
    m.generate(core.REPO, os.path.join(core.COQ, "Gen", "AtomParams.v"))


ALPH = ["a", "b", "é", "日", "😀", "\x00", " ", "Z", "_", "0"]
PREDEF = ["[]", ".", "{}", "append", "error", "true", "call", "type_error", "instantiation_error", "end_of_file", "!", ";", "-", "is", "user_input", "existence_error"]


def gen_texts(rng, n):
    out = set(PREDEF + ["", "a", "abcdef", "abcdefg", "abcdé", "abcdeé", "日日", "日日日", "😀", "😀ab", "😀abc", "a\x00b", "\x00", "ab\x00", "\x00\x00"])
    while len(out) < n:
        k = rng.choice([0, 1, 2, 3, 4, 5, 6, 7, 8, 9, 12])
        out.add("".join(rng.choice(ALPH) for _ in range(k)))
    return sorted(out)


def run(ctx):
    rng = ctx.rng
    texts = gen_texts(rng, ctx.scale(1500, 20000))
    # (a) hook: intern every text, one thread
    line = "0\t" + ";".join(t.encode("utf-8").hex() or "" for t in texts)
    res, crashed = core.vrun_mode(ctx.prop, "intern", [line], nproc=1)
    failures, tie_breaks = [], [{"kind": "harness", "what": "vrun intern died", "detail": c} for c in crashed]
    out = (res.get("0") or "").split(";")
    bools, nontriv = [], 0
    by_idx = {}
    if len(out) != len(texts):
        tie_breaks.append({"kind": "harness", "what": "intern hook returned %d results for %d texts" % (len(out), len(texts)), "detail": (res.get("0") or "")[:300]})
    else:
        for t, o in zip(texts, out):
            idx, inl, ok = o.split(":")
            bs = list(t.encode("utf-8"))
            if len(bs) in (5, 6, 7, 8) or 0 in bs or t in PREDEF or any(b >= 0x80 for b in bs): nontriv += 1
            if ok != "1":
                failures.append({"key": "atom:readback", "what": "an atom does not read back as the text it was created from", "input": repr(t), "impl": o, "spec": "as_str() == text", "property_fails": True})
            if idx in by_idx and by_idx[idx] != t:
                failures.append({"key": "atom:two-texts-one-atom", "what": "two different texts got the same atom", "input": "%r and %r" % (t, by_idx[idx]), "impl": idx, "spec": "distinct atoms", "property_fails": True})
            by_idx[idx] = t
            bools.append("check_inline [%s] %s %s" % ("; ".join(map(str, bs)), "true" if inl == "1" else "false", idx))
        # intern everything again in reverse order (second process shares nothing; same process would): identity
        line2 = "0\t" + ";".join(t.encode("utf-8").hex() for t in texts + texts[::-1])
        res2, _ = core.vrun_mode(ctx.prop, "intern", [line2], nproc=1, tag="m2")
        out2 = (res2.get("0") or "").split(";")
        if len(out2) == 2 * len(texts):
            first = out2[:len(texts)]; second = out2[len(texts):][::-1]
            for t, a, b in zip(texts, first, second):
                if a.split(":")[0] != b.split(":")[0]:
                    failures.append({"key": "atom:same-text-two-atoms", "what": "interning the same text twice gave two different atoms", "input": repr(t), "impl": "%s vs %s" % (a, b), "spec": "same atom", "property_fails": True})
    bad, errs = core.coq_eval_bools(ctx.prop, IMPORTS, bools, chunk=500)
    for _, t in errs: tie_breaks.append({"kind": "coq-eval", "what": "model evaluation shard failed", "detail": t})
    for j in bad[:10]:
        failures.append({"key": "atom:inline-representation", "what": "inline flag / packed index differs from the model (eligibility or packing changed)",
                         "input": repr(texts[j]), "impl": out[j], "spec": "eligible <-> inlined, index = 2*pack+1", "property_fails": False})
    # a representation change alone is a broken tie, not a property failure
    tie_breaks += [{"kind": "correspondence", "what": f["what"], "key": f["key"], "detail": f} for f in failures if not f.get("property_fails")]
    failures = [f for f in failures if f.get("property_fails")]

    # (b) builtins: the same text created through different paths must be == ; different texts must not
    small = [t for t in texts if "\x00" not in t and 0 < len(t) <= 8][: ctx.scale(160, 1200)]
    jobs, meta = [], {}
    def q(t): return terms.arg_text(("atom", t))
    paths = ["A = %s", "atom_codes(A, %s)", "atom_chars(A, %s)", "atom_concat(%s, %s, A)", "sub_atom(%s, 1, _, 1, A)", "atom_chars(A0, %s), atom_concat('', A0, A)",
             "read_from_chars(%s, A)"]
    def make(path, t):
        if path == 0: return "A = %s" % q(t)
        if path == 1: return "atom_codes(A, [%s])" % ",".join(str(ord(c)) for c in t)
        if path == 2: return "atom_chars(A, [%s])" % ",".join(q(c) for c in t)
        if path == 3:
            k = len(t) // 2; return "atom_concat(%s, %s, A)" % (q(t[:k]), q(t[k:]))
        if path == 4: return "sub_atom(%s, 1, _, 1, A)" % q("x" + t + "y")
        if path == 5: return "atom_chars(A0, [%s]), atom_concat('', A0, A)" % ",".join(q(c) for c in t)
        return "atom_to_term_like"
    evals = 0
    for bi in range(0, len(small), 20):
        qs = []
        for t in small[bi:bi + 20]:
            others = [rng.choice(small) for _ in range(2)] + [t]
            for u in others:
                p1, p2 = rng.randrange(6), rng.randrange(6)
                g1 = make(p1, t); g2 = make(p2, u).replace("A0", "B0").replace("A", "B")
                qs.append("%s, %s, ( A == B -> E = same ; E = diff ), compare(O, A, B)." % (g1, g2))
                meta[(bi, len(qs) - 1)] = (t, u, p1, p2)
        jobs.append({"id": str(bi), "queries": qs, "timeout_ms": 20000})
    r = core.vrun_query(ctx.prop, jobs, tag="paths")
    for (bi, k), (t, u, p1, p2) in meta.items():
        rec = r.get(str(bi), {})
        ans = (rec.get("results") or [])[k] if k < len(rec.get("results") or []) else None
        evals += 1
        exp_e = "same" if t == u else "diff"
        exp_o = "=" if t == u else ("<" if [ord(c) for c in t] < [ord(c) for c in u] else ">")
        ok = bool(ans) and isinstance(ans[0], dict) and "b" in ans[0] and ans[0]["b"].get("E", {}).get("a") == exp_e and ans[0]["b"].get("O", {}).get("a") == exp_o
        if not ok:
            failures.append({"key": "atom:identity-across-paths", "what": "atoms created through two builtin paths are not identical exactly when their texts are equal (or order by code points differs)",
                             "input": "%r via path %d vs %r via path %d" % (t, p1, u, p2), "impl": json.dumps(ans)[:200], "spec": "E=%s O=%s" % (exp_e, exp_o), "property_fails": True})
    return {"evaluations": len(bools) + evals, "distinct_nontrivial": nontriv,
            "rule": ("texts of 0..12 characters over {a,b,é,日,😀,NUL,space,Z,_,0} plus predefined atom names; each interned through the hook (raw index, inline flag, read-back) and compared in Coq "
                     "with eligibility and packing of the model; injectivity and re-interning identity checked over the whole set; plus pairs of atoms created through six builtin paths "
                     "(literal, atom_codes, atom_chars, atom_concat, sub_atom, atom_concat with '') compared with == and compare/3. Non-trivial = text of 5..8 bytes (around the inline limit), containing NUL, "
                     "non-ASCII, or equal to a predefined atom."),
            "samples": [{"text": repr(t), "hook": o} for t, o in list(zip(texts, out))[:6]],
            "distribution": {"texts": len(texts), "pairs": evals}, "failures": failures, "tie_breaks": tie_breaks}
