"""C33 -- Heap writes never exceed the reserved capacity."""
from vlib import core

META = {
    "level": "proof",
    "text": ("Coq theorem writes_within_capacity: in the impl-mirror of heap.rs's accounting (byte_len, byte_cap, the space check and growth loop of push_cell, "
             "reserve, allocate_pstr/cstr, copy_pstr_within, copy_slice_to_end, append, truncate) every byte range written lies below byte_cap, for EVERY "
             "operation sequence, fill level, string and allocator behaviour; alloc_failure_atomic: a failed operation wrote nothing. The mirror is tied to the "
             "code by driving the real Heap through a hook and comparing (byte_len, byte_cap) after every operation of generated sequences steered to every "
             "free-space level 0..72 and every string length residue."),
    "note": ("Trusted: Coq kernel + vm_compute; the allocator is an oracle (k-th growth succeeds or not); ptr::write/copy are modelled by their extents only; "
             "push_pstr's cell count is mirrored (pstr_cells) and compute_pstr_size likewise; hook VHeap in src/verif_hooks.rs; harness + generator. "
             "A write past capacity that does not show in byte_len would only be visible to the theorem side (the mirror's extents), not to the correspondence."),
    "technique": "Coq invariant proof over operation sequences (impl-mirror of heap capacity accounting) + differential correspondence through a hook",
    "coq_targets": ["C33/Props.vo"], "coq_dirs": ["C33"], "props": "C33/Props.v",
    "trusted_base": ["Coq 8.16.1 kernel, vm_compute", "src/verif_hooks.rs VHeap (hook driver)", "harness vrun + tools/vlib"],
    "assumptions": ["the global allocator returns a block of the requested size or null", "requests fit a 64-bit address space"],
}
IMPORTS = "From V Require Import C33.Model."


def sentinel(l):
    r = l % 8
    return 8 if r == 0 else 8 - r


def seg_cells(l):
    s = sentinel(l)
    return (l + s) // 8 + (1 if s == 1 else 0)


def cells_written(bs):
    total, cur, started = 0, 0, False
    for b in bs:
        if b == 0:
            if cur == 0: total += (1 if started else 0) + 1
            else: total += (1 if started else 0) + seg_cells(cur) + 2
            started, cur = True, 0
        else:
            cur += 1
    if cur: total += (1 if started else 0) + seg_cells(cur)
    return total


def size_bytes(bs):
    total, cur = 0, 0
    for b in bs:
        if b == 0:
            total += (8 * seg_cells(cur) if cur else 0) + 16; cur = 0
        else: cur += 1
    if cur: total += 8 * seg_cells(cur)
    return total + 8


class Sim:
    def __init__(self, cap): self.len, self.cap = 0, cap
    def ensure(self, need):
        grew = False
        while self.cap - self.len < need:
            self.cap = 524288 if self.cap == 0 else 2 * self.cap; grew = True
        return grew


def gen_string(rng):
    n = rng.choice([0, 1, 2, 5, 6, 7, 8, 9, 15, 16, 17, 23, 24, 31, 40])
    alphabet = [97, 98, 0x7a] if rng.random() < 0.5 else [97, 0xc3, 0xa9]
    if alphabet[1] == 0xc3:
        bs = []
        while len(bs) < n:
            if rng.random() < 0.3 and len(bs) + 2 <= n: bs += [0xc3, 0xa9]
            else: bs.append(97)
    else:
        bs = [rng.choice(alphabet) for _ in range(n)]
    if rng.random() < 0.3 and bs:
        for _ in range(rng.choice([1, 1, 2, 3])):
            bs[rng.randrange(len(bs))] = 0
        # keep valid UTF-8: drop orphaned multi-byte halves
        try:
            bytes(bs).decode("utf-8")
        except UnicodeDecodeError:
            bs = [b if b < 0x80 else 97 for b in bs]
    return bs


def gen_seq(rng):
    cap_cells = rng.choice([1, 2, 3, 4, 8, 16, 40])
    sim = Sim(8 * cap_cells)
    ops, coq, strs = [], [], []   # strs: (byte_loc, length) of NUL-free strings on the heap
    tight = 0
    n = rng.choice([3, 5, 8, 12])
    for _ in range(n):
        # steer: sometimes fill to a chosen free-space level first
        if rng.random() < 0.5:
            target = rng.choice([0, 8, 16, 24, 32, 40, 48, 56, 64, 72])
            while sim.cap - sim.len > target and len(ops) < 400:
                ops.append("P"); coq.append("PushCell"); sim.len += 8
        k = rng.random()
        if k < 0.2:
            if sim.len == sim.cap: sim.ensure(8); tight += 1
            ops.append("P"); coq.append("PushCell"); sim.len += 8
        elif k < 0.5:
            bs = gen_string(rng); cstr = rng.random() < 0.3
            need = 8 * (size_bytes(bs) + (1 if cstr else 0))
            if sim.ensure(need): tight += 1
            if bs and 0 not in bs: strs.append((sim.len, len(bs)))
            cw = cells_written(bs)
            sim.len += 8 * (cw + (1 if cstr and cw else 0))
            ops.append(("C" if cstr else "S") + bytes(bs).hex())
            coq.append("%s [%s]" % ("AllocCstr" if cstr else "AllocPstr", "; ".join(map(str, bs))))
        elif k < 0.75 and strs:
            loc, l = rng.choice(strs)
            a = sentinel(l); w = l + a + (8 if a == 1 else 0)
            if sim.cap - sim.len <= w: tight += 1
            sim.ensure(w)
            sim.len += w
            ops.append("W%d" % loc); coq.append("CopyPstrWithin %d" % l)
        elif k < 0.85:
            c = rng.choice([0, 1, 2, 5, 9])
            if sim.ensure(8 * c): tight += 1
            ops.append("R%d" % c); coq.append("Reserve %d" % c)
        elif k < 0.95 and sim.len >= 8:
            hi = rng.randrange(1, sim.len // 8 + 1); lo = rng.randrange(0, hi + 1)
            if sim.ensure(8 * (hi - lo)): tight += 1
            sim.len += 8 * (hi - lo)
            ops.append("E%d,%d" % (lo, hi)); coq.append("CopySliceToEnd %d" % (hi - lo))
        elif sim.len >= 8:
            c = rng.randrange(0, sim.len // 8 + 1)
            sim.len = 8 * c
            strs = [(a, b) for (a, b) in strs if a + 8 * seg_cells(b) <= sim.len]
            ops.append("T%d" % c); coq.append("Truncate %d" % c)
    return cap_cells, ops, coq, tight


def run(ctx):
    rng = ctx.rng
    n = ctx.scale(5000, 40000)
    cases = []
    # corpus: exact-fit copy of a 7-byte string (the unrepaired code wrote 8 bytes past the capacity)
    cases.append((4, ["S" + b"abcdefg".hex()] + ["P"] * 29 + ["W0"], ["AllocPstr [97;98;99;100;101;102;103]"] + ["PushCell"] * 29 + ["CopyPstrWithin 7"], 1))
    cases.append((1, ["S" + b"ab\x00cd\x00ef\x00".hex(), "P"], ["AllocPstr [97;98;0;99;100;0;101;102;0]", "PushCell"], 1))
    seen = set()
    while len(cases) < n:
        c = gen_seq(rng)
        key = (c[0], tuple(c[1]))
        if key in seen or not c[1]: continue
        seen.add(key); cases.append(c)
    lines = ["%d\t%d\t%s" % (i, c[0], ";".join(c[1])) for i, c in enumerate(cases)]
    res, crashed = core.vrun_mode(ctx.prop, "heap", lines)
    failures, tie_breaks = [], [{"kind": "harness", "what": "vrun heap process died", "detail": c} for c in crashed]
    bools, idx = [], []
    nontriv = 0
    dist = {"ops": {}, "cap_cells": {}}
    for i, (cap, ops, coq, tight) in enumerate(cases):
        out = res.get(str(i))
        inp = "cap_cells=%d ops=%s" % (cap, ";".join(ops))
        for o in ops: dist["ops"][o[0]] = dist["ops"].get(o[0], 0) + 1
        dist["cap_cells"][cap] = dist["cap_cells"].get(cap, 0) + 1
        if tight: nontriv += 1
        if out is None or out.startswith("panic:") or out == "alloc-failed":
            failures.append({"key": "heap:panic" if out else "heap:no-result", "what": "heap operation sequence panicked or gave no result", "input": inp,
                             "impl": str(out), "spec": "model trace", "property_fails": True})
            continue
        obs = []
        over = None
        parts = out.split(";")
        if any(part.count(",") < 2 for part in parts):
            failures.append({"key": "heap:garbled-result", "what": "the heap driver returned a malformed record (memory corruption?)", "input": inp, "impl": out[:200], "spec": "len,cap,flag per operation", "property_fails": True})
            continue
        for j, part in enumerate(parts):
            l, c, v = part.split(",", 2)
            obs.append("(%s, %s, %s)" % (l, c, "false" if v == "0" else "true"))
            if int(l) > int(c) and over is None: over = (j, l, c)
        if over:
            failures.append({"key": "heap:len-exceeds-cap", "what": "byte_len exceeds byte_cap after operation %d (%s): bytes were written past the reserved capacity" % (over[0], ops[over[0]]),
                             "input": inp, "impl": "byte_len=%s byte_cap=%s" % (over[1], over[2]), "spec": "byte_len <= byte_cap", "property_fails": True})
            continue
        bools.append("check_trace %d [%s] [%s]" % (cap, "; ".join(coq), "; ".join(obs))); idx.append(i)
    bad, errs = core.coq_eval_bools(ctx.prop, IMPORTS, bools, chunk=400)
    for _, t in errs:
        tie_breaks.append({"kind": "coq-eval", "what": "model evaluation shard failed", "detail": t})
    for j in bad[:8]:
        i = idx[j]; cap, ops, coq, _ = cases[i]
        spec = core.coq_eval_show(ctx.prop, IMPORTS, "trace (fun _ => true) {| blen := 0; bcap := 8 * %d; grows := 0 |} [%s]" % (cap, "; ".join(coq)))
        # a disagreement in the accounting is a broken tie; the property itself fails only if len > cap (handled above)
        tie_breaks.append({"kind": "correspondence", "what": "heap accounting (byte_len, byte_cap) differs from the mirror model", "key": "heap:accounting-differs",
                           "detail": {"input": "cap_cells=%d ops=%s" % (cap, ";".join(ops)), "impl": res.get(str(i)), "model": spec}})
    samples = [{"cap_cells": c[0], "ops": ";".join(c[1])[:200], "impl": (res.get(str(i)) or "")[:160]} for i, c in list(enumerate(cases))[:2] + list(enumerate(cases))[50:53]]
    return {"evaluations": len(bools), "distinct_nontrivial": nontriv,
            "rule": ("operation sequences (3-12 operations plus fill runs) on a stand-alone Heap of 1..40 cells: push_cell, allocate_pstr/allocate_cstr of strings of length "
                     "0..40 (every residue mod 8, multi-byte characters, embedded NULs), copy_pstr_within of earlier strings, reserve, copy_slice_to_end, truncate; before "
                     "half of the operations the heap is filled so that the free space is one of 0,8,...,72 bytes. After every operation (byte_len, byte_cap) of the real "
                     "heap is compared in Coq with the mirror. Non-trivial = distinct sequence in which at least one operation met too little or exactly enough free space."),
            "samples": samples, "distribution": dist, "failures": failures, "tie_breaks": tie_breaks}
