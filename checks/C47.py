"""C47 -- Parsing a file lazily equals parsing its contents (library(pio) phrase_from_file/2,3)."""
import json, os, shutil
from vlib import core

META = {
    "level": "other",
    "text": ("The assurance is DIFFERENTIAL: for file contents whose sizes sit around the read-ahead of library(pio) (chars_to_read = 4096 characters: "
             "0, 1, N-1, N, N+1, 2N-1, 2N, 2N+1, 3N+1) and around the 8192-byte chunk of the character reader, with multi-byte characters straddling each "
             "boundary, and for grammars that need the whole text, count, stop early, enumerate several solutions, backtrack across a boundary, or fail, "
             "phrase_from_file/2,3 (text and type(binary)) is compared with phrase/2 on the character list read from the same file by get_n_chars/3, and "
             "both with an independent evaluation of the grammar on the bytes by Python: same success/failure, same number of solutions, same bindings "
             "(lengths, hashes, characters). The small Coq theorems (lazy_list_is_list, chunk_size_irrelevant, phrase_on_lazy_eq, chunks_wellformed) only "
             "state that in the reference reading of pio.pl the forced lazy list is the text for every chunk size; they say nothing about the attributed-"
             "variable/freeze/reposition machinery, which is what the differential part exercises."),
    "note": ("Trusted: the Python generator and its re-implementation of the eight grammars (the third opinion); harness vrun; the OS. Not covered: streams "
             "without reposition (phrase_from_stream on pipes/sockets), grammars with side effects, files larger than ~13 k characters. No axioms."),
    "technique": "differential testing (phrase_from_file vs phrase on the read characters vs an independent evaluation) + Coq sanity theorems over a reference lazy list",
    "design_ref": "DESIGN.md section 8, C47",
    "coq_targets": ["C47/Props.vo"], "coq_dirs": ["C47"], "props": "C47/Props.v",
    "trusted_base": ["harness vrun + tools/vlib", "Python re-implementation of the test grammars", "Coq 8.16.1 kernel (sanity theorems only)"],
    "assumptions": ["files are not modified while being parsed"],
}

DRIVER = r"""
:- use_module(library(dcgs)).
:- use_module(library(pio)).
:- use_module(library(lists)).
:- use_module(library(charsio)).
c47_all(Cs) --> seq(Cs).
c47_len(N) --> c47_len_(0, N).
c47_len_(N0, N) --> [_], !, { N1 is N0 + 1 }, c47_len_(N1, N).
c47_len_(N, N) --> [].
c47_nls(N) --> c47_nls_(0, N).
c47_nls_(N0, N) --> [C], !, { ( C == '\n' -> N1 is N0 + 1 ; N1 = N0 ) }, c47_nls_(N1, N).
c47_nls_(N, N) --> [].
c47_needle(B) --> seq(Bs), "needle", ..., { length(Bs, B) }.
c47_last(C) --> ..., [C].
c47_alt(A) --> ( seq(A), "xy" | seq(A), "xz" ).
c47_fail --> "zzz", ... .
c47_first3(A, B, C) --> [A, B, C], ... .
c47_hash([], L, H, L, H).
c47_hash([C|Cs], L0, H0, L, H) :- char_code(C, X), H1 is (H0 * 31 + X) mod 2147483647, L1 is L0 + 1, c47_hash(Cs, L1, H1, L, H).
c47_sum(Cs, s(L, H)) :- c47_hash(Cs, 0, 0, L, H).
c47_run(G, list(Cs)) :- phrase(G, Cs).
c47_run(G, lazy2(F)) :- phrase_from_file(G, F).
c47_run(G, lazy3(F, O)) :- phrase_from_file(G, F, O).
c47_sol(all, How, S) :- c47_run(c47_all(Cs), How), c47_sum(Cs, S).
c47_sol(len, How, N) :- c47_run(c47_len(N), How).
c47_sol(nls, How, N) :- c47_run(c47_nls(N), How).
c47_sol(needle, How, B) :- c47_run(c47_needle(B), How).
c47_sol(last, How, X) :- c47_run(c47_last(C), How), char_code(C, X).
c47_sol(alt, How, S) :- c47_run(c47_alt(A), How), c47_sum(A, S).
c47_sol(fail, How, t) :- c47_run(c47_fail, How).
c47_sol(first3, How, [X, Y, Z]) :- c47_run(c47_first3(A, B, C), How), char_code(A, X), char_code(B, Y), char_code(C, Z).
c47_sols(Id, How, Sols) :- catch(findall(S, c47_sol(Id, How, S), Sols), E, Sols = exc(E)).
c47_read(File, Type, Cs) :- open(File, read, S, [type(Type)]), get_n_chars(S, _, Cs), close(S).
c47_case(Id, File, Type, Mode, Lazy, Ref, RefSum) :-
    c47_read(File, Type, Cs), c47_sum(Cs, RefSum),
    c47_sols(Id, list(Cs), Ref),
    ( Mode == two -> How = lazy2(File) ; How = lazy3(File, [type(Type)]) ),
    c47_sols(Id, How, Lazy).
"""

N = 4096           # chars_to_read of pio.pl (checked against the source in run)
ALPHA = "abcfghijkmopqrstuvw"
GRAMMARS = ["all", "len", "nls", "needle", "last", "alt", "fail", "first3"]


def base(n):
    return ["\n" if i % 61 == 60 else ALPHA[i % len(ALPHA)] for i in range(n)]


def put(cs, i, s):
    if 0 <= i and i + len(s) <= len(cs):
        cs[i:i + len(s)] = list(s)


def contents(rng):
    out = []
    sizes = [0, 1, 2, 3, N - 1, N, N + 1, 2 * N - 1, 2 * N, 2 * N + 1, 3 * N + 1]
    for n in sizes:
        out.append(("plain%d" % n, base(n)))
        c = base(n)
        for i, ch in [(0, "é"), (N - 1, "😀"), (N, "日"), (2 * N - 1, "€"), (2 * N, "𝄞"), (n - 1, "本")]: put(c, i, ch)
        out.append(("multi%d" % n, c))
        c = base(n)
        for i in [10, N - 3, 2 * N - 6, n - 6]: put(c, i, "needle")
        out.append(("needle%d" % n, c))
        for tail in ["xy", "xz"]:
            c = base(n)
            put(c, 5, "xy"); put(c, N - 1, "xz"); put(c, n - 2, tail)
            out.append(("end_%s%d" % (tail, n), c))
        c = base(n); put(c, 0, "zzz"); put(c, N - 2, "zzz")
        out.append(("zzz%d" % n, c))
    # multi-byte characters straddling byte offset 8192 (the character reader's read size) and 4096/8192 characters
    for pad, tail in [(8190, "😀b"), (8191, "é"), (8189, "日本x"), (8191, "😀needle"), (8192, "𝄞xz"), (N - 1, "😀" * 3), (N - 2, "é日😀xy"), (2 * N - 1, "€\n€")]:
        out.append(("straddle%d_%d" % (pad, len(tail)), list("a" * pad + tail)))
    for _ in range(10):     # seed-dependent sizes and placements around the boundaries
        n = rng.choice([N, 2 * N, 3 * N]) + rng.randrange(-4, 5)
        c = base(n)
        for _ in range(rng.randrange(0, 6)):
            put(c, rng.choice([N, 2 * N, n, 0]) + rng.randrange(-6, 4), rng.choice(["é", "😀", "日", "needle", "xy", "xz", "\n", "zzz"]))
        if rng.random() < 0.5: put(c, n - 2, rng.choice(["xy", "xz"]))
        out.append(("rnd%d_%d" % (n, rng.randrange(10 ** 6)), c))
    # U+FEFF: at the start of the second read-ahead chunk, in the middle of a chunk, at the start of the file
    for name, i in [("bom_chunk", N), ("bom_mid", 100), ("bom_start", 0)]:
        c = base(N + 50); put(c, i, "﻿")
        out.append((name, c))
    return out


def h(cs):
    x = 0
    for c in cs: x = (x * 31 + ord(c)) % 2147483647
    return x


def expected(g, cs):
    """solutions of grammar g on the character list cs, as JSON-comparable values (the independent third opinion)"""
    s = "".join(cs)
    if g == "all": return [("s", len(cs), h(cs))]
    if g == "len": return [len(cs)]
    if g == "nls": return [s.count("\n")]
    if g == "needle":
        res, i = [], s.find("needle")
        while i >= 0:
            res.append(i); i = s.find("needle", i + 1)
        return res
    if g == "last": return [ord(cs[-1])] if cs else []
    if g == "alt":
        if s.endswith("xy") or s.endswith("xz"): return [("s", len(cs) - 2, h(cs[:-2]))]
        return []
    if g == "fail": return ["t"] if s.startswith("zzz") else []
    if g == "first3": return [[ord(c) for c in cs[:3]]] if len(cs) >= 3 else []


def norm(t):
    """JSON term -> comparable python value"""
    if "i" in t: return int(t["i"])
    if "a" in t: return t["a"]
    if "s" in t: return list(t["s"])
    if "l" in t: return [norm(x) for x in t["l"]]
    if "c" in t and t["c"][0] == "s": return ("s", norm(t["c"][1]), norm(t["c"][2]))
    return ("?", json.dumps(t, ensure_ascii=False)[:200])


def run(ctx):
    rng = ctx.rng
    failures, tie_breaks = [], []
    src = open(os.path.join(core.REPO, "src/lib/pio.pl")).read()
    if "chars_to_read(%d)." % N not in src:
        tie_breaks.append({"kind": "translator", "what": "chars_to_read/1 of pio.pl is no longer %d: the boundary sizes of the check must follow it" % N, "detail": ""})
    conts = contents(rng)
    d = "/var/tmp/verif_C47_%d" % os.getpid()
    shutil.rmtree(d, ignore_errors=True)
    os.makedirs(d)
    cases = []
    try:
        for k, (name, cs) in enumerate(conts):
            open(os.path.join(d, "f%d.txt" % k), "wb").write("".join(cs).encode("utf-8"))
        for k, (name, cs) in enumerate(conts):
            raw = "".join(cs).encode("utf-8")
            for g in GRAMMARS:
                modes = [("text", "two"), ("text", "three"), ("binary", "three")]
                for ty, mode in modes:
                    cases.append((k, g, ty, mode))
        jobs, per = [], 12
        for j in range(0, len(cases), per):
            qs = ["c47_case(%s, \"%s\", %s, %s, Lazy, Ref, RefSum)." % (g, os.path.join(d, "f%d.txt" % k), ty, mode) for (k, g, ty, mode) in cases[j:j + per]]
            jobs.append({"id": "j%d" % j, "consult": DRIVER, "fresh": True, "timeout_ms": 120000, "max_answers": 2, "queries": qs})
        rng.shuffle(jobs)
        res = core.vrun_query(ctx.prop, jobs, tag="q")
    finally:
        shutil.rmtree(d, ignore_errors=True)
    dist = {"grammar": {}, "mode": {}, "chars": {"<=1": 0, "<N": 0, "N..2N": 0, ">2N": 0}, "solutions": {}, "ref_reader_differs": 0}
    nontriv, evals, seen = 0, 0, set()
    samples = []
    per_key = {}
    for j in range(0, len(cases), per):
        rec = res.get("j%d" % j, {})
        rs = rec.get("results") or []
        for off, (k, g, ty, mode) in enumerate(cases[j:j + per]):
            name, cs = conts[k]
            chars = cs if ty == "text" else [chr(b) for b in "".join(cs).encode("utf-8")]
            q = "c47_case(%s, <file %s: %d chars>, %s, %s, Lazy, Ref, RefSum)." % (g, name, len(cs), ty, mode)
            ans = rs[off] if off < len(rs) else None
            if not ans or not isinstance(ans[0], dict) or "b" not in ans[0]:
                failures.append({"key": "pio:no-answer", "what": "the comparison query did not produce an answer (crash, hang, uncaught error)", "input": q,
                                 "impl": json.dumps(ans if ans is not None else rec)[:400], "spec": "one answer", "property_fails": True})
                continue
            b = ans[0]["b"]
            lazy, ref, refsum = norm(b["Lazy"]), norm(b["Ref"]), norm(b["RefSum"])
            exp = expected(g, chars)
            exp = [list(x) if isinstance(x, list) else x for x in exp]
            evals += 1
            has_bom = "﻿" in cs and ty == "text"
            ref_ok = refsum == ("s", len(chars), h(chars))
            if not ref_ok:
                dist["ref_reader_differs"] += 1
                if not has_bom:
                    tie_breaks.append({"kind": "harness", "what": "get_n_chars/3 did not deliver the characters of the file (reference side unusable)", "detail": q})
            bad = (lazy != exp) or (ref_ok and lazy != ref)
            if bad:
                if has_bom:
                    key = {"bom_chunk": "pio:U+FEFF-at-read-ahead-boundary-dropped", "bom_start": "pio:U+FEFF-at-file-start-dropped"}.get(name, "pio:U+FEFF-dropped")
                    what = "phrase_from_file silently drops a U+FEFF character of the file (" + name + "): get_n_chars/3 skips a U+FEFF that is the first character of a read"
                else:
                    key, what = "pio:mismatch:" + g, "phrase_from_file differs from phrase/2 on the file's characters"
                if per_key.get(key, 0) < 3:
                    per_key[key] = per_key.get(key, 0) + 1
                    failures.append({"key": key, "what": what, "input": q, "impl": "phrase_from_file solutions: %s" % (lazy,),
                                     "spec": "phrase/2 on the characters read: %s; independent evaluation: %s" % (ref if ref_ok else "(reader dropped characters)", exp),
                                     "property_fails": True})
            dist["grammar"][g] = dist["grammar"].get(g, 0) + 1
            dist["mode"][ty + "/" + mode] = dist["mode"].get(ty + "/" + mode, 0) + 1
            n = len(chars)
            dist["chars"]["<=1" if n <= 1 else "<N" if n < N else "N..2N" if n <= 2 * N else ">2N"] += 1
            ns = str(len(exp))
            dist["solutions"][ns] = dist["solutions"].get(ns, 0) + 1
            if n >= N and (k, g, ty, mode) not in seen:
                seen.add((k, g, ty, mode)); nontriv += 1
            if len(samples) < 6 and n >= N and g in ("needle", "alt", "all"):
                samples.append({"query": q, "phrase_from_file": str(lazy)[:200], "phrase": str(ref)[:200]})
    return {"evaluations": evals, "distinct_nontrivial": nontriv,
            "rule": ("a case = (file content, grammar, stream type, phrase_from_file/2 or /3); contents: 11 sizes around the 4096-character read-ahead x {plain, "
                     "multi-byte characters on the boundaries, 'needle' across the boundaries, ending in xy/xz with decoys, starting with zzz} + 8 contents with "
                     "multi-byte characters straddling byte 8192 / character 4096 / 8192 + 10 seed-dependent contents + 3 with U+FEFF; 8 grammars (whole text, "
                     "length, newline count, all positions of a needle, last character, alternative that fails late and re-reads, failing, first three). "
                     "Non-trivial = distinct case whose content has at least 4096 characters (the lazy list is materialised in more than one read)."),
            "samples": samples, "distribution": dist, "failures": failures, "tie_breaks": tie_breaks}
