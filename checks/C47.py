"""C47 -- Parsing a file lazily equals parsing its contents (library(pio) phrase_from_file/2,3)."""
import json, os, re, shutil, importlib.util
from vlib import core

META = {
    "level": "proof",
    "text": ("Coq theorems over an impl-mirror of the reading machinery of src/lib/pio.pl (coq/C47/Pio.v: stream_to_lazy_list/3, render_step/4, "
             "buffer_at_end_of_stream/2, get/set_stream_buffer_position/3, buffer_get_n_chars/4, buffer_prepare_for_n/5, string_get_n_chars/4, "
             "stream_bufferids/4, for reposition(true) AND reposition(false); a stream is (characters, position, log of get_n_chars calls), the lazy list is "
             "the list of forced suspensions with the Pos saved in their goals): for EVERY content, EVERY chars_to_read > 0 and EVERY script of cell demands "
             "and backtracking steps the consumer sees exactly the content (forced_list_is_content, mirror_chunk_size_irrelevant); suspensions re-forced after "
             "backtracking are bound to the same cells, and without the set_stream_position call they are not (backtracking_reforce_same, _refuted); any parser "
             "against the list interface (cell demands, choice points) has on the lazy list the solutions it has on the plain list, findall and once "
             "(phrase_lazy_eq_phrase_list); reads are bounded (stops_early_reads_bounded, buffered_reads_bounded) and the bb buffer invariant holds "
             "(buffer_invariant). The tie to the code: chars_to_read and the shape of 11 clauses are regenerated from pio.pl (gen/pio_params.py); the mirror is "
             "run inside Coq (run_fast, proved equal to the mirror's run_lazy) on the same file contents with five grammars transcribed from their DCG "
             "translation, and its solutions, the stream positions seen by probes inside the grammars and the final position must equal those observed on "
             "phrase_from_stream/2 over streams opened by the driver with reposition(true) and reposition(false), text and binary. The differential part "
             "(phrase_from_file/2,3 vs phrase/2 on the characters vs a Python evaluation, 8 grammars) is kept."),
    "note": ("Mirrored: the clauses listed above, arm by arm (fuel only where the Prolog recursion needs a termination measure). NOT mirrored / trusted: the wake-up "
             "of freeze/2 (attributed variables, trail): forcing and un-binding on backtracking are explicit operations of the mirror, the choice-point "
             "discipline of a parser is the POr constructor; partial_string/3 and '$skip_max_list' are list append/prefix; get_n_chars/3, at_end_of_stream/1, "
             "set_stream_position/2 and the OS are the three stream functions of Pio.v; stream positions are byte offsets in the implementation and "
             "character counts in the mirror (the check converts with the UTF-8 length of the content prefix; for type(binary) characters are bytes, which "
             "the mirror covers only by running on the byte list); the first (cut) clauses of seq//1 and ...//0, which test Cs0 == [] without binding, are not "
             "represented in the transcribed grammars; contents with U+FEFF are excluded from the position comparison (known findings pio:U+FEFF-*, still "
             "checked differentially). The number of get_n_chars calls is not observable without hooks: it is compared only through the positions. "
             "buffered_reads_bounded has the bound ceil(k/n)+1 (the tight ceil(k/n) would need the divisibility of saved positions). Not covered: pipes/sockets, "
             "grammars with side effects on the stream, a stale streams_buffers entry when a closed stream's handle is reused. No axioms."),
    "technique": ("Coq proof (forced_list_is_content, backtracking_reforce_same(+_refuted), phrase_lazy_eq_phrase_list, stops_early_reads_bounded, buffered_reads_bounded, "
                  "buffer_invariant, run_fast_is_run_lazy) over an impl-mirror model of pio.pl + regenerated constant/clause shapes + correspondence evaluated in Coq "
                  "(solutions, probe positions, final position) + differential testing against phrase/2 and a Python evaluation"),
    "design_ref": "DESIGN.md section 8, C47",
    "coq_targets": ["C47/Props.vo"], "coq_dirs": ["C47", "Gen"], "props": "C47/Props.v",
    "trusted_base": ["Coq 8.16.1 kernel, vm_compute", "gen/pio_params.py translator (constant + clause shapes of pio.pl)", "harness vrun + tools/vlib",
                     "transcription of the five probe grammars into parser trees (Pio.v, grammar)", "freeze/2 wake-up, get_n_chars/3, at_end_of_stream/1, set_stream_position/2, the OS: modelled, not verified",
                     "Python re-implementation of the test grammars and the UTF-8 byte/character conversion"],
    "assumptions": ["files are not modified while being parsed", "get_n_chars/3 delivers min(N, remaining) characters and at_end_of_stream/1 is exact (true for files)"],
}


def _translator():
    spec = importlib.util.spec_from_file_location("gen_pio_params", os.path.join(core.ROOT, "gen", "pio_params.py"))
    m = importlib.util.module_from_spec(spec)
    spec.loader.exec_module(m)
    return m


def gen(ctx):
    _translator().generate(core.REPO, os.path.join(core.COQ, "Gen", "PioParams.v"))


def chars_to_read():
    """the constant as regenerated into coq/Gen/PioParams.v"""
    txt = open(os.path.join(core.COQ, "Gen", "PioParams.v")).read()
    return int(re.search(r"Definition chars_to_read : N := (\d+)\.", txt).group(1))


DRIVER = r"""
:- use_module(library(dcgs)).
:- use_module(library(pio)).
:- use_module(library(lists)).
:- use_module(library(charsio)).
:- use_module(library(iso_ext)).
c47_all(Cs) --> seq(Cs).
c47_len(N) --> c47_len_(0, N).
c47_len_(N0, N) --> [_], !, { N1 is N0 + 1 }, c47_len_(N1, N).
c47_len_(N, N) --> [].
c47_nls(N) --> c47_nls_(0, N).
c47_nls_(N0, N) --> [C], !, { ( C == '\n' -> N1 is N0 + 1 ; N1 = N0 ) }, c47_nls_(N1, N).
c47_nls_(N, N) --> [].
c47_needle(B) --> seq(Bs), "needle", ..., { length(Bs, B) }.
c47_last(C) --> ..., [C].
c47_alt(A) --> ( seq(A), "xy" | seq(A), "xz" ).
c47_fail --> "zzz", ... .
c47_first3(A, B, C) --> [A, B, C], ... .
c47_hash([], L, H, L, H).
c47_hash([C|Cs], L0, H0, L, H) :- char_code(C, X), H1 is (H0 * 31 + X) mod 2147483647, L1 is L0 + 1, c47_hash(Cs, L1, H1, L, H).
c47_sum(Cs, s(L, H)) :- c47_hash(Cs, 0, 0, L, H).
c47_run(G, list(Cs)) :- phrase(G, Cs).
c47_run(G, lazy2(F)) :- phrase_from_file(G, F).
c47_run(G, lazy3(F, O)) :- phrase_from_file(G, F, O).
c47_sol(all, How, S) :- c47_run(c47_all(Cs), How), c47_sum(Cs, S).
c47_sol(len, How, N) :- c47_run(c47_len(N), How).
c47_sol(nls, How, N) :- c47_run(c47_nls(N), How).
c47_sol(needle, How, B) :- c47_run(c47_needle(B), How).
c47_sol(last, How, X) :- c47_run(c47_last(C), How), char_code(C, X).
c47_sol(alt, How, S) :- c47_run(c47_alt(A), How), c47_sum(A, S).
c47_sol(fail, How, t) :- c47_run(c47_fail, How).
c47_sol(first3, How, [X, Y, Z]) :- c47_run(c47_first3(A, B, C), How), char_code(A, X), char_code(B, Y), char_code(C, Z).
c47_sols(Id, How, Sols) :- catch(findall(S, c47_sol(Id, How, S), Sols), E, Sols = exc(E)).
c47_read(File, Type, Cs) :- open(File, read, S, [type(Type)]), get_n_chars(S, _, Cs), close(S).
c47_case(Id, File, Type, Mode, Lazy, Ref, RefSum) :-
    c47_read(File, Type, Cs), c47_sum(Cs, RefSum),
    c47_sols(Id, list(Cs), Ref),
    ( Mode == two -> How = lazy2(File) ; How = lazy3(File, [type(Type)]) ),
    c47_sols(Id, How, Lazy).
% ---- phrase_from_stream/2 on a stream opened here, with probes of the stream position inside the grammar
c47_probe(St) :- stream_property(St, position(position_and_lines_read(P, _))), bb_get(c47_log, L), ( L = [P|_] -> true ; bb_put(c47_log, [P|L]) ).
c47p_fail --> "zzz", ... .
c47p_first3(St, A, B, C) --> [A, B, C], { c47_probe(St) }, ... .
c47p_all(St, Cs) --> seq(Cs), { c47_probe(St) }.
c47p_needle(St, B) --> seq(Bs), "needle", { c47_probe(St) }, ..., { length(Bs, B) }.
c47p_alt(St, A) --> ( seq(A), { c47_probe(St) }, "xy" | { c47_probe(St) }, seq(A), "xz" ).
c47p_sol(fail, St, []) :- phrase_from_stream(c47p_fail, St).
c47p_sol(first3, St, [X, Y, Z]) :- phrase_from_stream(c47p_first3(St, A, B, C), St), char_code(A, X), char_code(B, Y), char_code(C, Z).
c47p_sol(all, St, [L, H]) :- phrase_from_stream(c47p_all(St, Cs), St), c47_hash(Cs, 0, 0, L, H).
c47p_sol(needle, St, [B]) :- phrase_from_stream(c47p_needle(St, B), St).
c47p_sol(alt, St, [L, H]) :- phrase_from_stream(c47p_alt(St, A), St), c47_hash(A, 0, 0, L, H).
c47p_case(G, File, Type, Rp, Sols, Log, Final) :-
    open(File, read, St, [type(Type), reposition(Rp)]),
    bb_put(c47_log, []),
    catch(findall(S, c47p_sol(G, St, S), Sols), E, Sols = exc(E)),
    stream_property(St, position(position_and_lines_read(Final, _))),
    bb_get(c47_log, Log0), reverse(Log0, Log),
    close(St).
"""

N = 4096           # replaced in run() by the constant regenerated from pio.pl (coq/Gen/PioParams.v)
ALPHA = "abcfghijkmopqrstuvw"
GRAMMARS = ["all", "len", "nls", "needle", "last", "alt", "fail", "first3"]


def base(n):
    return ["\n" if i % 61 == 60 else ALPHA[i % len(ALPHA)] for i in range(n)]


def put(cs, i, s):
    if 0 <= i and i + len(s) <= len(cs):
        cs[i:i + len(s)] = list(s)


def contents(rng):
    out = []
    sizes = [0, 1, 2, 3, N - 1, N, N + 1, 2 * N - 1, 2 * N, 2 * N + 1, 3 * N + 1]
    for n in sizes:
        out.append(("plain%d" % n, base(n)))
        c = base(n)
        for i, ch in [(0, "é"), (N - 1, "😀"), (N, "日"), (2 * N - 1, "€"), (2 * N, "𝄞"), (n - 1, "本")]: put(c, i, ch)
        out.append(("multi%d" % n, c))
        c = base(n)
        for i in [10, N - 3, 2 * N - 6, n - 6]: put(c, i, "needle")
        out.append(("needle%d" % n, c))
        for tail in ["xy", "xz"]:
            c = base(n)
            put(c, 5, "xy"); put(c, N - 1, "xz"); put(c, n - 2, tail)
            out.append(("end_%s%d" % (tail, n), c))
        c = base(n); put(c, 0, "zzz"); put(c, N - 2, "zzz")
        out.append(("zzz%d" % n, c))
    # multi-byte characters straddling byte offset 8192 (the character reader's read size) and 4096/8192 characters
    for pad, tail in [(8190, "😀b"), (8191, "é"), (8189, "日本x"), (8191, "😀needle"), (8192, "𝄞xz"), (N - 1, "😀" * 3), (N - 2, "é日😀xy"), (2 * N - 1, "€\n€")]:
        out.append(("straddle%d_%d" % (pad, len(tail)), list("a" * pad + tail)))
    for _ in range(10):     # seed-dependent sizes and placements around the boundaries
        n = rng.choice([N, 2 * N, 3 * N]) + rng.randrange(-4, 5)
        c = base(n)
        for _ in range(rng.randrange(0, 6)):
            put(c, rng.choice([N, 2 * N, n, 0]) + rng.randrange(-6, 4), rng.choice(["é", "😀", "日", "needle", "xy", "xz", "\n", "zzz"]))
        if rng.random() < 0.5: put(c, n - 2, rng.choice(["xy", "xz"]))
        out.append(("rnd%d_%d" % (n, rng.randrange(10 ** 6)), c))
    # U+FEFF: at the start of the second read-ahead chunk, in the middle of a chunk, at the start of the file
    for name, i in [("bom_chunk", N), ("bom_mid", 100), ("bom_start", 0)]:
        c = base(N + 50); put(c, i, "﻿")
        out.append((name, c))
    return out


def h(cs):
    x = 0
    for c in cs: x = (x * 31 + ord(c)) % 2147483647
    return x


def expected(g, cs):
    """solutions of grammar g on the character list cs, as JSON-comparable values (the independent third opinion)"""
    s = "".join(cs)
    if g == "all": return [("s", len(cs), h(cs))]
    if g == "len": return [len(cs)]
    if g == "nls": return [s.count("\n")]
    if g == "needle":
        res, i = [], s.find("needle")
        while i >= 0:
            res.append(i); i = s.find("needle", i + 1)
        return res
    if g == "last": return [ord(cs[-1])] if cs else []
    if g == "alt":
        if s.endswith("xy") or s.endswith("xz"): return [("s", len(cs) - 2, h(cs[:-2]))]
        return []
    if g == "fail": return ["t"] if s.startswith("zzz") else []
    if g == "first3": return [[ord(c) for c in cs[:3]]] if len(cs) >= 3 else []


def norm(t):
    """JSON term -> comparable python value"""
    if "i" in t: return int(t["i"])
    if "a" in t: return t["a"]
    if "s" in t: return list(t["s"])
    if "l" in t: return [norm(x) for x in t["l"]]
    if "c" in t and t["c"][0] == "s": return ("s", norm(t["c"][1]), norm(t["c"][2]))
    return ("?", json.dumps(t, ensure_ascii=False)[:200])


# ---------------------------------------------------------------- the mirror side (coq/C47/Pio.v)
IMPORTS = "From V Require Import C47.Pio Gen.PioParams."
MGRAMMARS = {"fail": 0, "first3": 1, "all": 2, "needle": 3, "alt": 4}


def segments(codes):
    """compact Coq encoding of a content (list of code points / bytes): runs of the background text base(n), runs of
    one repeated code, literals; checked by re-expansion"""
    segs, i, n = [], 0, len(codes)

    def bch(j):
        return 10 if j % 61 == 60 else ord(ALPHA[j % len(ALPHA)])
    lit = []

    def flush():
        if lit:
            segs.append(("lit", list(lit))); lit.clear()
    while i < n:
        j = i
        while j < n and codes[j] == bch(j): j += 1
        if j - i >= 8:
            flush(); segs.append(("base", i, j - i)); i = j; continue
        j = i
        while j < n and codes[j] == codes[i]: j += 1
        if j - i >= 8:
            flush(); segs.append(("rep", codes[i], j - i)); i = j; continue
        lit.append(codes[i]); i += 1
    flush()
    back = []
    for sg in segs:
        if sg[0] == "base": back += [bch(j) for j in range(sg[1], sg[1] + sg[2])]
        elif sg[0] == "rep": back += [sg[1]] * sg[2]
        else: back += sg[1]
    assert back == list(codes)
    out = []
    for sg in segs:
        if sg[0] == "base": out.append("SBase %d %d" % (sg[1], sg[2]))
        elif sg[0] == "rep": out.append("SRep %d %d" % (sg[1], sg[2]))
        else: out.append("SLit [%s]" % "; ".join(str(c) for c in sg[1]))
    return "[%s]%%N" % "; ".join(out) if out else "[]"


def mexpected(g, codes):
    """solutions of the probe grammar g on the code list (Python opinion), in the answer format of c47p_sol/3"""
    def hh(xs):
        x = 0
        for c in xs: x = (x * 31 + c) % 2147483647
        return x
    n = len(codes)
    if g == "fail": return [[]] if codes[:3] == [122, 122, 122] else []
    if g == "first3": return [codes[:3]] if n >= 3 else []
    if g == "all": return [[n, hh(codes)]]
    if g == "needle":
        nd = [ord(c) for c in "needle"]
        return [[i] for i in range(n - 5) if codes[i:i + 6] == nd]
    if g == "alt":
        out = []
        if codes[-2:] == [120, 121]: out.append([n - 2, hh(codes[:-2])])
        if codes[-2:] == [120, 122]: out.append([n - 2, hh(codes[:-2])])
        return out


def mirror_cases(rng, conts, thorough):
    """(content index, grammar, type, reposition) for the mirror comparison"""
    out = []
    for k, (name, cs) in enumerate(conts):
        if "\ufeff" in cs:
            continue            # known findings pio:U+FEFF-*: get_n_chars/3 drops the character, positions are those of another text
        kind = re.match(r"[a-z_]+", name).group(0)
        gs = ["fail"]
        if kind in ("plain", "multi"): gs += ["all", "first3"]
        elif kind == "needle": gs += ["needle"]
        elif kind in ("end_xy", "end_xz"): gs += ["alt"]
        elif kind == "zzz": pass
        else: gs += [rng.choice(["all", "needle", "alt", "first3"])] + (["alt", "needle"] if thorough else [])
        for g in gs:
            for rp in ("true", "false"):
                out.append((k, g, "text", rp))
        if kind == "multi" or kind.startswith("straddle"):
            out.append((k, rng.choice(["all", "first3", "alt"]), "binary", rng.choice(["true", "false"])))
    return out


def jnum(t):
    return int(t["i"]) if isinstance(t, dict) and "i" in t else None


def run(ctx):
    global N
    rng = ctx.rng
    failures, tie_breaks = [], []
    src = open(os.path.join(core.REPO, "src/lib/pio.pl")).read()
    try:
        N = chars_to_read()
    except Exception as e:
        tie_breaks.append({"kind": "translator", "what": "coq/Gen/PioParams.v does not define chars_to_read", "detail": str(e)})
    if "chars_to_read(%d)." % N not in src:
        tie_breaks.append({"kind": "translator", "what": "chars_to_read/1 of pio.pl is not the regenerated constant %d" % N, "detail": ""})
    conts = contents(rng)
    mcases = mirror_cases(rng, conts, ctx.thorough)
    d = "/var/tmp/verif_C47_%d" % os.getpid()
    shutil.rmtree(d, ignore_errors=True)
    os.makedirs(d)
    cases = []
    try:
        for k, (name, cs) in enumerate(conts):
            open(os.path.join(d, "f%d.txt" % k), "wb").write("".join(cs).encode("utf-8"))
        for k, (name, cs) in enumerate(conts):
            raw = "".join(cs).encode("utf-8")
            for g in GRAMMARS:
                modes = [("text", "two"), ("text", "three"), ("binary", "three")]
                for ty, mode in modes:
                    cases.append((k, g, ty, mode))
        jobs, per = [], 12
        for j in range(0, len(cases), per):
            qs = ["c47_case(%s, \"%s\", %s, %s, Lazy, Ref, RefSum)." % (g, os.path.join(d, "f%d.txt" % k), ty, mode) for (k, g, ty, mode) in cases[j:j + per]]
            jobs.append({"id": "j%d" % j, "consult": DRIVER, "fresh": True, "timeout_ms": 120000, "max_answers": 2, "queries": qs})
        mper = 10
        for j in range(0, len(mcases), mper):
            qs = ["c47p_case(%s, \"%s\", %s, %s, Sols, Log, Final)." % (g, os.path.join(d, "f%d.txt" % k), ty, rp) for (k, g, ty, rp) in mcases[j:j + mper]]
            jobs.append({"id": "m%d" % j, "consult": DRIVER, "fresh": True, "timeout_ms": 120000, "max_answers": 2, "queries": qs})
        rng.shuffle(jobs)
        res = core.vrun_query(ctx.prop, jobs, tag="q")
    finally:
        shutil.rmtree(d, ignore_errors=True)
    dist = {"grammar": {}, "mode": {}, "chars": {"<=1": 0, "<N": 0, "N..2N": 0, ">2N": 0}, "solutions": {}, "ref_reader_differs": 0}
    nontriv, evals, seen = 0, 0, set()
    samples = []
    per_key = {}
    for j in range(0, len(cases), per):
        rec = res.get("j%d" % j, {})
        rs = rec.get("results") or []
        for off, (k, g, ty, mode) in enumerate(cases[j:j + per]):
            name, cs = conts[k]
            chars = cs if ty == "text" else [chr(b) for b in "".join(cs).encode("utf-8")]
            q = "c47_case(%s, <file %s: %d chars>, %s, %s, Lazy, Ref, RefSum)." % (g, name, len(cs), ty, mode)
            ans = rs[off] if off < len(rs) else None
            if not ans or not isinstance(ans[0], dict) or "b" not in ans[0]:
                failures.append({"key": "pio:no-answer", "what": "the comparison query did not produce an answer (crash, hang, uncaught error)", "input": q,
                                 "impl": json.dumps(ans if ans is not None else rec)[:400], "spec": "one answer", "property_fails": True})
                continue
            b = ans[0]["b"]
            lazy, ref, refsum = norm(b["Lazy"]), norm(b["Ref"]), norm(b["RefSum"])
            exp = expected(g, chars)
            exp = [list(x) if isinstance(x, list) else x for x in exp]
            evals += 1
            has_bom = "﻿" in cs and ty == "text"
            ref_ok = refsum == ("s", len(chars), h(chars))
            if not ref_ok:
                dist["ref_reader_differs"] += 1
                if not has_bom:
                    tie_breaks.append({"kind": "harness", "what": "get_n_chars/3 did not deliver the characters of the file (reference side unusable)", "detail": q})
            bad = (lazy != exp) or (ref_ok and lazy != ref)
            if bad:
                if has_bom:
                    key = {"bom_chunk": "pio:U+FEFF-at-read-ahead-boundary-dropped", "bom_start": "pio:U+FEFF-at-file-start-dropped"}.get(name, "pio:U+FEFF-dropped")
                    what = "phrase_from_file silently drops a U+FEFF character of the file (" + name + "): get_n_chars/3 skips a U+FEFF that is the first character of a read"
                else:
                    key, what = "pio:mismatch:" + g, "phrase_from_file differs from phrase/2 on the file's characters"
                if per_key.get(key, 0) < 3:
                    per_key[key] = per_key.get(key, 0) + 1
                    failures.append({"key": key, "what": what, "input": q, "impl": "phrase_from_file solutions: %s" % (lazy,),
                                     "spec": "phrase/2 on the characters read: %s; independent evaluation: %s" % (ref if ref_ok else "(reader dropped characters)", exp),
                                     "property_fails": True})
            dist["grammar"][g] = dist["grammar"].get(g, 0) + 1
            dist["mode"][ty + "/" + mode] = dist["mode"].get(ty + "/" + mode, 0) + 1
            n = len(chars)
            dist["chars"]["<=1" if n <= 1 else "<N" if n < N else "N..2N" if n <= 2 * N else ">2N"] += 1
            ns = str(len(exp))
            dist["solutions"][ns] = dist["solutions"].get(ns, 0) + 1
            if n >= N and (k, g, ty, mode) not in seen:
                seen.add((k, g, ty, mode)); nontriv += 1
            if len(samples) < 6 and n >= N and g in ("needle", "alt", "all"):
                samples.append({"query": q, "phrase_from_file": str(lazy)[:200], "phrase": str(ref)[:200]})
    # ------------------------------------------------------------ mirror vs implementation (phrase_from_stream/2 on streams opened by the driver)
    mdist = {"grammar": {}, "reposition": {}, "type": {}, "position_traces": {}, "stopped_before_end": 0}
    exprs, metas = [], []
    mseen = set()
    for j in range(0, len(mcases), mper):
        rec = res.get("m%d" % j, {})
        rs = rec.get("results") or []
        for off, (k, g, ty, rp) in enumerate(mcases[j:j + mper]):
            name, cs = conts[k]
            raw = "".join(cs).encode("utf-8")
            codes = [ord(c) for c in cs] if ty == "text" else list(raw)
            q = "c47p_case(%s, <file %s: %d chars>, %s, %s, Sols, Log, Final)." % (g, name, len(cs), ty, rp)
            ans = rs[off] if off < len(rs) else None
            if not ans or not isinstance(ans[0], dict) or "b" not in ans[0]:
                failures.append({"key": "pio:stream:no-answer", "what": "phrase_from_stream/2 on a stream opened by the driver: no answer (crash, hang, uncaught error)", "input": q,
                                 "impl": json.dumps(ans if ans is not None else rec)[:400], "spec": "one answer", "property_fails": True})
                continue
            b = ans[0]["b"]
            sols = norm(b["Sols"])
            exp = mexpected(g, codes)
            evals += 1
            if sols != exp:
                key = "pio:stream:mismatch:%s:reposition-%s" % (g, rp)
                if per_key.get(key, 0) < 3:
                    per_key[key] = per_key.get(key, 0) + 1
                    failures.append({"key": key, "what": "phrase_from_stream/2 (stream opened with reposition(%s), type(%s)) differs from the grammar's solutions on the characters" % (rp, ty),
                                     "input": q, "impl": str(sols)[:300], "spec": str(exp)[:300], "property_fails": True})
                continue
            # byte offsets -> character counts
            if ty == "text":
                off2ch, o = {0: 0}, 0
                for i, c in enumerate(cs):
                    o += len(c.encode("utf-8")); off2ch[o] = i + 1
            else:
                off2ch = {i: i for i in range(len(raw) + 1)}
            log_b = [jnum(x) for x in (b["Log"].get("l") or [])] if isinstance(b["Log"], dict) else []
            fin_b = jnum(b["Final"])
            if fin_b not in off2ch or any(x not in off2ch for x in log_b):
                tie_breaks.append({"kind": "harness", "what": "a stream position observed on the implementation is not at a character boundary of the file", "detail": q + " log=%s final=%s" % (log_b, fin_b)})
                continue
            log_c, fin_c = [off2ch[x] for x in log_b], off2ch[fin_b]
            exprs.append("check_case %s chars_to_read %d %s [%s] [%s]%%N %d" % (
                rp, MGRAMMARS[g], segments(codes),
                "; ".join("[%s]%%N" % "; ".join(str(x) for x in sol) if sol else "[]" for sol in sols),
                "; ".join(str(x) for x in log_c), fin_c))
            metas.append((q, k, g, ty, rp, codes, sols, log_c, fin_c))
            mdist["grammar"][g] = mdist["grammar"].get(g, 0) + 1
            mdist["reposition"][rp] = mdist["reposition"].get(rp, 0) + 1
            mdist["type"][ty] = mdist["type"].get(ty, 0) + 1
            tl = str(len(log_c))
            mdist["position_traces"][tl] = mdist["position_traces"].get(tl, 0) + 1
            if fin_c < len(codes): mdist["stopped_before_end"] += 1
            if len(codes) >= N and (k, g, ty, rp) not in mseen:
                mseen.add((k, g, ty, rp)); nontriv += 1
            if len(samples) < 9 and len(codes) > N and g in ("alt", "needle") and len(log_c) >= 2:
                samples.append({"query": q, "solutions": str(sols)[:120], "probe_positions_chars": log_c, "final_position_chars": fin_c})
    if exprs:
        order = list(range(len(exprs)))
        rng.shuffle(order)
        chunk = max(8, -(-len(order) // (2 * core.NPROC)))
        bad, errors = core.coq_eval_bools(ctx.prop, IMPORTS, [exprs[i] for i in order], chunk=chunk, timeout=900)
        for (sh, err) in errors:
            tie_breaks.append({"kind": "coq-eval", "what": "the mirror comparison could not be evaluated (shard %s)" % sh, "detail": str(err)[-1500:]})
        shown = 0
        for bi in bad:
            q, k, g, ty, rp, codes, sols, log_c, fin_c = metas[order[bi]]
            spec = ""
            if shown < 3:
                shown += 1
                spec = core.coq_eval_show(ctx.prop, IMPORTS, "let o := run_case %s chars_to_read %d (expand %s) in (o_sols o, o_log o, o_final o, o_reads o)" % (rp, MGRAMMARS[g], segments(codes)))
            key = "pio:mirror:%s:reposition-%s" % (g, rp)
            if per_key.get(key, 0) < 3:
                per_key[key] = per_key.get(key, 0) + 1
                tie_breaks.append({"kind": "coq-eval", "what": "the impl-mirror of pio.pl (coq/C47/Pio.v) and the implementation disagree on solutions / probe positions / final position: "
                                   "the theorems no longer describe the code (or the code re-reads differently)",
                                   "detail": "%s  [%s] implementation (positions in characters): sols=%s log=%s final=%s ; mirror (sols, log, final, reads): %s" % (q, key, sols, log_c, fin_c, spec[-600:])})
    dist["mirror"] = mdist
    dist["chars_to_read"] = N
    return {"evaluations": evals, "distinct_nontrivial": nontriv,
            "rule": ("a case = (file content, grammar, stream type, phrase_from_file/2 or /3); contents: 11 sizes around the 4096-character read-ahead x {plain, "
                     "multi-byte characters on the boundaries, 'needle' across the boundaries, ending in xy/xz with decoys, starting with zzz} + 8 contents with "
                     "multi-byte characters straddling byte 8192 / character 4096 / 8192 + 10 seed-dependent contents + 3 with U+FEFF; 8 grammars (whole text, "
                     "length, newline count, all positions of a needle, last character, alternative that fails late and re-reads, failing, first three). "
                     "Non-trivial = distinct case whose content has at least chars_to_read characters (the lazy list is materialised in more than one read). "
                     "Mirror cases = (content without U+FEFF, probe grammar in fail/first3/all/needle/alt chosen by the kind of content, text or binary, "
                     "reposition(true|false)) run through phrase_from_stream/2 on a stream opened by the driver; the solutions, the distinct consecutive stream positions "
                     "seen by the probes and the final position are compared inside Coq (check_case) with the run of the impl-mirror on the same content and the "
                     "regenerated chars_to_read; non-trivial under the same rule."),
            "samples": samples, "distribution": dist, "failures": failures, "tie_breaks": tie_breaks}
