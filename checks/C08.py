"""C08 -- Static, dynamic and meta-called code give the same answers."""
import sys
from vlib import core, terms

sys.path.insert(0, core.ROOT)
from gen import sld_common as S

META = {
    "level": "proof",
    "text": ("Coq theorems over the reference interpreter: load_mode_irrelevant (the interpreter depends on the program only through the per-predicate "
             "clause sequences), discontiguous_pieces_same_sequence / interleaving_keeps_each_order (interleaving a predicate's clauses with other "
             "predicates' clauses keeps its sequence), assertz_in_order_is_consult, call_n_split_law / call_n_builds_goal (call/N with split arguments "
             "is the same call) and call_n_opaque_to_cut. The implementation's five code paths (consulted, discontiguous pieces, dynamic+assertz, "
             "a vanilla meta-interpreter over clause/2, every body goal through call/N) are tied to the model by running the same programs "
             "through all of them and comparing each ordered answer sequence + exception with Sld.solve evaluated in Coq."),
    "note": ("Trusted: Coq kernel + vm_compute; Engine/Sld.v as the statement of ISO resolution; gen/sld_common.py; harness vrun. Not proved: mi_faithful "
             "(the meta-interpreter equivalence is differential only, for cut-free programs). The loader (loader.pl, compile.rs), dynamic clause "
             "selection and the call/N dispatcher are not modelled: differential half only."),
    "technique": "Coq proof (load_mode_irrelevant + interleaving/assertz/call-N laws) over a reference interpreter + 5-way differential correspondence evaluated in Coq",
    "design_ref": "DESIGN.md section 8, C08",
    "coq_targets": ["C08/Props.vo"],
    "coq_dirs": ["Engine", "C08"],
    "props": "C08/Props.v",
    "trusted_base": ["Coq 8.16.1 kernel, vm_compute (no native_compute)", "gen/sld_common.py (generator, mode transformations, serialisers)",
                     "harness/vrun + tools/vlib (correspondence)", "Engine/Sld.v as the statement of ISO depth-first resolution"],
    "assumptions": ["programs are within the C07 generator space; undefined procedures are excluded (unknown-procedure handling differs by design between static and dynamic code)",
                    "the meta-interpreter and call/N modes are run on cut-free programs resp. cut-free goals only (documented opacity of cut)"],
}

FEATS = {"cut": 1, "ite": 1, "naf": 1, "call": 1, "arith": 1, "types": 1, "rec": 1, "big": 1}
FEATS_NOCUT = dict(FEATS, cut=0)

MI_DEFS = """vmi(G) :- var(G), !, throw(error(instantiation_error, vmi)).
vmi(true) :- !.
vmi((A,B)) :- !, vmi(A), vmi(B).
vmi((C->T;E)) :- !, ( vmi(C) -> vmi(T) ; vmi(E) ).
vmi((A;B)) :- !, ( vmi(A) ; vmi(B) ).
vmi((C->T)) :- !, ( vmi(C) -> vmi(T) ).
vmi(_:G) :- !, vmi(G).
vmi(\\+ G) :- !, \\+ vmi(G).
vmi(once(G)) :- !, ( vmi(G) -> true ).
vmi(G) :- G =.. [call, F0|As], !, vstrip(F0, F), ( var(F) -> throw(error(instantiation_error, vmi)) ; true ), F =.. L0, append(L0, As, L1), G1 =.. L1, vmi(G1).
vmi(G) :- vuser(G), !, clause(G, B), vmi(B).
vmi(G) :- call(G).
vstrip(F0, F) :- nonvar(F0), F0 = _:F1, !, vstrip(F1, F).
vstrip(F, F).
vuser(G) :- functor(G, N, _), atom_chars(N, [j, D|_]), memberchk(D, ['0','1','2','3','4','5','6','7','8','9']).
"""


def keyof(c):
    h = c[0]
    return (h[1], len(h[2]) if h[0] == "cmp" else 0)


def preds_of(prog):
    ks = []
    for c in prog:
        if keyof(c) not in ks: ks.append(keyof(c))
    return ks


def decl(kind, prog):
    return "".join(":- %s(%s/%d).\n" % (kind, terms.quote_atom(f), n) for f, n in preds_of(prog))


def shuffle_pieces(rng, prog):
    """split every predicate's clause sequence into contiguous pieces and interleave the pieces at random (own order kept)"""
    seqs = {}
    for c in prog:
        seqs.setdefault(keyof(c), []).append(c)
    piece_lists = []
    for k, cs in seqs.items():
        pieces, i = [], 0
        while i < len(cs):
            n = rng.choice([1, 1, 2, 3])
            pieces.append(cs[i:i + n]); i += n
        piece_lists.append(pieces)
    out = []
    while any(piece_lists):
        pl = rng.choice([p for p in piece_lists if p])
        out += pl.pop(0)
    return out


MODE_TAG = {"discontiguous": "d", "assertz": "a", "callN": "c", "mi": "m"}


def rename(t, old, new):
    """rename the generated predicates (prefix old -> new) everywhere, so that every mode has its own predicates"""
    if t[0] == "atom":
        return ("atom", new + t[1][len(old):]) if t[1].startswith(old) else t
    if t[0] == "cmp":
        return ("cmp", new + t[1][len(old):] if t[1].startswith(old) else t[1], [rename(x, old, new) for x in t[2]])
    return t


def has_cut(t):
    if t == S.A("!"): return True
    return t[0] == "cmp" and any(has_cut(x) for x in t[2])


CONTROL = {(",", 2), (";", 2), ("->", 2), ("\\+", 1), ("call", 1), ("once", 1)}


def split_calls(rng, g):
    """every non-control goal through call/N with its last arguments split off"""
    if g[0] == "var" or g == S.A("!"):
        return g
    if g[0] == "atom":
        return S.C("call", g)
    if g[0] != "cmp":
        return g
    f, a = g[1], g[2]
    if (f, len(a)) in CONTROL:
        return ("cmp", f, [split_calls(rng, x) for x in a])
    if f == "call":
        return g
    if f == "=" and a[0][0] == "var" and a[0][1].startswith("G"):      # G = Goal, call(G): leave the goal term alone
        return g
    cut = rng.randrange(0, len(a))
    head = S.C(f, *a[:cut]) if cut else S.A(f)
    if len(a) - cut > 7:
        return g
    return S.C("call", head, *a[cut:])


def run(ctx):
    rng = ctx.rng
    nprog = ctx.scale(500, 750)
    jobs, meta = [], {}
    dist = {"programs": 0, "cut_free_programs": 0, "mode_runs": {}, "dropped_impl": 0, "dropped_model": 0, "prefix_only_ambiguous_arith_error": 0}
    n = 0
    while n < nprog:
        cutfree = rng.random() < 0.5
        pfx = "j%d_" % n
        g = S.ProgGen(rng, pfx, FEATS_NOCUT if cutfree else FEATS)
        prog = g.program()
        est = S.estimate_program(prog)
        queries = []
        for _ in range(3):
            q, t = g.query()
            a, w = S.estimate_goal(q, est)
            if a <= 120 and w <= 2000:
                queries.append((q, t))
        if not queries:
            continue
        cutfree = not any(has_cut(b) for _, b in prog) and not any(has_cut(q) for q, _ in queries)
        def rn(tag):
            new = "j%d%s_" % (n, tag)
            return ([(rename(h, pfx, new), rename(b, pfx, new)) for h, b in prog], [(rename(q, pfx, new), t) for q, t in queries])
        modes = {"consult": (S.program_text(prog), queries, None)}
        pd, qd = rn("d")
        modes["discontiguous"] = (decl("discontiguous", pd) + S.program_text(shuffle_pieces(rng, pd)), qd, None)
        pa, qa = rn("a")
        loader = "vload_j%d :- %s.\n" % (n, ", ".join("assertz((%s))" % S.clause_text(c)[:-1] for c in pa))
        modes["assertz"] = (decl("dynamic", pa) + loader, qa, "vload_j%d, vsld_enc0(ok, Ans__)." % n)
        pc, qc = rn("c")
        modes["callN"] = (S.program_text([(h, split_calls(rng, b) if b != S.TRUE else b) for h, b in pc]), qc, None)
        if cutfree:
            dist["cut_free_programs"] += 1
            pm, qm = rn("m")
            modes["mi"] = (":- use_module(library(lists)).\n" + MI_DEFS + decl("dynamic", pm) + S.program_text(pm),
                           [(S.C("vmi", q), t) for q, t in qm], None)
        for m, (text, qs, setup) in modes.items():
            jid = "j%d%s" % (n, m)
            jobs.append({"id": jid, "text": text, "queries": qs, "setup": setup})
            dist["mode_runs"][m] = dist["mode_runs"].get(m, 0) + 1
        meta[n] = (prog, queries, list(modes))
        n += 1
    dist["programs"] = n
    obs = S.run_impl(ctx.prop, jobs, tag="impl", timeout_ms=1000, paths=("call", "clause"))

    defs, exprs, info = {}, [], []
    failures, tie_breaks = [], []
    for pn, (prog, queries, modes) in meta.items():
        pname = "prog_j%d" % pn
        defs[pname] = ("program", S.program_coq(prog))
        for i, (q, t) in enumerate(queries):
            seen = {}
            for m in modes:
                for path, o in sorted(obs["j%d%s" % (pn, m)][i].items()):
                    # an answer may contain a goal term naming a predicate: undo the per-mode renaming before comparing
                    tag = MODE_TAG.get(m)
                    if tag and o[0] == "ok":
                        old_, new_ = "j%d%s_" % (pn, tag), "j%d_" % pn
                        o = ("ok", [rename(a, old_, new_) for a in o[1]], rename(o[2], old_, new_) if o[2] is not None else None,
                             [rename(a, old_, new_) for a in o[3]]) + tuple(o[4:])
                    if o[0] == "panic":
                        k = repr(("panic", o[1][:40]))
                        if k not in seen:
                            seen[k] = len(exprs)
                            exprs.append(S.check_expr(pname, q, t, ("ok", [], None, [])))
                            info.append((pn, i, [], o))
                        info[seen[k]][2].append(m + "/" + path)
                        continue
                    if o[0] != "ok":
                        dist["dropped_impl"] += 1
                        continue
                    k = repr(o)
                    if k not in seen:
                        seen[k] = len(exprs)
                        exprs.append(S.check_expr(pname, q, t, o))
                        info.append((pn, i, [], o))
                    info[seen[k]][2].append(m + "/" + path)
    codes, errs = S.coq_eval_codes(ctx.prop, S.IMPORTS, defs, exprs, chunk=250)
    for k, e in errs:
        tie_breaks.append({"kind": "coq-eval", "what": "model evaluation shard failed", "detail": e[-1500:]})
    evaluations, nontrivial = 0, set()
    by_key = {}
    for c, (pn, i, where, o) in zip(codes, info):
        if c is None: continue
        if c in (2, 3, 4): dist["dropped_model"] += len(where); continue
        evaluations += len(where)
        prog, queries, modes = meta[pn]
        q, t = queries[i]
        if c == 5:
            dist["prefix_only_ambiguous_arith_error"] += len(where); continue
        if o[0] == "panic":
            key = S.panic_key(prog, q, o[1])
        elif c == 1:
            key = S.failure_key(prog, q, o)
            if key == "answers-differ":
                ms = sorted(set(w.split("/")[0] for w in where))
                key = "mode-differs:" + ",".join(ms)
        else:
            if (o[1] or o[2] is not None) and len(set(w.split("/")[0] for w in where)) >= 3:
                nontrivial.add((pn, i))
            continue
        by_key.setdefault(key, []).append((pn, i, where, o))
    for key, lst in sorted(by_key.items()):
        pn, i, where, o = lst[0]
        prog, queries, modes = meta[pn]
        q, t = queries[i]
        spec = S.show_model(ctx.prop, S.program_coq(prog), q, t) if o[0] != "panic" else "no panic"
        failures.append({"key": key, "count_in_this_run": len(lst), "modes": where,
                         "what": "a loading mode / call path gives answers different from ISO resolution of the same clauses",
                         "input": S.program_text(prog) + "?- " + S.query_text(q, t),
                         "impl": (o[1][:300] if o[0] == "panic" else "answers=%s ball=%s" % ([S.pl(a) for a in o[1]], S.pl(o[2]) if o[2] else None)),
                         "spec": spec[:1500], "property_fails": True})
    dist["disagreements_by_key"] = {k: len(v) for k, v in by_key.items()}
    samples = []
    for pn in list(meta)[:2]:
        prog, queries, modes = meta[pn]
        samples.append({"program": S.program_text(prog), "query": S.query_text(*queries[0]), "modes": modes,
                        "impl_consult": repr(obs["j%dconsult" % pn][0]["call"])[:200]})
    return {"evaluations": evaluations, "distinct_nontrivial": len(nontrivial),
            "rule": ("C07-space programs (half of them cut-free), 3 queries each, run (a) consulted, (b) consulted as shuffled discontiguous pieces with "
                     ":- discontiguous, (c) :- dynamic + assertz/1 of every clause in textual order, (d) through a vanilla meta-interpreter over clause/2 "
                     "(cut-free programs), (e) with every body goal passed to call/N with its last arguments split off; each query both as a compiled "
                     "wrapper clause and through call/1; every observed ordered answer sequence + exception compared with Sld.solve of the original "
                     "clauses in Coq (one evaluation per mode/path run); non-trivial = distinct (program, query) with an answer or exception on which "
                     "at least 3 modes agree with the model"),
            "samples": samples, "distribution": dist, "failures": failures, "tie_breaks": tie_breaks}
