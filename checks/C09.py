"""C09 -- dynamic predicates follow the logical update view."""
import json, os
from vlib import core

META = {
    "level": "proof",
    "text": ("Coq theorem snapshot_isolation: start a call in ANY well-formed machine state and let ANY history follow (assertz, asserta, "
             "once(retract), retractall, retract/1 generators being advanced, other calls being opened, advanced and cut, listings; any "
             "interleaving and nesting): the answers of the impl-mirror (clause chains with birth/death stamps, global clock, per-call cc kept "
             "in the choice point, the liveness test `birth < cc && Finite(cc) <= death`, look-ahead for the next living clause) are exactly "
             "the clauses alive and matching when the call started, in order. mirror_refines_snapshot_spec extends this to every observation "
             "of every history (the mirror equals a specification with plain lists and copied snapshots); asserta_front, assertz_back, "
             "retract_first_visible, retract_reentrant, later_calls_see_updates are theorems over the same mirror. The mirror is tied to the "
             "code differentially: generated drivers (conjunctions of generator calls and updates executed by chronological backtracking, "
             "several partially consumed calls open at once, indexed and unindexed first arguments) run on the implementation and their "
             "complete event log is compared in Coq with the log of the model for the same driver (driver_log_is_spec: that log is the "
             "specification's log; check_run_meaning: the comparison is equality of logs)."),
    "note": ("Trusted: Coq kernel + vm_compute; the harness vrun; the Python driver generator, the log conversion and the compact string "
             "channel decoded by check_s. Modelled, not verified: the WAM control of the driver (chronological backtracking, cut of "
             "once/->), head unification and first-argument indexing (abstracted into kmatch: a clause matches a call iff the first "
             "arguments unify; indexed and unindexed paths are only distinguished by the generator), the '$clause' twin predicate behind "
             "clause/2 and retract/1 (same chain in the model). abolish/1 is NOT in the model (the property text mentions it; observed "
             "by hand only). Failure keys: luv-core:* / retry-stale-cc = deviation on predicates without any constant first argument "
             "(pure stamp machinery); dyn-index:* = deviation on predicates whose first-argument index is maintained incrementally. "
             "No axioms (all theorems closed under the global context)."),
    "technique": "Coq proof (snapshot_isolation, refinement of a snapshot specification) over an impl-mirror model + differential correspondence evaluated in Coq",
    "design_ref": "DESIGN.md section 8, C09",
    "coq_targets": ["C09/Props.vo"],
    "coq_dirs": ["C09"],
    "props": "C09/Props.v",
    "trusted_base": ["Coq 8.16.1 kernel, vm_compute (no native_compute)", "harness/vrun + tools/vlib (correspondence)",
                     "Python driver generator, log conversion and string channel (checks/C09.py, check_s in coq/C09/Model.v)",
                     "WAM control (backtracking, cut), indexing and unification modelled abstractly, not verified"],
    "assumptions": ["clause uids handed out by the driver counter play the role of code addresses (unique per asserted clause)",
                    "abolish/1 is outside the model",
                    "the correspondence covers predicates of arity 2 in module user, facts and rules with a single unification in the body"],
}

IMPORTS = "From V Require Import C09.Model.\nOpen Scope N_scope."
KEYTXT = {0: "k0", 1: "k1", 2: "7", 3: "8", 4: "f(1)", 5: "f(2)"}
CAP = 160            # longest log (events) a generated driver may produce under the specification
BUDGET = 400         # the Prolog driver stops itself after this many events


# ------------------------------------------------------------------ generation
# Predicate 0 = a/2: facts a(Key, Uid) with constant first arguments -> first-argument indexing is used.
# Predicate 1 = b/2: rules b(K, T) :- T = Uid with K a variable or a constant and a variable second argument, so that
# nothing but the first argument can be indexed; with all K variables the predicate is not indexed at all.
def gen_case(rng):
    """-> (l0, l1, nu, goals)"""
    mode = rng.choice(["core", "core2", "core2", "core2", "indexed", "indexed", "mixed", "both"])
    keyset = rng.choice([[0, 1], [0, 1, 2], [0, 2, 4, 5], [0, 1, 2, 3, 4, 5]])
    if mode == "core2":
        # keys >= 10 live in the SECOND argument of b/2 (first arguments are all variables: no first-argument indexing),
        # so that retract/1 and calls can single out any clause, the last one included, on an unindexed predicate
        keyset = [k + 10 for k in keyset]

    def bkey():
        if mode == "core":
            return None
        if mode == "core2":
            return rng.choice(keyset)
        return None if rng.random() < 0.5 else rng.choice(keyset)
    n0 = 0 if mode in ("core", "core2", "mixed") else rng.choice([0, 1, 2, 3, 3, 4, 5])
    n1 = 0 if mode == "indexed" else rng.choice([0, 1, 2, 3, 3, 4, 5])
    uid = 0
    l0, l1 = [], []
    for _ in range(n0):
        l0.append((uid, rng.choice(keyset))); uid += 1
    for _ in range(n1):
        l1.append((uid, bkey())); uid += 1
    ng = rng.choice([2, 3, 3, 4, 4, 5, 5, 6, 7])
    goals = []
    for _ in range(ng):
        if mode in ("core", "core2", "mixed"):
            p = 1
        elif mode == "indexed":
            p = 0
        else:
            p = rng.choice([0, 0, 1])
        q = None if rng.random() < 0.5 else rng.choice(keyset)
        r = rng.random()
        if r < 0.30:
            goals.append(("gen", p, q))
        elif r < 0.36:
            goals.append(("once", p, q))
        elif r < 0.44:
            goals.append(("rgen", p, q))
        elif r < 0.58:
            goals.append(("assertz", p, rng.choice(keyset) if p == 0 else bkey()))
        elif r < 0.68:
            goals.append(("asserta", p, rng.choice(keyset) if p == 0 else bkey()))
        elif r < 0.82:
            goals.append(("retract1", p, q))
        elif r < 0.87:
            goals.append(("retractall", p, q))
        elif r < 0.94:
            goals.append(("listc", p, q))
        else:
            goals.append(("listg", p, q))
    return l0, l1, uid, goals


def indexable(case, p):
    """does predicate p ever hold a clause with a constant first argument in this driver?"""
    l0, l1, nu, goals = case
    return any(k is not None and k < 10 for (_, k) in (l0, l1)[p]) or \
        any(g[0] in ("assertz", "asserta") and g[1] == p and g[2] is not None and g[2] < 10 for g in goals)


def kmatch(q, k):
    return q is None or k is None or q == k


class TooLong(Exception):
    pass


def simulate(l0, l1, nu, goals, cap=CAP):
    """Reference run under snapshot semantics (case selection, statistics and failure classification only; the
    oracle is the Coq model).  Returns (log, info): log = [(k, obs, flags)], obs = ('v', uid|None) | ('l', [..]) | ('n',).
    flags: 'stale' = the event comes from a retry of a call whose predicate was stamped (assert/retract) at a clock value
    in [cc of the call, cc register) -- the only situation in which the defect `retry-stale-cc` (cc restored from the choice
    point only after the search) can change the result; 'across' = the call was open while a clause was asserted to its
    predicate; 'asserted' / 'retracted' = the predicate of the goal was asserted to / retracted from earlier in the run."""
    db = {0: list(l0), 1: list(l1)}
    stamps = {0: [], 1: []}            # clock values at which the predicate was changed
    nass = {0: 0, 1: 0}
    nret = {0: 0, 1: 0}
    st = {"nu": nu, "clock": 2, "reg": 0}
    log = []
    info = {"retries_after_update": 0, "retries": 0, "max_open": 0, "rnext_gone": 0, "stale": 0, "updates_under_open": 0}
    open_calls = []

    def emit(k, obs, p, extra=()):
        if len(log) >= cap:
            raise TooLong()
        fl = set(extra)
        if nass[p]: fl.add("asserted")
        if nret[p]: fl.add("retracted")
        log.append((k, obs, fl))

    def tick(p, is_assert):
        stamps[p].append(st["clock"]); st["clock"] += 1
        if is_assert: nass[p] += 1
        else: nret[p] += 1
        if any(pp == p for pp in open_calls):
            info["updates_under_open"] += 1

    def run(k):
        if k == len(goals):
            return
        kind, p, q = goals[k]
        if kind in ("gen", "once"):
            snap = [u for (u, kk) in db[p] if kmatch(q, kk)]
            icc = st["clock"]; st["reg"] = icc
            if kind == "once":
                emit(k, ("v", snap[0] if snap else None), p)
                run(k + 1)
                return
            open_calls.append(p)
            a0 = nass[p]
            info["max_open"] = max(info["max_open"], len(open_calls))
            for j, u in enumerate(snap + [None]):
                extra = []
                if j > 0:
                    info["retries"] += 1
                    if any(icc <= t for t in stamps[p]):
                        info["retries_after_update"] += 1
                    if any(icc <= t < st["reg"] for t in stamps[p]):
                        info["stale"] += 1
                        extra.append("stale")
                    if nass[p] > a0:
                        extra.append("across")
                if u is None:
                    open_calls.pop()
                emit(k, ("v", u), p, extra)
                if u is not None:
                    if j > 0:
                        st["reg"] = icc
                    run(k + 1)
        elif kind == "rgen":
            snap = [u for (u, kk) in db[p] if kmatch(q, kk)]
            st["reg"] = st["clock"]
            for u in snap:
                gone = not any(x[0] == u for x in db[p])
                if gone:
                    info["rnext_gone"] += 1
                else:
                    db[p] = [x for x in db[p] if x[0] != u]
                    tick(p, False)
                emit(k, ("v", u), p)
                run(k + 1)
            emit(k, ("v", None), p)
        elif kind in ("assertz", "asserta"):
            u = st["nu"]; st["nu"] += 1
            if kind == "assertz":
                db[p] = db[p] + [(u, q)]
            else:
                db[p] = [(u, q)] + db[p]
            emit(k, ("v", u), p)
            tick(p, True)
            run(k + 1)
        elif kind == "retract1":
            st["reg"] = st["clock"]
            hit = None
            for x in db[p]:
                if kmatch(q, x[1]):
                    hit = x; break
            emit(k, ("v", hit[0] if hit else None), p)
            if hit is not None:
                db[p] = [x for x in db[p] if x is not hit]
                tick(p, False)
            run(k + 1)
        elif kind == "retractall":
            st["reg"] = st["clock"]
            emit(k, ("n",), p)
            for x in [x for x in db[p] if kmatch(q, x[1])]:
                tick(p, False)
            db[p] = [x for x in db[p] if not kmatch(q, x[1])]
            run(k + 1)
        elif kind in ("listc", "listg"):
            st["reg"] = st["clock"]
            emit(k, ("l", [u for (u, kk) in db[p] if kmatch(q, kk)]), p)
            run(k + 1)
        else:
            raise ValueError(kind)
    run(0)
    return log, info


# ------------------------------------------------------------------ Prolog driver
def ktxt(k):
    return "_" if k is None else KEYTXT[k % 10]


def second_arg_style(l1, goals):
    return any(k is not None and k >= 10 for (_, k) in l1) or any(g[1] == 1 and g[2] is not None and g[2] >= 10 for g in goals)


def driver(j, l0, l1, nu, goals):
    A, B = "a_%s" % j, "b_%s" % j
    out = [":- dynamic(%s/2).\n:- dynamic(%s/2).\n" % (A, B)]
    for (u, k) in l0:
        out.append("%s(%s, %d).\n" % (A, ktxt(k), u))
    style2 = second_arg_style(l1, goals)
    for (u, k) in l1:
        if style2:
            out.append("%s(_, %s-%d).\n" % (B, ktxt(k), u))
        else:
            out.append("%s(%s, T) :- T = %d.\n" % (B, ktxt(k), u))
    out.append("note_%s(E) :- bb_get(lg_%s, L), bb_put(lg_%s, [E|L]), length(L, N), ( N >= %d -> throw(budget_%s) ; true ).\n" % (j, j, j, BUDGET, j))
    out.append("fresh_%s(N) :- bb_get(cnt_%s, N), N1 is N+1, bb_put(cnt_%s, N1).\n" % (j, j, j))
    out.append("log_%s(L) :- bb_get(lg_%s, L0), reverse(L0, L).\n" % (j, j))
    body = []
    n = "note_%s" % j
    for k, (kind, p, q) in enumerate(goals):
        T = "T%d" % k
        if p == 0:
            call = "%s(%s, %s)" % (A, ktxt(q), T)
            cl = call                                   # clause term for assert / retract
            clause = "clause(%s, true)" % call
        elif style2:
            # the call leaves both arguments unbound and selects afterwards: no index (whichever argument it is built on) is consulted by the call
            call = "( %s(_, P%d), P%d = %s-%s )" % (B, k, k, ktxt(q), T)
            cl = "%s(_, %s-%s)" % (B, ktxt(q), T)
            clause = "( clause(%s(_, P%d), true), P%d = %s-%s )" % (B, k, k, ktxt(q), T)
        else:
            call = "%s(%s, %s)" % (B, ktxt(q), T)
            cl = "(%s(%s, X%d) :- X%d = %s)" % (B, ktxt(q), k, k, T)
            clause = "clause(%s(%s, X%d), X%d = %s)" % (B, ktxt(q), k, k, T)
        head_any = ("%s(_, %s-_)" % (B, ktxt(q))) if (p == 1 and style2) else "%s(%s, _)" % ((A, B)[p], ktxt(q))
        if kind == "gen":
            body.append("( %s, %s(y(%d,%s)) ; %s(d(%d)), fail )" % (call, n, k, T, n, k))
        elif kind == "once":
            body.append("( %s -> %s(y(%d,%s)) ; %s(d(%d)) )" % (call, n, k, T, n, k))
        elif kind == "rgen":
            body.append("( retract(%s), %s(y(%d,%s)) ; %s(d(%d)), fail )" % (cl, n, k, T, n, k))
        elif kind in ("assertz", "asserta"):
            body.append("fresh_%s(%s), %s(%s), %s(y(%d,%s))" % (j, T, kind, cl, n, k, T))
        elif kind == "retract1":
            body.append("( retract(%s) -> %s(y(%d,%s)) ; %s(d(%d)) )" % (cl, n, k, T, n, k))
        elif kind == "retractall":
            body.append("retractall(%s), %s(n(%d))" % (head_any, n, k))
        elif kind == "listc":
            body.append("findall(%s, %s, L%d), %s(l(%d,L%d))" % (T, clause, k, n, k, k))
        elif kind == "listg":
            body.append("findall(%s, %s, L%d), %s(l(%d,L%d))" % (T, call, k, n, k, k))
    out.append("run_%s :- bb_put(lg_%s, []), bb_put(cnt_%s, %d),\n    catch(( %s,\n      fail ; true ), budget_%s, true).\n"
               % (j, j, j, nu, ",\n      ".join(body), j))
    return "".join(out)


PRELUDE = ":- use_module(library(iso_ext)).\n:- use_module(library(lists)).\n"


# ------------------------------------------------------------------ Coq serialisation
def ckey(k):
    return "None" if k is None else "(Some %d%%Z)" % k


def cgoal(g):
    kind, p, q = g
    if kind == "gen": return "GGen %d %s" % (p, ckey(q))
    if kind == "once": return "GOnce %d %s" % (p, ckey(q))
    if kind == "rgen": return "GRetractGen %d %s" % (p, ckey(q))
    name = {"assertz": "Assertz", "asserta": "Asserta", "retract1": "RetractFirst", "retractall": "RetractAll",
            "listc": "Listing", "listg": "Listing"}[kind]
    return "GOp (%s %d %s)" % (name, p, ckey(q))


def cclauses(l):
    return "[" + "; ".join("(%d, %s)" % (u, ckey(k)) for (u, k) in l) + "]"


def cobs(o):
    if o[0] == "v":
        return "OVal None" if o[1] is None else "OVal (Some %d)" % o[1]
    if o[0] == "l":
        return "OList [" + "; ".join(str(x) for x in o[1]) + "]"
    return "ONone"


def clog(log):
    return "[" + "; ".join("(%d, %s)" % (e[0], cobs(e[1])) for e in log) + "]"


def ccase(case, log):
    """typed form (used for displaying the model's log of a failing case)"""
    l0, l1, nu, goals = case
    return "check_run %s %s %d [%s] %s" % (cclauses(l0), cclauses(l1), nu, "; ".join(cgoal(g) for g in goals), clog(log))


GOALCODE = {"gen": 0, "once": 1, "rgen": 2, "assertz": 3, "asserta": 4, "retract1": 5, "retractall": 6, "listc": 7, "listg": 7}


def enc_tokens(toks):
    out = []
    for v in toks:
        if v < 90:
            out.append(chr(35 + v))
        else:
            assert v < 8100
            out.append("}" + chr(35 + v // 90) + chr(35 + v % 90))
    return "".join(out)


def scase(case, log):
    """compact form evaluated by check_s (see the end of coq/C09/Model.v)"""
    l0, l1, nu, goals = case
    ek = lambda k: 0 if k is None else k + 1
    t = [nu, len(l0)]
    for (u, k) in l0: t += [u, ek(k)]
    t.append(len(l1))
    for (u, k) in l1: t += [u, ek(k)]
    t.append(len(goals))
    for (kind, p, q) in goals: t += [GOALCODE[kind], p, ek(q)]
    for e in log:
        o = e[1]
        if o[0] == "v":
            t += [4 * e[0]] if o[1] is None else [4 * e[0] + 1, o[1]]
        elif o[0] == "n":
            t.append(4 * e[0] + 2)
        else:
            t += [4 * e[0] + 3, len(o[1])] + list(o[1])
    return 'check_s "%s"' % enc_tokens(t)


def case_text(case):
    l0, l1, nu, goals = case
    return "a=%s b=%s goals=%s" % ([(u, ktxt(k)) for u, k in l0], [(u, ktxt(k)) for u, k in l1],
                                   [(g[0], "ab"[g[1]], ktxt(g[2])) for g in goals])


# ------------------------------------------------------------------ implementation log
def parse_event(t):
    """vrun JSON term -> (k, obs) or None"""
    try:
        c = t["c"]
        f = c[0]
        k = int(c[1]["i"])
        if f == "y": return (k, ("v", int(c[2]["i"])))
        if f == "d": return (k, ("v", None))
        if f == "n": return (k, ("n",))
        if f == "l": return (k, ("l", [int(x["i"]) for x in c[2]["l"]]))
    except Exception:
        pass
    return None


def impl_outcome(rec):
    """-> (status, log): status 'ok' | 'timeout' | 'budget' | 'error:<text>'"""
    if rec is None or "results" not in rec:
        return "error:" + json.dumps(rec)[:200], None
    rs = rec["results"]
    if not isinstance(rs, list) or len(rs) < 2:
        return "error:" + json.dumps(rs)[:200], None
    status = "ok"
    r0 = rs[0]
    if not (r0 and r0[0] == "true"):
        txt = json.dumps(r0)[:200]
        status = "timeout" if "interrupt_thrown" in txt else "error:" + txt
    log = None
    r1 = rs[1]
    if r1 and isinstance(r1[0], dict) and "b" in r1[0] and "L" in r1[0]["b"] and "l" in r1[0]["b"]["L"]:
        log = []
        for t in r1[0]["b"]["L"]["l"]:
            e = parse_event(t)
            if e is None:
                return "error:unparsed event " + json.dumps(t)[:100], None
            log.append(e)
        if len(log) > BUDGET and status == "ok":
            status = "budget"
    elif status == "ok":
        status = "error:no log " + json.dumps(r1)[:200]
    return status, log


def run_impl(ctx, cases, ids, tag, timeout_ms, fresh_every):
    jobs = []
    for n, (j, case) in enumerate(zip(ids, cases)):
        l0, l1, nu, goals = case
        jobs.append({"id": str(j), "consult": PRELUDE + driver(j, l0, l1, nu, goals),
                     "queries": ["run_%s." % j, "log_%s(L)." % j], "max_answers": 2,
                     "timeout_ms": timeout_ms, "fresh": (n % fresh_every) < core.NPROC})
    res = core.vrun_query(ctx.prop, jobs, tag=tag)
    return [impl_outcome(res.get(str(j))) for j in ids]


def plain(log):
    return [(e[0], e[1]) for e in log]


def first_divergence(model_log, impl_log):
    n = 0
    while n < len(model_log) and n < len(impl_log) and model_log[n][0] == impl_log[n][0] and model_log[n][1] == impl_log[n][1]:
        n += 1
    return n


def fmt_log(log):
    def o(e):
        if e[1][0] == "v": return "%d:%s" % (e[0], "-" if e[1][1] is None else e[1][1])
        if e[1][0] == "l": return "%d:%s" % (e[0], e[1][1])
        return "%d:n" % e[0]
    return " ".join(o(e) for e in log)


def classify(case, mlog, st, lg):
    """Stable key of a failing driver, from where its log first leaves the model's log.
    Predicates that never hold a clause with a constant first argument exercise only the generation-stamp machinery
    (keys luv-core:*); everything else also exercises the incremental maintenance of the first-argument index of a
    dynamic predicate (keys dyn-index:*)."""
    d = first_divergence(plain(mlog), lg or [])
    if st.startswith("error:") and "panic" in st and not lg:
        # a Rust panic loses the log (the machine is rebuilt): key by the panic message
        import re
        msg = re.search(r'"panic": "([^"]*)', st)
        slug = re.sub(r"[^a-z0-9]+", "-", (msg.group(1) if msg else "unknown").lower()).strip("-")[:50]
        return d, ("dyn-index" if (indexable(case, 0) or indexable(case, 1)) else "luv-core") + ":panic:" + slug
    if d >= len(mlog):
        return d, "extra-events-after-the-end"
    k, obs, flags = mlog[d]
    kind, p, q = case[3][k]
    if "stale" in flags and not indexable(case, p):
        return d, "retry-stale-cc"
    if not indexable(case, p):
        return d, "luv-core:%s" % kind
    if kind == "gen" and q is not None and "across" in flags:
        return d, "dyn-index:bound-call-open-across-assert"
    if "asserted" in flags:
        return d, "dyn-index:after-assert"
    if "retracted" in flags:
        return d, "dyn-index:after-retract"
    return d, "dyn-index:static"


def variants(c):
    l0, l1, nu, gs = c
    out = []
    for i in range(len(gs)): out.append((l0, l1, nu, gs[:i] + gs[i + 1:]))
    for i in range(len(l0)): out.append((l0[:i] + l0[i + 1:], l1, nu, gs))
    for i in range(len(l1)): out.append((l0, l1[:i] + l1[i + 1:], nu, gs))
    for i, g in enumerate(gs):
        if g[2] is not None and g[0] not in ("assertz", "asserta"):
            out.append((l0, l1, nu, gs[:i] + [(g[0], g[1], None)] + gs[i + 1:]))
        if g[0] == "rgen": out.append((l0, l1, nu, gs[:i] + [("retract1", g[1], g[2])] + gs[i + 1:]))
        if g[0] == "gen": out.append((l0, l1, nu, gs[:i] + [("once", g[1], g[2])] + gs[i + 1:]))
    return out


class Shrinker:
    """greedy minimisation of a failing driver (same failure key), every candidate re-run alone in a fresh machine"""
    def __init__(self, ctx, deadline):
        self.ctx, self.deadline, self.n = ctx, deadline, 0

    def failing(self, cs, key):
        import time
        self.n += 1
        outs = run_impl(self.ctx, cs, ["s%d_%d" % (self.n, i) for i in range(len(cs))], "shrink", 1200, 1)
        res = []
        for c, (st, lg) in zip(cs, outs):
            try:
                mlog = simulate(*c)[0]
            except TooLong:
                res.append(False); continue
            if st == "ok" and lg == plain(mlog):
                res.append(False)
            else:
                res.append(classify(c, mlog, st, lg)[1] == key)
        return res

    def shrink(self, c, key):
        import time
        while time.time() < self.deadline:
            vs = variants(c)
            if not vs:
                break
            fl = self.failing(vs, key)
            nxt = [v for v, b in zip(vs, fl) if b]
            if not nxt:
                break
            c = min(nxt, key=lambda v: (len(v[3]), len(v[0]) + len(v[1])))
        return c


def run(ctx):
    import time
    rng = ctx.rng
    n_cases = ctx.scale(1800, 60000)
    cases, mlogs, infos = [], [], []
    seen = set()
    dropped = 0
    # corpus (always run first): an open call, the LAST clause retracted and a clause appended while it is open
    # (seeded change seeded/C09-chain-tail: assertz unlinked retracted clauses at the end of the chain), and variants
    corpus = [
        ([], [(0, 10), (1, 11), (2, 12)], 3, [("gen", 1, None), ("retract1", 1, 12), ("assertz", 1, 13)]),
        ([], [(0, 10), (1, 11), (2, 12)], 3, [("gen", 1, None), ("retract1", 1, 12), ("assertz", 1, 13), ("listg", 1, None)]),
        ([], [(0, 10), (1, 11), (2, 12), (3, 13)], 4, [("gen", 1, None), ("retract1", 1, 13), ("retract1", 1, 12), ("assertz", 1, 14), ("gen", 1, None)]),
        ([], [(0, 10), (1, 11), (2, 12)], 3, [("gen", 1, None), ("retract1", 1, 12), ("asserta", 1, 13), ("assertz", 1, 14)]),
        ([], [(0, 10), (1, 10), (2, 10)], 3, [("gen", 1, 10), ("rgen", 1, 10), ("assertz", 1, 10)]),
        ([], [(0, 10), (1, 11)], 2, [("gen", 1, None), ("retract1", 1, 11), ("assertz", 1, 11), ("retract1", 1, 11), ("assertz", 1, 12)]),
    ]
    for case in corpus:
        try:
            log, info = simulate(*case)
        except TooLong:
            continue
        seen.add(repr(case)); cases.append(case); mlogs.append(log); infos.append(info)
    while len(cases) < n_cases:
        case = gen_case(rng)
        key = repr(case)
        if key in seen:
            continue
        try:
            log, info = simulate(*case)
        except TooLong:
            dropped += 1
            continue
        if len(log) < 3:
            continue
        seen.add(key)
        cases.append(case); mlogs.append(log); infos.append(info)
    ids = ["%d_%d" % (ctx.seed, n) for n in range(len(cases))]
    t0 = time.time()
    outs = run_impl(ctx, cases, ids, "impl", 600, 40 * core.NPROC)
    t_impl = time.time() - t0
    # the oracle: the Coq model evaluates every driver and compares the complete log
    bools = [scase(case, lg if (lg is not None and st == "ok") else []) for case, (st, lg) in zip(cases, outs)]
    t0 = time.time()
    chunk = max(100, min(400, -(-len(bools) // core.NPROC)))
    bad, errs = core.coq_eval_bools(ctx.prop, IMPORTS, bools, chunk=chunk)
    t_coq = time.time() - t0
    tie_breaks = [{"kind": "coq-eval", "what": "model evaluation shard failed", "detail": t} for _, t in errs]
    bad = set(bad)
    for n, (st, lg) in enumerate(outs):
        if st != "ok":
            bad.add(n)
    # the Python reference (used only to classify failures) must agree with the Coq model: wherever Coq accepted
    # the implementation's log, that log must be the Python log too
    for n, (st, lg) in enumerate(outs):
        if n not in bad and plain(mlogs[n]) != lg:
            tie_breaks.append({"kind": "harness", "what": "Python reference simulation disagrees with the Coq model",
                               "detail": case_text(cases[n])})
            break
    # every failure is re-run alone in a fresh machine with a generous timeout and re-judged by the Coq model
    confirm = sorted(bad)
    failing = []
    unreproduced = 0
    if confirm:
        again = run_impl(ctx, [cases[n] for n in confirm], ["c" + ids[n] for n in confirm], "confirm", 2000, 1)
        cb = [scase(cases[n], lg if (lg is not None and st == "ok") else []) for n, (st, lg) in zip(confirm, again)]
        cbad, cerrs = core.coq_eval_bools(ctx.prop, IMPORTS, cb, chunk=300, tag="confirmcases")
        tie_breaks += [{"kind": "coq-eval", "what": "model evaluation shard failed", "detail": t} for _, t in cerrs]
        cbad = set(cbad)
        for i, (n, o) in enumerate(zip(confirm, again)):
            if o[0] == "ok" and i not in cbad:
                unreproduced += 1          # passed when alone: timeout under load or damage done by an earlier failing job
            else:
                failing.append((n, o))
    failures, fail_kinds, by_key = [], {}, {}
    for n, (st, lg) in failing:
        d, key = classify(cases[n], mlogs[n], st, lg)
        fail_kinds[key + "/" + st.split(":")[0]] = fail_kinds.get(key + "/" + st.split(":")[0], 0) + 1
        by_key.setdefault(key, []).append((n, st, lg, d))
    shr = Shrinker(ctx, time.time() + ctx.scale(25, 300))
    for key in sorted(by_key):
        for (n, st, lg, d) in by_key[key][:2]:
            c = shr.shrink(cases[n], key)
            st2, lg2 = run_impl(ctx, [c], ["m%d" % n], "shrink", 2000, 1)[0]
            mlog = simulate(*c)[0]
            d2, key2 = classify(c, mlog, st2, lg2)
            if (st2 == "ok" and lg2 == plain(mlog)) or key2 != key:
                c, st2, lg2, mlog, d2 = cases[n], st, lg, mlogs[n], d
            failures.append({
                "key": key,
                "what": "the event log of a driver over dynamic predicates differs from the log required by the logical update view",
                "input": driver("x", *c) + "?- run_x, log_x(L).",
                "case": case_text(c),
                "impl": "%s; log: %s" % (st2[:300], fmt_log(lg2 or [])[:1500]),
                "spec": "log: %s" % fmt_log(plain(mlog))[:1500],
                "first_divergence_at_event": d2,
                "occurrences_in_this_run": len(by_key[key]),
                "property_fails": True})
    # ---- statistics
    nontrivial = sum(1 for i in infos if i["retries_after_update"] > 0 or i["rnext_gone"] > 0)
    dist = {"histories": len(cases), "dropped_too_long": dropped,
            "events_total": sum(len(l) for l in mlogs),
            "events_max": max(len(l) for l in mlogs),
            "only_unindexed_predicates": sum(1 for c in cases if not indexable(c, 0) and not indexable(c, 1)),
            "with_retry_after_update": sum(1 for i in infos if i["retries_after_update"] > 0),
            "with_two_or_more_open_calls": sum(1 for i in infos if i["max_open"] >= 2),
            "with_retract_generator_meeting_gone_clause": sum(1 for i in infos if i["rnext_gone"] > 0),
            "with_update_under_open_call": sum(1 for i in infos if i["updates_under_open"] > 0),
            "with_retry_where_cc_register_is_stale": sum(1 for i in infos if i["stale"] > 0),
            "failing": len(failing), "failed_only_in_shared_machine": unreproduced, "failure_kinds": fail_kinds,
            "seconds": {"impl": round(t_impl, 1), "coq": round(t_coq, 1)},
            "goal_kinds": {}}
    for c in cases:
        for g in c[3]:
            dist["goal_kinds"][g[0]] = dist["goal_kinds"].get(g[0], 0) + 1
    samples = []
    for n in range(0, len(cases), max(1, len(cases) // 6)):
        samples.append({"case": case_text(cases[n]), "impl": outs[n][0] + "; " + fmt_log(outs[n][1] or [])[:300]})
    return {
        "evaluations": len(bools),
        "distinct_nontrivial": nontrivial,
        "rule": ("distinct drivers = conjunctions of 2-7 goals (nondeterministic calls, once-calls, retract/1 generators, assertz, asserta, "
                 "once(retract), retractall, clause/2 and call listings) over a/2 (facts with constant first arguments: atoms, integers, "
                 "compounds -> first-argument indexing) and b/2 (rules whose first argument is a variable or a constant, all-variable in "
                 "the `core` drivers -> no indexing), 0-5 initial clauses each, executed by chronological backtracking with every event "
                 "logged; the complete log is compared in Coq with the model's log (check_s); non-trivial = a call is retried after its "
                 "predicate was changed while it was open, or a retract/1 generator meets a clause that was retracted meanwhile"),
        "samples": samples,
        "distribution": dist,
        "failures": failures,
        "tie_breaks": tie_breaks,
    }
