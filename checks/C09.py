"""C09 -- dynamic predicates follow the logical update view."""
import json, os
from vlib import core

META = {
    "level": "proof",
    "text": ("Coq theorem snapshot_isolation: for every well-formed database and EVERY history of open/next/close of calls, assertz, asserta, "
             "retract (once and as a re-entrant generator), retractall and clause listings, in any interleaving and nesting, the impl-mirror "
             "(clause chains with birth/death stamps, global clock, per-call cc, the liveness test `birth < cc && Finite(cc) <= death`, "
             "look-ahead for the next living clause) yields exactly what the snapshot specification yields (each call delivers the clauses "
             "that were alive when it started, in order). asserta_front / assertz_back / retract_first_visible / retract_reentrant / "
             "later_calls_see_updates are theorems over the same mirror. The mirror is tied to the code differentially: generated drivers "
             "(conjunctions of generator calls and updates executed by chronological backtracking, several partially consumed calls open "
             "at once, indexed and unindexed first arguments) are run on the implementation and their complete event log is compared in "
             "Coq with the log the model computes for the same driver (driver_log_is_spec links that log to the specification)."),
    "note": ("Trusted: Coq kernel + vm_compute; the harness vrun; the Python driver generator and log conversion. Modelled, not verified: "
             "the WAM (chronological backtracking of the driver conjunction, cut of once/->), first-argument indexing and head unification "
             "(abstracted into kmatch: a clause matches a call iff the first arguments unify), the '$clause' twin predicate behind clause/2 "
             "and retract/1 (abstracted into the same chain). abolish/1 is NOT covered (partial w.r.t. the property text). "
             "No axioms (all theorems closed under the global context)."),
    "technique": "Coq proof (snapshot_isolation and companions) over an impl-mirror model + differential correspondence evaluated in Coq",
    "design_ref": "DESIGN.md section 8, C09",
    "coq_targets": ["C09/Props.vo"],
    "coq_dirs": ["C09"],
    "props": "C09/Props.v",
    "trusted_base": ["Coq 8.16.1 kernel, vm_compute (no native_compute)", "harness/vrun + tools/vlib (correspondence)",
                     "Python driver generator and log conversion (checks/C09.py)",
                     "WAM control (backtracking, cut), indexing and unification modelled abstractly, not verified"],
    "assumptions": ["clause uids handed out by the driver counter play the role of code addresses (unique per asserted clause)",
                    "abolish/1 is outside the model"],
}

IMPORTS = "From V Require Import C09.Model.\nOpen Scope N_scope."
KEYTXT = {0: "k0", 1: "k1", 2: "7", 3: "8", 4: "f(1)", 5: "f(2)"}
CAP = 160            # longest log (events) a generated driver may produce under the specification
BUDGET = 400         # the Prolog driver stops itself after this many events


# ------------------------------------------------------------------ generation
def gen_case(rng):
    """-> (l0, l1, nu, goals).  l0: clauses of the indexed predicate a/2 (all first arguments constants),
    l1: clauses of b/2 (first arguments variables or constants)."""
    keyset = rng.choice([[0, 1], [0, 1, 2], [0, 2, 4, 5], [0, 1, 2, 3, 4, 5]])
    bmode = rng.choice(["allvar", "mixed", "mixed", "const"])

    def bkey():
        if bmode == "allvar":
            return None
        if bmode == "const":
            return rng.choice(keyset)
        return None if rng.random() < 0.5 else rng.choice(keyset)
    n0 = rng.choice([0, 1, 2, 3, 3, 4, 5])
    n1 = rng.choice([0, 0, 1, 2, 3, 4])
    uid = 0
    l0, l1 = [], []
    for _ in range(n0):
        l0.append((uid, rng.choice(keyset))); uid += 1
    for _ in range(n1):
        l1.append((uid, bkey())); uid += 1
    ng = rng.choice([2, 3, 3, 4, 4, 5, 5, 6, 7])
    goals = []
    focus = rng.choice([0, 0, 0, 1, 1, None])       # mostly one predicate so that updates hit open calls
    for _ in range(ng):
        p = focus if (focus is not None and rng.random() < 0.85) else rng.choice([0, 1])
        q = None if rng.random() < 0.45 else rng.choice(keyset)
        r = rng.random()
        if r < 0.30:
            goals.append(("gen", p, q))
        elif r < 0.36:
            goals.append(("once", p, q))
        elif r < 0.44:
            goals.append(("rgen", p, q))
        elif r < 0.58:
            goals.append(("assertz", p, rng.choice(keyset) if p == 0 else bkey()))
        elif r < 0.68:
            goals.append(("asserta", p, rng.choice(keyset) if p == 0 else bkey()))
        elif r < 0.82:
            goals.append(("retract1", p, q))
        elif r < 0.87:
            goals.append(("retractall", p, q))
        elif r < 0.94:
            goals.append(("listc", p, q))
        else:
            goals.append(("listg", p, q))
    return l0, l1, uid, goals


def kmatch(q, k):
    return q is None or k is None or q == k


class TooLong(Exception):
    pass


def simulate(l0, l1, nu, goals, cap=CAP):
    """Reference run under snapshot semantics (case selection, statistics and failure classification only; the
    oracle is the Coq model).  Returns (log, info): log = [(k, obs, exposed)], obs = ('v', uid|None) | ('l', [..]) | ('n',).
    `exposed` marks events produced by a retry of a call whose predicate was stamped (assert/retract) at a clock value in
    [cc of the call, cc register) -- the only situation in which the known defect `retry-stale-cc` can change the result."""
    db = {0: list(l0), 1: list(l1)}
    stamps = {0: [], 1: []}            # clock values at which the predicate was changed
    st = {"nu": nu, "clock": 2, "reg": 0}
    log = []
    info = {"retries_after_update": 0, "retries": 0, "max_open": 0, "rnext_gone": 0, "exposed": 0, "updates_under_open": 0}
    open_calls = []

    def emit(k, obs, exposed=False):
        if len(log) >= cap:
            raise TooLong()
        log.append((k, obs, exposed))

    def tick(p):
        stamps[p].append(st["clock"]); st["clock"] += 1
        if any(pp == p for pp in open_calls):
            info["updates_under_open"] += 1

    def run(k):
        if k == len(goals):
            return
        g = goals[k]
        kind, p, q = g
        if kind in ("gen", "once"):
            snap = [u for (u, kk) in db[p] if kmatch(q, kk)]
            icc = st["clock"]; st["reg"] = icc
            if kind == "once":
                emit(k, ("v", snap[0] if snap else None))
                run(k + 1)
                return
            open_calls.append(p)
            info["max_open"] = max(info["max_open"], len(open_calls))
            for j, u in enumerate(snap + [None]):
                exposed = False
                if j > 0:
                    info["retries"] += 1
                    if any(icc <= t for t in stamps[p]):
                        info["retries_after_update"] += 1
                    exposed = any(icc <= t < st["reg"] for t in stamps[p])
                    if exposed:
                        info["exposed"] += 1
                if u is None:
                    open_calls.pop()
                emit(k, ("v", u), exposed)
                if u is not None:
                    if j > 0:
                        st["reg"] = icc
                    run(k + 1)
        elif kind == "rgen":
            snap = [u for (u, kk) in db[p] if kmatch(q, kk)]
            st["reg"] = st["clock"]
            for u in snap:
                emit(k, ("v", u))
                if any(x[0] == u for x in db[p]):
                    db[p] = [x for x in db[p] if x[0] != u]
                    tick(p)
                else:
                    info["rnext_gone"] += 1
                run(k + 1)
            emit(k, ("v", None))
        elif kind in ("assertz", "asserta"):
            u = st["nu"]; st["nu"] += 1
            if kind == "assertz":
                db[p] = db[p] + [(u, q)]
            else:
                db[p] = [(u, q)] + db[p]
            tick(p)
            emit(k, ("v", u))
            run(k + 1)
        elif kind == "retract1":
            st["reg"] = st["clock"]
            hit = None
            for x in db[p]:
                if kmatch(q, x[1]):
                    hit = x; break
            if hit is not None:
                db[p] = [x for x in db[p] if x is not hit]
                tick(p)
            emit(k, ("v", hit[0] if hit else None))
            run(k + 1)
        elif kind == "retractall":
            st["reg"] = st["clock"]
            for x in [x for x in db[p] if kmatch(q, x[1])]:
                tick(p)
            db[p] = [x for x in db[p] if not kmatch(q, x[1])]
            emit(k, ("n",))
            run(k + 1)
        elif kind in ("listc", "listg"):
            st["reg"] = st["clock"]
            emit(k, ("l", [u for (u, kk) in db[p] if kmatch(q, kk)]))
            run(k + 1)
        else:
            raise ValueError(kind)
    run(0)
    return log, info


# ------------------------------------------------------------------ Prolog driver
def ktxt(k):
    return "_" if k is None else KEYTXT[k]


def driver(j, l0, l1, nu, goals):
    A, B = "a_%s" % j, "b_%s" % j
    P = {0: A, 1: B}
    out = [":- dynamic(%s/2).\n:- dynamic(%s/2).\n" % (A, B)]
    for (u, k) in l0:
        out.append("%s(%s, %d).\n" % (A, ktxt(k), u))
    for (u, k) in l1:
        out.append("%s(%s, %d).\n" % (B, ktxt(k), u))
    out.append("note_%s(E) :- bb_get(lg_%s, L), bb_put(lg_%s, [E|L]), length(L, N), ( N >= %d -> throw(budget_%s) ; true ).\n" % (j, j, j, BUDGET, j))
    out.append("fresh_%s(N) :- bb_get(cnt_%s, N), N1 is N+1, bb_put(cnt_%s, N1).\n" % (j, j, j))
    out.append("log_%s(L) :- bb_get(lg_%s, L0), reverse(L0, L).\n" % (j, j))
    body = []
    for k, (kind, p, q) in enumerate(goals):
        n = "note_%s" % j
        call = "%s(%s, T%d)" % (P[p], ktxt(q), k)
        if kind == "gen":
            body.append("( %s, %s(y(%d,T%d)) ; %s(d(%d)), fail )" % (call, n, k, k, n, k))
        elif kind == "once":
            body.append("( %s -> %s(y(%d,T%d)) ; %s(d(%d)) )" % (call, n, k, k, n, k))
        elif kind == "rgen":
            body.append("( retract(%s), %s(y(%d,T%d)) ; %s(d(%d)), fail )" % (call, n, k, k, n, k))
        elif kind in ("assertz", "asserta"):
            body.append("fresh_%s(T%d), %s(%s), %s(y(%d,T%d))" % (j, k, kind, call, n, k, k))
        elif kind == "retract1":
            body.append("( retract(%s) -> %s(y(%d,T%d)) ; %s(d(%d)) )" % (call, n, k, k, n, k))
        elif kind == "retractall":
            body.append("retractall(%s(%s, _)), %s(n(%d))" % (P[p], ktxt(q), n, k))
        elif kind == "listc":
            body.append("findall(T%d, clause(%s, true), L%d), %s(l(%d,L%d))" % (k, call, k, n, k, k))
        elif kind == "listg":
            body.append("findall(T%d, %s, L%d), %s(l(%d,L%d))" % (k, call, k, n, k, k))
    out.append("run_%s :- bb_put(lg_%s, []), bb_put(cnt_%s, %d),\n    catch(( %s,\n      fail ; true ), budget_%s, true).\n"
               % (j, j, j, nu, ",\n      ".join(body), j))
    return "".join(out)


PRELUDE = ":- use_module(library(iso_ext)).\n:- use_module(library(lists)).\n"


# ------------------------------------------------------------------ Coq serialisation
def ckey(k):
    return "None" if k is None else "(Some %d%%Z)" % k


def cgoal(g):
    kind, p, q = g
    if kind == "gen": return "GGen %d %s" % (p, ckey(q))
    if kind == "once": return "GOnce %d %s" % (p, ckey(q))
    if kind == "rgen": return "GRetractGen %d %s" % (p, ckey(q))
    name = {"assertz": "Assertz", "asserta": "Asserta", "retract1": "RetractFirst", "retractall": "RetractAll",
            "listc": "Listing", "listg": "Listing"}[kind]
    return "GOp (%s %d %s)" % (name, p, ckey(q))


def cclauses(l):
    return "[" + "; ".join("(%d, %s)" % (u, ckey(k)) for (u, k) in l) + "]"


def cobs(o):
    if o[0] == "v":
        return "OVal None" if o[1] is None else "OVal (Some %d)" % o[1]
    if o[0] == "l":
        return "OList [" + "; ".join(str(x) for x in o[1]) + "]"
    return "ONone"


def clog(log):
    return "[" + "; ".join("(%d, %s)" % (e[0], cobs(e[1])) for e in log) + "]"


def ccase(case, log):
    """typed form (used for displaying the model's log of a failing case)"""
    l0, l1, nu, goals = case
    return "check_run %s %s %d [%s] %s" % (cclauses(l0), cclauses(l1), nu, "; ".join(cgoal(g) for g in goals), clog(log))


GOALCODE = {"gen": 0, "once": 1, "rgen": 2, "assertz": 3, "asserta": 4, "retract1": 5, "retractall": 6, "listc": 7, "listg": 7}


def enc_tokens(toks):
    out = []
    for v in toks:
        if v < 90:
            out.append(chr(35 + v))
        else:
            assert v < 8100
            out.append("}" + chr(35 + v // 90) + chr(35 + v % 90))
    return "".join(out)


def scase(case, log):
    """compact form evaluated by check_s (see the end of coq/C09/Model.v)"""
    l0, l1, nu, goals = case
    ek = lambda k: 0 if k is None else k + 1
    t = [nu, len(l0)]
    for (u, k) in l0: t += [u, ek(k)]
    t.append(len(l1))
    for (u, k) in l1: t += [u, ek(k)]
    t.append(len(goals))
    for (kind, p, q) in goals: t += [GOALCODE[kind], p, ek(q)]
    for e in log:
        t.append(e[0])
        o = e[1]
        if o[0] == "v":
            t += [0] if o[1] is None else [1, o[1]]
        elif o[0] == "n":
            t.append(2)
        else:
            t += [3, len(o[1])] + list(o[1])
    return 'check_s "%s"' % enc_tokens(t)


def case_text(case):
    l0, l1, nu, goals = case
    return "a=%s b=%s goals=%s" % ([(u, ktxt(k)) for u, k in l0], [(u, ktxt(k)) for u, k in l1],
                                   [(g[0], "ab"[g[1]], ktxt(g[2])) for g in goals])


# ------------------------------------------------------------------ implementation log
def parse_event(t):
    """vrun JSON term -> (k, obs) or None"""
    try:
        c = t["c"]
        f = c[0]
        k = int(c[1]["i"])
        if f == "y": return (k, ("v", int(c[2]["i"])))
        if f == "d": return (k, ("v", None))
        if f == "n": return (k, ("n",))
        if f == "l": return (k, ("l", [int(x["i"]) for x in c[2]["l"]]))
    except Exception:
        pass
    return None


def impl_outcome(rec):
    """-> (status, log): status 'ok' | 'timeout' | 'budget' | 'error:<text>'"""
    if rec is None or "results" not in rec:
        return "error:" + json.dumps(rec)[:200], None
    rs = rec["results"]
    if not isinstance(rs, list) or len(rs) < 2:
        return "error:" + json.dumps(rs)[:200], None
    status = "ok"
    r0 = rs[0]
    if not (r0 and r0[0] == "true"):
        txt = json.dumps(r0)[:200]
        status = "timeout" if "interrupt_thrown" in txt else "error:" + txt
    log = None
    r1 = rs[1]
    if r1 and isinstance(r1[0], dict) and "b" in r1[0] and "L" in r1[0]["b"] and "l" in r1[0]["b"]["L"]:
        log = []
        for t in r1[0]["b"]["L"]["l"]:
            e = parse_event(t)
            if e is None:
                return "error:unparsed event " + json.dumps(t)[:100], None
            log.append(e)
        if len(log) > BUDGET and status == "ok":
            status = "budget"
    elif status == "ok":
        status = "error:no log " + json.dumps(r1)[:200]
    return status, log


def run_impl(ctx, cases, ids, tag, timeout_ms, fresh_every):
    jobs = []
    for n, (j, case) in enumerate(zip(ids, cases)):
        l0, l1, nu, goals = case
        jobs.append({"id": str(j), "consult": PRELUDE + driver(j, l0, l1, nu, goals),
                     "queries": ["run_%s." % j, "log_%s(L)." % j], "max_answers": 2,
                     "timeout_ms": timeout_ms, "fresh": (n % fresh_every) < core.NPROC})
    res = core.vrun_query(ctx.prop, jobs, tag=tag)
    return [impl_outcome(res.get(str(j))) for j in ids]


def first_divergence(model_log, impl_log):
    n = 0
    while n < len(model_log) and n < len(impl_log) and model_log[n][0] == impl_log[n][0] and model_log[n][1] == impl_log[n][1]:
        n += 1
    return n


def fmt_log(log):
    def o(e):
        if e[1][0] == "v": return "%d:%s" % (e[0], "-" if e[1][1] is None else e[1][1])
        if e[1][0] == "l": return "%d:%s" % (e[0], e[1][1])
        return "%d:n" % e[0]
    return " ".join(o(e) for e in log)


def run(ctx):
    rng = ctx.rng
    n_cases = ctx.scale(3000, 60000)
    cases, mlogs, infos = [], [], []
    seen = set()
    dropped = 0
    while len(cases) < n_cases:
        case = gen_case(rng)
        key = repr(case)
        if key in seen:
            continue
        try:
            log, info = simulate(*case)
        except TooLong:
            dropped += 1
            continue
        if len(log) < 3:
            continue
        seen.add(key)
        cases.append(case); mlogs.append(log); infos.append(info)
    ids = ["%d_%d" % (ctx.seed, n) for n in range(len(cases))]
    outs = run_impl(ctx, cases, ids, "impl", 400, 60)
    # anything that did not simply run to completion is re-run alone in a fresh machine with a generous timeout
    redo = [n for n, (st, lg) in enumerate(outs) if st != "ok"]
    if redo:
        again = run_impl(ctx, [cases[n] for n in redo], ["r" + ids[n] for n in redo], "redo", 3000, 1)
        for n, o in zip(redo, again):
            outs[n] = o
    bools = []
    for case, (st, lg) in zip(cases, outs):
        bools.append(scase(case, lg if (lg is not None and st == "ok") else []))
    bad, errs = core.coq_eval_bools(ctx.prop, IMPORTS, bools, chunk=300)
    tie_breaks = [{"kind": "coq-eval", "what": "model evaluation shard failed", "detail": t} for _, t in errs]
    bad = set(bad)
    for n, (st, lg) in enumerate(outs):
        if st != "ok":
            bad.add(n)
    # the Python reference must agree with the Coq model wherever the implementation does (otherwise the
    # classification below would be meaningless): Coq accepted impl log => it equals the Python log
    for n, (st, lg) in enumerate(outs):
        if n not in bad and [(e[0], e[1]) for e in mlogs[n]] != lg:
            tie_breaks.append({"kind": "harness", "what": "Python reference simulation disagrees with the Coq model",
                               "detail": case_text(cases[n])})
            break
    failures = []
    fail_kinds = {}
    confirm = sorted(bad)
    # confirm every failure alone in a fresh machine (rules out interference between jobs)
    conf = {}
    if confirm:
        again = run_impl(ctx, [cases[n] for n in confirm], ["c" + ids[n] for n in confirm], "confirm", 3000, 1)
        conf = dict(zip(confirm, again))
    for n in confirm:
        st, lg = conf[n]
        mlog = mlogs[n]
        plain = [(e[0], e[1]) for e in mlog]
        if st == "ok" and lg == plain:
            tie_breaks.append({"kind": "harness", "what": "a failing driver passed when re-run alone (job interference)",
                               "detail": case_text(cases[n])})
            continue
        lg = lg or []
        d = first_divergence(plain, lg)
        exposed = d < len(mlog) and mlog[d][2]
        if exposed:
            key = "retry-stale-cc"
        else:
            g = cases[n][3][mlog[d][0]][0] if d < len(mlog) else "extra-events"
            key = "unexplained:%s:%s" % (g, st.split(":")[0])
        fail_kinds[key + "/" + st.split(":")[0]] = fail_kinds.get(key + "/" + st.split(":")[0], 0) + 1
        if sum(1 for f in failures if f["key"] == key) < (4 if exposed else 12):
            j = "x"
            failures.append({
                "key": key,
                "what": ("a retried call to a dynamic predicate does not deliver the clauses that were alive when it started "
                         "(logical update view violated)" if st != "timeout" else
                         "a retried call to a dynamic predicate loops forever after an update (never delivers its remaining clauses)"),
                "input": driver(j, *cases[n]) + "?- run_x, log_x(L).",
                "case": case_text(cases[n]),
                "impl": "%s; log: %s" % (st, fmt_log(lg)),
                "spec": "log: %s" % fmt_log(plain),
                "first_divergence_at_event": d,
                "property_fails": True})
    # ---- statistics
    nontrivial = sum(1 for i in infos if i["retries_after_update"] > 0 or i["rnext_gone"] > 0)
    dist = {"histories": len(cases), "dropped_too_long": dropped,
            "events_total": sum(len(l) for l in mlogs),
            "events_max": max(len(l) for l in mlogs),
            "with_retry_after_update": sum(1 for i in infos if i["retries_after_update"] > 0),
            "with_two_or_more_open_calls": sum(1 for i in infos if i["max_open"] >= 2),
            "with_retract_generator_meeting_gone_clause": sum(1 for i in infos if i["rnext_gone"] > 0),
            "with_update_under_open_call": sum(1 for i in infos if i["updates_under_open"] > 0),
            "exposed_to_retry_stale_cc": sum(1 for i in infos if i["exposed"] > 0),
            "not_exposed_and_retry_after_update": sum(1 for i in infos if i["exposed"] == 0 and i["retries_after_update"] > 0),
            "failing": len(bad), "failure_kinds": fail_kinds,
            "goal_kinds": {}}
    for c in cases:
        for g in c[3]:
            dist["goal_kinds"][g[0]] = dist["goal_kinds"].get(g[0], 0) + 1
    samples = []
    for n in range(0, len(cases), max(1, len(cases) // 6)):
        samples.append({"case": case_text(cases[n]), "impl": outs[n][0] + "; " + fmt_log(outs[n][1] or [])[:300]})
    return {
        "evaluations": len(bools),
        "distinct_nontrivial": nontrivial,
        "rule": ("distinct drivers = conjunctions of 2-7 goals (nondeterministic calls, once-calls, retract/1 generators, assertz, asserta, "
                 "once(retract), retractall, clause/2 and call listings) over an indexed predicate a/2 (constant first arguments: atoms, "
                 "integers, compounds) and b/2 (variable or mixed first arguments), 0-5 initial clauses each, executed by chronological "
                 "backtracking with every event logged; the complete log is compared in Coq with the model's log (check_run); "
                 "non-trivial = a call is retried after its predicate was changed while it was open, or a retract/1 generator meets a "
                 "clause that was retracted meanwhile"),
        "samples": samples,
        "distribution": dist,
        "failures": failures,
        "tie_breaks": tie_breaks,
    }
