"""C10 -- Unification computes most general unifiers."""
import json
from vlib import core, terms

META = {
    "level": "proof",
    "text": ("Coq theorems over a reference model of unification on the shared term datatype: the worklist algorithm with occurs check "
             "(unify_oc) is total with proved-sufficient fuel, sound, idempotent, binds nothing outside the two terms, returns a most "
             "general unifier (every unifier, given as a binding list or as an arbitrary function, factors through it) and fails only "
             "when no finite unifier exists. The rational-tree variant (unify_rt, worklist + store + visited pairs, the shape of "
             "unify.rs) is proved never to report a clash when a finite unifier exists. The model is tied to the implementation by "
             "running =/2, unify_with_occurs_check/2 and =/2 under occurs_check in {false,true,error} on generated pairs of terms "
             "through three code paths (meta-call, compiled clause body, clause-head instructions) and comparing success, A == B, "
             "every variable's binding up to variance, an outside witness variable and the error formal inside Coq."),
    "note": ("Trusted: Coq kernel + vm_compute; the variant normaliser canon_l and the check_* comparison functions (not proved); harness vrun; "
             "the Python generator and the Prolog-side encoder of bindings (uses =../2 and ==/2 of the implementation; a unifier is reported as "
             "cyclic when the bindings of the variables have more than 4000 nodes -- acyclic_term/1 is not used because it corrupts strings, see C24). "
             "Not proved: fuel sufficiency of unify_rt and that success of unify_rt means bisimilarity (only the *_partial statements); "
             "the tabu-list mechanics of unify.rs are not mirrored, only tied by the correspondence. -0.0 is normalised to 0.0 (the "
             "implementation has 0.0 == -0.0); a rational with denominator 1 is read as the integer (the implementation has 2 rdiv 1 == 2). "
             "For occurs_check=error on pairs that are not unifiable even as rational trees both failure and the error are accepted "
             "(which comes first depends on the traversal order, which the property does not fix); the error formal required is "
             "representation_error(term)."),
    "technique": ("Coq proof (unify_oc_sound, unify_oc_mgu, unify_oc_complete, unify_oc_idempotent, no_outside_binding, unify_fuel_sufficient) "
                  "over a reference model + differential correspondence evaluated in Coq"),
    "design_ref": "DESIGN.md section 8, C10",
    "coq_targets": ["C10/Props.vo"],
    "coq_dirs": ["C10"],
    "props": "C10/Props.v",
    "trusted_base": ["Coq 8.16.1 kernel, vm_compute (no native_compute)", "harness/vrun + tools/vlib (correspondence)",
                     "Prolog-side helper predicates c10_* consulted into the implementation", "canon_l / check_* comparison functions of C10/Model.v"],
    "assumptions": ["terms are finite trees over the shared datatype; attributed variables, streams and other opaque cells are out of scope",
                    "0.0 and -0.0 are one float; n rdiv 1 is the integer n"],
}

IMPORTS = "From V Require Import Base.Term C10.Model."
WIT = 99

SUPPORT = r"""
c10_enc(_, _, N, _) :- N =< 0, !, throw(c10_too_big).
c10_enc(T, v(T), N0, N) :- var(T), !, N is N0 - 1.
c10_enc(T, T, N0, N) :- atomic(T), !, N is N0 - 1.
c10_enc([H|T], l(EH,ET), N0, N) :- !, N1 is N0 - 1, c10_enc(H, EH, N1, N2), c10_enc(T, ET, N2, N).
c10_enc(T, s(F, EAs), N0, N) :- T =.. [F|As], N1 is N0 - 1, c10_encl(As, EAs, N1, N).
c10_encl([], [], N, N).
c10_encl([A|As], [E|Es], N0, N) :- c10_enc(A, E, N0, N1), c10_encl(As, Es, N1, N).
c10_unify(eq, A, B) :- A = B.
c10_unify(uoc, A, B) :- unify_with_occurs_check(A, B).
c10_post(no, _, _, _, no).
c10_post(err(E), _, _, _, err(E)).
c10_post(yes, A, B, Vs, Out) :-
    ( A == B -> S = same ; S = diff ),
    ( catch(c10_encl(Vs, Es, 4000, _), c10_too_big, fail) -> Out = ok(S, Es) ; Out = cyc(S) ).
c10_run(Flag, M, A, B, Vs, Out) :-
    set_prolog_flag(occurs_check, Flag),
    catch((c10_unify(M, A, B) -> R = yes ; R = no), error(E, _), R = err(E)),
    set_prolog_flag(occurs_check, false),
    c10_post(R, A, B, Vs, Out).
c10_runh(Flag, G, A, B, Vs, Out) :-
    set_prolog_flag(occurs_check, Flag),
    catch((call(G) -> R = yes ; R = no), error(E, _), R = err(E)),
    set_prolog_flag(occurs_check, false),
    c10_post(R, A, B, Vs, Out).
"""

# mode name -> (flag, unify predicate, Coq check function)
MODES = {
    "eq_false": ("false", "eq", "check_rt"),
    "uoc": ("false", "uoc", "check_oc"),
    "eq_true": ("true", "eq", "check_oc"),
    "eq_error": ("error", "eq", "check_err"),
}

ATOMS = ["a", "b", "[]", "foo bar", "c", "{}"]
INTS = [0, 1, -1, 7, 2 ** 55 - 1, 2 ** 55, -2 ** 55, 2 ** 63, 2 ** 64, 2 ** 70, -2 ** 70, 123456789012345678901234567890]
FLOATS = [0.0, 1.0, -1.5, 1e100, 7.0]
FUNCS = [("f", 1), ("f", 2), ("g", 2), ("g", 1), ("h", 3), ("-", 2), ("f", 3)]
STRINGS = ["ab", "abc", "a", "abd", "ba"]
# numbers that only arithmetic can produce: (expression text, model term)
CALC = [("2^70", ("int", 2 ** 70)), ("2^70-2^70+7", ("int", 7)), ("1 rdiv 3", ("rat", 1, 3)), ("2 rdiv 6", ("rat", 1, 3)),
        ("4 rdiv 2", ("int", 2)), ("-(2^70)", ("int", -2 ** 70)), ("2^54+2^54", ("int", 2 ** 55)), ("7 rdiv 3", ("rat", 7, 3)),
        ("2^63-1+1", ("int", 2 ** 63))]


def norm_float(x):
    b = terms.flt(x)
    return ("flt", 0) if b[1] == 1 << 63 else b


class Gen:
    def __init__(self, rng, nvars, calc):
        self.rng, self.nvars, self.calc = rng, nvars, calc

    def var(self):
        return ("var", "X%d" % self.rng.randrange(self.nvars))

    def leaf(self):
        r = self.rng.random()
        if r < 0.38: return self.var()
        if r < 0.62: return ("atom", self.rng.choice(ATOMS))
        if r < 0.76:
            if self.calc and self.rng.random() < 0.5:
                return ("calc",) + self.rng.choice(CALC)
            return ("int", self.rng.choice(INTS))
        if r < 0.84: return norm_float(self.rng.choice(FLOATS))
        if r < 0.92: return ("str", self.rng.choice(STRINGS))
        return ("atom", "[]")

    def term(self, depth):
        rng = self.rng
        if depth == 0 or rng.random() < 0.28:
            return self.leaf()
        if rng.random() < 0.7:
            f, n = rng.choice(FUNCS)
            return ("cmp", f, [self.term(depth - 1) for _ in range(n)])
        n = rng.choice([0, 1, 1, 2, 2, 3])
        items = [self.term(depth - 1) for _ in range(n)]
        r = rng.random()
        tail = terms.NIL if r < 0.6 else self.var() if r < 0.9 else self.leaf()
        if n == 0 and tail == terms.NIL:
            return terms.NIL
        return terms.mklist(items, tail)

    def generalise(self, t, p):
        if self.rng.random() < p:
            return self.var()
        if t[0] == "cmp":
            return ("cmp", t[1], [self.generalise(x, p) for x in t[2]])
        if t[0] == "str" and self.rng.random() < 0.4:
            # a string against a (partial) list of characters
            s = t[1]
            k = self.rng.randrange(len(s) + 1)
            items = [("atom", c) if self.rng.random() < 0.8 else self.var() for c in s[:k]]
            tail = self.var() if k < len(s) or self.rng.random() < 0.3 else terms.NIL
            return terms.mklist(items, tail)
        return t

    def mutate(self, t):
        """replace one random position by a fresh small term"""
        if t[0] != "cmp" or self.rng.random() < 0.25:
            return self.term(1)
        i = self.rng.randrange(len(t[2]))
        return ("cmp", t[1], [self.mutate(x) if j == i else x for j, x in enumerate(t[2])])


def expand(t):
    """generator term -> plain term of vlib.terms (strings become char lists, calc leaves their value)"""
    if t[0] == "str": return terms.mkstring(t[1])
    if t[0] == "calc": return t[2]
    if t[0] == "cmp": return ("cmp", t[1], [expand(x) for x in t[2]])
    return t


def prolog_text(t, calcs):
    """Prolog text; calc leaves become variables K<j> (collected in calcs), strings stay double-quoted"""
    if t[0] == "str":
        return '"%s"' % t[1]
    if t[0] == "calc":
        calcs.append(t[1])
        return "K%d" % (len(calcs) - 1)
    if t[0] == "cmp":
        if t[1] == "." and len(t[2]) == 2:
            items, tail = terms.list_view(t)
            body = ",".join(arg_text(x, calcs) for x in items)
            if tail == terms.NIL: return "[%s]" % body
            return "[%s|%s]" % (body, arg_text(tail, calcs))
        return "%s(%s)" % (terms.quote_atom(t[1]), ",".join(arg_text(x, calcs) for x in t[2]))
    return terms.to_prolog(t)


def arg_text(t, calcs):
    if t[0] in ("str", "calc", "cmp"):
        return prolog_text(t, calcs)
    return terms.arg_text(t)


def gsize(t):
    if t[0] == "cmp": return 1 + sum(gsize(x) for x in t[2])
    if t[0] == "str": return 1 + 2 * len(t[1])
    return 1


def gen_pairs(ctx):
    rng = ctx.rng
    n = ctx.scale(1600, 40000)
    out, seen = [], set()
    kinds = {}
    tries = 0
    V = lambda i: ("var", "X%d" % i)
    fixed = [(("cmp", "-", [V(0), V(1)]), ("str", "ba")), (("cmp", "f", [V(0)]), ("str", "a")), (("cmp", "g", [V(0), V(1)]), ("str", "ab")),
             (terms.mklist([V(0)], V(1)), ("str", "ab")),
             (("cmp", "f", [V(0), V(0)]), ("cmp", "f", [V(1), ("cmp", "g", [V(1)])])),
             (V(0), ("cmp", "g", [V(0)])), (("cmp", "h", [V(0), V(1), V(0)]), ("cmp", "h", [("cmp", "g", [V(1)]), ("cmp", "g", [V(0)]), V(1)])),
             (("int", 1), norm_float(1.0)), (("int", 2 ** 70), ("calc", "2^70", ("int", 2 ** 70))), (norm_float(-0.0), norm_float(0.0))]
    # numbers of equal (or equal after rounding) value but different type, in BOTH orders and nested: they never unify
    # (added after the seeded change seeded/C10-bigint-float-unify, which made `Float = BigInteger` succeed, was missed)
    big = 2 ** 70
    cross = [(norm_float(float(big)), ("int", big)), (norm_float(float(big)), ("calc", "2^70", ("int", big))), (norm_float(float(big)), ("int", big + 1)),
             (norm_float(float(2 ** 64)), ("int", 2 ** 64)), (norm_float(float(2 ** 53)), ("int", 2 ** 53)), (norm_float(float(2 ** 55)), ("int", 2 ** 55)),
             (norm_float(-float(big)), ("int", -big)), (norm_float(0.5), ("calc", "1 rdiv 2", ("rat", 1, 2))), (norm_float(2.0), ("calc", "4 rdiv 2", ("int", 2))),
             (("calc", "1 rdiv 3", ("rat", 1, 3)), ("int", 0)), (("calc", "2^70", ("int", big)), ("calc", "2^70+0", ("int", big)))]
    for a, b in cross:
        fixed.append((a, b)); fixed.append((b, a))
        fixed.append((("cmp", "f", [("atom", "a"), ("cmp", "g", [a])]), ("cmp", "f", [("atom", "a"), ("cmp", "g", [b])])))
        fixed.append((("cmp", "f", [V(0), b]), ("cmp", "f", [a, V(0)])))
    for a, b in fixed:
        ea, eb = expand(a), expand(b)
        calc = a[0] == "calc" or b[0] == "calc"
        seen.add((terms.to_prolog(ea), terms.to_prolog(eb), json.dumps([a, b]) if calc else ""))
        kinds["fixed"] = kinds.get("fixed", 0) + 1
        out.append({"a": a, "b": b, "ea": ea, "eb": eb, "nv": 2, "kind": "fixed", "calc": calc})
    while len(out) < n and tries < 20 * n:
        tries += 1
        nv = rng.choice([1, 2, 2, 3, 3, 4, 5])
        calc = rng.random() < 0.15
        g = Gen(rng, nv, calc)
        r = rng.random()
        if r < 0.2:
            kind = "independent"
            a, b = g.term(rng.choice([1, 2, 3, 4])), g.term(rng.choice([1, 2, 3, 4]))
        elif r < 0.55:
            kind = "two-generalisations"
            t = g.term(rng.choice([2, 3, 4]))
            p = rng.choice([0.1, 0.2, 0.3])
            a, b = g.generalise(t, p), g.generalise(t, p)
        elif r < 0.75:
            kind = "generalisation+mutation"
            t = g.term(rng.choice([2, 3, 4]))
            p = rng.choice([0.1, 0.2, 0.3])
            a, b = g.generalise(t, p), g.mutate(g.generalise(t, p))
        else:
            kind = "variables-vs-terms"
            k = rng.choice([2, 3, 3, 4])
            f = rng.choice(["f", "g", "."]) if k == 2 else "p"
            xs = [g.var() for _ in range(k)]
            ts = [g.term(rng.choice([0, 1, 1, 2])) for _ in range(k)]
            a, b = ("cmp", f, xs), ("cmp", f, ts)
            if rng.random() < 0.3:
                j = rng.randrange(k)
                a[2][j], b[2][j] = b[2][j], a[2][j]
        if rng.random() < 0.5:
            a, b = b, a
        if gsize(a) > 40 or gsize(b) > 40:
            continue
        ea, eb = expand(a), expand(b)
        key = (terms.to_prolog(ea), terms.to_prolog(eb), json.dumps([a, b]) if calc else "")
        if key in seen:
            continue
        seen.add(key)
        kinds[kind] = kinds.get(kind, 0) + 1
        out.append({"a": a, "b": b, "ea": ea, "eb": eb, "nv": nv, "kind": kind, "calc": calc})
    return out, kinds


# ------------------------------------------------------------------ implementation side
def build_jobs(pairs):
    jobs, index = [], []
    B = 12
    for j0 in range(0, len(pairs), B):
        chunk = pairs[j0:j0 + B]
        prog, qs = [SUPPORT], []
        for off, p in enumerate(chunk):
            i = j0 + off
            ca, cb = [], []
            ta = prolog_text(p["a"], ca)
            cb0 = list(ca)
            tb = prolog_text(p["b"], cb0)
            calcs = cb0
            pre = "".join("K%d is %s, " % (k, e) for k, e in enumerate(calcs))
            vs_all = sorted(set(terms.term_vars(p["ea"]) + terms.term_vars(p["eb"])))
            p["vs"] = vs_all
            vl = "[%s]" % ",".join(vs_all + ["_W"])
            for mode, (flag, pred, _) in MODES.items():
                # path 1: meta-call
                qs.append("%sfindall(O, c10_run(%s, %s, %s, %s, %s, O), L)." % (pre, flag, pred, ta, tb, vl))
                index.append((i, mode, "call", len(jobs), len(qs) - 1))
                # path 2: compiled clause body
                goal = "%s = %s" % (ta, tb) if pred == "eq" else "unify_with_occurs_check(%s, %s)" % (ta, tb)
                prog.append("c10_t%d_%s(Out) :- %sset_prolog_flag(occurs_check, %s), catch((%s -> R = yes ; R = no), error(E, _), R = err(E)), "
                            "set_prolog_flag(occurs_check, false), c10_post(R, %s, %s, %s, Out).\n" % (i, mode, pre, flag, goal, ta, tb, vl))
                qs.append("c10_t%d_%s(O)." % (i, mode))
                index.append((i, mode, "body", len(jobs), len(qs) - 1))
            if not calcs:
                # path 3: clause-head unification instructions (get_structure / unify_* with the flag's bind)
                vb = sorted(set(terms.term_vars(p["eb"])))
                hl = "[%s]" % ",".join(vb)
                prog.append("c10_h%d(%s, %s).\n" % (i, tb, hl))
                # a string in the head is compiled to get_partial_string, which does not bind with the flag: one mode is enough
                for mode in (("eq_false",) if has_str(p["b"]) else ("eq_false", "eq_true", "eq_error")):
                    flag = MODES[mode][0]
                    qs.append("findall(O, c10_runh(%s, c10_h%d(%s, %s), %s, %s, %s, O), L)." % (flag, i, ta, hl, ta, tb, vl))
                    index.append((i, mode, "head", len(jobs), len(qs) - 1))
        jobs.append({"id": str(len(jobs)), "consult": "".join(prog), "queries": qs, "max_answers": 3, "timeout_ms": 20000,
                     "fresh": len(jobs) % 40 == 0})
    return jobs, index


def dec(t, vmap):
    """encoded binding (v/l/s wrappers) -> plain term with numbered variables"""
    if t[0] == "cmp" and t[1] == "v" and len(t[2]) == 1 and t[2][0][0] == "var":
        name = t[2][0][1]
        if name not in vmap: vmap[name] = 1000 + len(vmap)
        return ("var", vmap[name])
    if t[0] == "cmp" and t[1] == "l" and len(t[2]) == 2:
        return ("cmp", ".", [dec(t[2][0], vmap), dec(t[2][1], vmap)])
    if t[0] == "cmp" and t[1] == "s" and len(t[2]) == 2 and t[2][0][0] == "atom":
        items, tail = terms.list_view(t[2][1])
        if tail != terms.NIL: raise ValueError("bad encoding")
        return ("cmp", t[2][0][1], [dec(x, vmap) for x in items])
    if t[0] == "flt":
        return ("flt", 0) if t[1] == 1 << 63 else t
    if t[0] == "rat" and t[2] == 1:
        return ("int", t[1])
    if t[0] in ("int", "rat", "atom"):
        return t
    raise ValueError("bad encoding %r" % (t,))


def classify(ans, path):
    """answers of one query -> (coq impl_out, short text)"""
    try:
        a = terms.answers(ans)
        if not a or a[0][0] != "sol":
            return "IOther", json.dumps(ans)[:200]
        b = a[0][1]
        if path == "body":
            out = b["O"]
        else:
            items, tail = terms.list_view(b["L"])
            if len(items) != 1: return "IOther", json.dumps(ans)[:200]
            out = items[0]
        if out == ("atom", "no"):
            return "IFail", "fails"
        if out[0] == "cmp" and out[1] == "err":
            f = out[2][0]
            if f == ("cmp", "representation_error", [("atom", "term")]):
                return "IOccursError", "error(representation_error(term),_)"
            return "IOther", "error " + terms.to_prolog(terms.number_vars([f])[0])
        if out[0] == "cmp" and out[1] == "cyc":
            same = out[2][0] == ("atom", "same")
            return "(IOkCyclic %s)" % ("true" if same else "false"), "succeeds (cyclic unifier), A==B %s" % same
        if out[0] == "cmp" and out[1] == "ok":
            same = out[2][0] == ("atom", "same")
            items, tail = terms.list_view(out[2][1])
            vmap = {}
            bs = [dec(x, vmap) for x in items]
            txt = "succeeds, A==B %s, bindings %s" % (same, terms.to_prolog(terms.mklist(terms.number_vars(bs))))
            return "(IOkBind %s [%s])" % ("true" if same else "false", "; ".join(terms.to_coq(x) for x in bs)), txt
        return "IOther", json.dumps(ans)[:200]
    except Exception as e:  # malformed answer
        return "IOther", "unreadable answer %s: %s" % (e, json.dumps(ans)[:200])


def has_str(t):
    return t[0] == "str" or (t[0] == "cmp" and any(has_str(x) for x in t[2]))


def impl_kind(o):
    if o[0] == "IOther":
        return "panic" if "panic" in o[1] else "other"
    return {"IFail": "fail", "IOccursError": "error"}.get(o[0], "ok" if o[0].startswith("(IOkBind") else "ok-cyclic")


def run(ctx):
    import time
    pairs, kinds = gen_pairs(ctx)
    jobs, index = build_jobs(pairs)
    t0 = time.time()
    res = core.vrun_query(ctx.prop, jobs, tag="impl")
    core.log("C10: %d queries on the implementation in %.1fs" % (len(index), time.time() - t0))
    tie_breaks, failures = [], []
    per_pair = {}            # i -> list of (mode, path, o)
    for (i, mode, path, jid, qi) in index:
        r = res.get(str(jid))
        if r is None or "results" not in r or qi >= len(r["results"]):
            o = ("IOther", "no result: %s" % json.dumps(r)[:200])
        else:
            o = classify(r["results"][qi], path)
        per_pair.setdefault(i, []).append((mode, path, o))

    def coq_pair(p):
        varnum = {v: int(v[1:]) for v in p["vs"]}
        vs = "[%s]%%N" % "; ".join([str(varnum[v]) for v in p["vs"]] + [str(WIT)])
        return terms.to_coq(p["ea"], varnum), terms.to_coq(p["eb"], varnum), vs

    exprs, order = [], []
    n_cmp = 0
    for i, obs in sorted(per_pair.items()):
        ca, cb, vs = coq_pair(pairs[i])
        groups = {"check_rt": [], "check_oc": [], "check_err": []}
        for mode, path, o in obs:
            n_cmp += 1
            g = groups[MODES[mode][2]]
            if o[0] not in g: g.append(o[0])
        exprs.append("check_pair %s %s %s [%s] [%s] [%s]" % (ca, cb, vs, "; ".join(groups["check_rt"]), "; ".join(groups["check_oc"]),
                                                              "; ".join(groups["check_err"])))
        order.append(i)
    t0 = time.time()
    chunk = max(250, -(-len(exprs) // core.NPROC))
    bad, errs = core.coq_eval_bools(ctx.prop, IMPORTS, exprs, chunk=chunk)
    core.log("C10: %d Coq evaluations (pairs) in %.1fs" % (len(exprs), time.time() - t0))
    for k, t in errs:
        tie_breaks.append({"kind": "coq-eval", "what": "model evaluation shard failed", "detail": t})
    # second pass over the failing pairs: which observation disagrees, and the model's verdict
    bad_pairs = [order[k] for k in bad][:150]
    if bad_pairs:
        e2, m2 = [], []
        for i in bad_pairs:
            ca, cb, vs = coq_pair(pairs[i])
            e2.append("N.eqb (verdict %s %s) 0%%N" % (ca, cb)); m2.append((i, "v0"))
            e2.append("N.eqb (verdict %s %s) 1%%N" % (ca, cb)); m2.append((i, "v1"))
            e2.append("N.eqb (verdict %s %s) 2%%N" % (ca, cb)); m2.append((i, "v2"))
            seen = set()
            for mode, path, o in per_pair[i]:
                fn = MODES[mode][2]
                if (fn, o[0]) in seen: continue
                seen.add((fn, o[0]))
                e2.append("%s %s %s %s %s" % (fn, ca, cb, vs, o[0])); m2.append((i, (fn, o[0])))
        bad2, errs2 = core.coq_eval_bools(ctx.prop, IMPORTS, e2, chunk=max(250, -(-len(e2) // core.NPROC)), tag="diag")
        for k, t in errs2:
            tie_breaks.append({"kind": "coq-eval", "what": "model evaluation shard failed (diagnosis)", "detail": t})
        false2 = set(m2[k] for k in bad2)
        shown = 0
        per_key = {}
        for i in bad_pairs:
            p = pairs[i]
            verdict = "finite" if (i, "v0") not in false2 else "cyclic-only" if (i, "v1") not in false2 else \
                      "none" if (i, "v2") not in false2 else "model-out-of-fuel"
            calcs = []
            ta = prolog_text(p["a"], calcs); tb = prolog_text(p["b"], calcs)
            pre = "".join("K%d is %s, " % (k, e) for k, e in enumerate(calcs))
            for mode, path, o in per_pair[i]:
                flag, pred, fn = MODES[mode]
                if (i, (fn, o[0])) not in false2:
                    continue
                key = "unify:%s:%s:%s:%s" % (mode, path, verdict, impl_kind(o))
                per_key[key] = per_key.get(key, 0) + 1
                if per_key[key] > 3 or len(failures) >= 40:
                    continue
                if path == "head":
                    vb = sorted(set(terms.term_vars(p["eb"])))
                    hl = "[%s]" % ",".join(vb)
                    inp = ("clause  h(%s, %s).   query  set_prolog_flag(occurs_check, %s), h(%s, %s)." % (tb, hl, flag, ta, hl))
                else:
                    goal = "%s = %s" % (ta, tb) if pred == "eq" else "unify_with_occurs_check(%s, %s)" % (ta, tb)
                    inp = "%sset_prolog_flag(occurs_check, %s), %s.%s" % (pre, flag, goal, "   (goal in a compiled clause body)" if path == "body" else "")
                spec = {"finite": "succeeds with the most general unifier", "none": "fails (no unifier, finite or rational)",
                        "cyclic-only": {"check_rt": "succeeds with a cyclic unifier, A == B", "check_oc": "fails (no finite unifier)",
                                        "check_err": "raises error(representation_error(term),_)"}[fn],
                        "model-out-of-fuel": "?"}[verdict]
                if shown < 6:
                    ca, cb, vs = coq_pair(p)
                    spec += "; " + core.coq_eval_show(ctx.prop, IMPORTS, "(unify_oc %s %s, unify_rt %s %s)" % (ca, cb, ca, cb))[:1200]
                    shown += 1
                failures.append({"key": key, "what": "unification outcome differs from the model (%s, %s path); model verdict: %s" % (mode, path, verdict),
                                 "input": inp, "impl": o[1], "spec": spec, "property_fails": True})
        if per_key:
            ctx.notes.append("failing observations per key: %s" % json.dumps(per_key, sort_keys=True))
    # measured distribution / non-triviality
    dist = {"pair_kinds": kinds, "outcome_of_=": {}, "paths": {}, "modes": {}}
    nontrivial = 0
    for i, p in enumerate(pairs):
        for mode, path, o in per_pair.get(i, []):
            dist["paths"][path] = dist["paths"].get(path, 0) + 1
            dist["modes"][mode] = dist["modes"].get(mode, 0) + 1
            if mode == "eq_false" and path == "call":
                k = impl_kind(o)
                dist["outcome_of_="][k] = dist["outcome_of_="].get(k, 0) + 1
        ea, eb = p["ea"], p["eb"]
        root_ok = ea[0] == "var" or eb[0] == "var" or (ea[0] == "cmp" and eb[0] == "cmp" and ea[1] == eb[1] and len(ea[2]) == len(eb[2]))
        if p["vs"] and root_ok and ea != eb:
            nontrivial += 1
    dist["calc_number_pairs"] = sum(1 for p in pairs if p["calc"])
    dist["pairs_with_strings"] = sum(1 for p in pairs if has_str(p["a"]) or has_str(p["b"]))
    samples = []
    for i in range(0, len(pairs), max(1, len(pairs) // 10)):
        p = pairs[i]
        mode, path, o = per_pair[i][i % len(per_pair[i])]
        samples.append({"A": terms.to_prolog(p["ea"]), "B": terms.to_prolog(p["eb"]), "mode": mode, "path": path, "impl": o[1][:160]})
    return {
        "evaluations": n_cmp,
        "distinct_nontrivial": nontrivial,
        "rule": ("pairs of terms (depth <= 4, <= 5 variables shared inside and across the pair; atoms, small and big integers, floats, "
                 "arithmetic-made bignums/rationals, strings vs char lists, partial and improper lists, structures incl. same name/different arity) "
                 "built as independent terms, two generalisations of one term, generalisation + mutation, or variables-vs-terms argument vectors; "
                 "each pair under =/2 (occurs_check false/true/error) and unify_with_occurs_check/2 through the meta-call, compiled-body and "
                 "clause-head paths; compared in Coq with check_pair = check_rt/check_oc/check_err (success, A==B, bindings of every variable up "
                 "to variance, witness variable unbound, error formal). evaluations = (pair, mode, path) observations compared; non-trivial = "
                 "distinct pairs that contain a variable, are not identical and do not clash at the root (so at least one binding or a deep "
                 "failure is exercised)"),
        "samples": samples,
        "distribution": dist,
        "failures": failures,
        "tie_breaks": tie_breaks,
        "notes": ["%d Coq evaluations (one per pair) for %d observations" % (len(exprs), n_cmp)],
    }
