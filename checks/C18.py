"""C18 -- Text decoding does not depend on how input arrives."""
import json, os, shutil
from vlib import core

META = {
    "level": "proof",
    "text": ("Coq theorem chunking_independent: the impl-mirror of CharReader (buf/pos, refresh_buffer, peek_char with its buffer compaction, "
             "read_char, put_back_char, consume) fed by ANY partition of ANY byte string into non-empty chunks, under ANY script of "
             "peek/read/put-back operations, delivers exactly the items of the reference decoding of the whole byte string (Rust's from_utf8 "
             "segmentation: characters, each invalid sequence as the same bad bytes at the same position); never_panics: none of the panicking "
             "paths is reachable; decode_encode: the reference decoding inverts the UTF-8 encoder. The mirror is tied to the code by running the "
             "real CharReader (hook verif_hooks::char_reader_run) and the model on the same (bytes, chunking, script) triples, plus get_char/1 on real files."),
    "note": ("Trusted: Coq kernel + vm_compute; Rust's str::from_utf8 is modelled by decode1 (valid_up_to/error_len semantics), SmallVec drain/extend as list "
             "operations, a source whose read() returns 0 only at the end of input; the hook driver in src/verif_hooks.rs; harness + generator. "
             "Socket/pipe/TLS sources are represented by the scripted chunk source (they all reach CharReader through Read)."),
    "technique": "Coq refinement proof (CharReader mirror = reference UTF-8 decoding for every chunking and script) + differential correspondence through a hook",
    "coq_targets": ["C18/Props.vo"], "coq_dirs": ["C18"], "props": "C18/Props.v",
    "trusted_base": ["Coq 8.16.1 kernel, vm_compute", "src/verif_hooks.rs char_reader_run (hook driver)", "harness vrun + tools/vlib",
                     "Rust str::from_utf8 / SmallVec modelled, not verified"],
    "assumptions": ["a Read source returns 0 bytes only at end of input", "chunks handed out by the OS are non-empty"],
}

IMPORTS = "From V Require Import C18.Model."

VALID = ["a", "b", "\n", "é", "ü", "€", "日", "😀", "𝄞", "߿", "ࠀ", "￿", "\U00010000", "\U0010ffff", "\x7f", "\x00"]
BADFRAG = [b"\xff", b"\xc0\xaf", b"\xc3", b"\xe2\x82", b"\xf0\x9f", b"\xf0\x9f\x98", b"\x80", b"\xed\xa0\x80", b"\xf4\x90\x80\x80",
           b"\xe0\x80\xaf", b"\xf0\x80\x80\x80", b"\xc2\x41", b"\xe2\x28\xa1", b"\xf0\x28\x8c\xbc", b"\xf8\x88\x80\x80\x80"]


def gen_bytes(rng, thorough):
    n = rng.choice([0, 1, 2, 3, 4, 5, 6, 8, 12])
    out = b""
    for _ in range(n):
        if rng.random() < 0.72:
            out += rng.choice(VALID).encode("utf-8")
        else:
            out += rng.choice(BADFRAG)
    if rng.random() < 0.15:  # truncated character at the very end
        e = rng.choice(["é", "€", "😀"]).encode("utf-8")
        out += e[:rng.randrange(1, len(e))]
    return out


def gen_chunking(rng, bs):
    if not bs:
        return []
    mode = rng.random()
    chunks, i = [], 0
    while i < len(bs):
        if mode < 0.35: k = 1
        elif mode < 0.7: k = rng.choice([1, 2, 3, 4, 5, 6])
        else: k = rng.choice([1, 2, 5, 7, 9, 40])
        chunks.append(bs[i:i + k]); i += k
    return chunks


def gen_script(rng, nbytes):
    ops = []
    for _ in range(nbytes + 3):
        r = rng.random()
        if r < 0.25: ops.append("p")
        elif r < 0.85: ops.append("r")
        else: ops.append("b")
    return "".join(ops) + "rr"


def straddles(chunks):
    """a chunk boundary falls inside a multi-byte sequence (lead byte with continuation bytes on the other side)"""
    pos, cuts = 0, set()
    for c in chunks[:-1]:
        pos += len(c); cuts.add(pos)
    bs = b"".join(chunks)
    i = 0
    while i < len(bs):
        b = bs[i]
        w = 1 if b < 0x80 else 2 if 0xC2 <= b <= 0xDF else 3 if 0xE0 <= b <= 0xEF else 4 if 0xF0 <= b <= 0xF4 else 1
        if any(i < c < i + w for c in cuts):
            return True
        i += w
    return False


def coq_case(chunks, script):
    cs = "[" + "; ".join("[" + "; ".join(str(b) for b in c) + "]" for c in chunks) + "]"
    ops = "[" + "; ".join({"p": "OPeek", "r": "ORead", "b": "OPutBack"}[o] for o in script) + "]"
    return cs, ops


def coq_items(items):
    out = []
    for it in items:
        if it == "eof": out.append("IEof")
        elif it.startswith("c"): out.append("IChr %s" % it[1:])
        elif it.startswith("e"):
            hx = it[1:]
            out.append("IBad [%s]" % "; ".join(str(int(hx[i:i + 2], 16)) for i in range(0, len(hx), 2)))
        else: return None
    return "[" + "; ".join(out) + "]"


def run(ctx):
    rng = ctx.rng
    n = ctx.scale(6000, 150000)
    cases, seen = [], set()
    # corpus: the chunkings on which the unrepaired reader panicked
    corpus = [([b"ab\xf0\x9f\x98", b"\x80c"], "rrprrr"), ([b"ab\xf0"], "rrrr"), ([b"\xf0"], "prr"), ([b"ab\xf0\x9f\x98"], "rrrr"),
              ([b"abcde\xf0", b"\x9f", b"\x98", b"\x80z"], "rrrrrprbrrr")]
    for ch, sc in corpus:
        cases.append((ch, sc))
    while len(cases) < n:
        bs = gen_bytes(rng, ctx.thorough)
        ch = gen_chunking(rng, bs)
        sc = gen_script(rng, len(bs))
        key = (tuple(ch), sc)
        if key in seen: continue
        seen.add(key)
        cases.append((ch, sc))
    lines = []
    for i, (ch, sc) in enumerate(cases):
        lines.append("%d\t%s\t%s" % (i, "|".join(c.hex() for c in ch), sc))
    res, crashed = core.vrun_mode(ctx.prop, "charreader", lines)
    failures, tie_breaks = [], []
    for c in crashed:
        tie_breaks.append({"kind": "harness", "what": "vrun charreader process died", "detail": c})
    bools, idx = [], []
    nontriv = 0
    dist = {"chunks": {}, "invalid": 0, "straddling": 0, "putback": 0}
    for i, (ch, sc) in enumerate(cases):
        out = res.get(str(i))
        bs = b"".join(ch)
        inval = False
        try:
            bs.decode("utf-8")
        except UnicodeDecodeError:
            inval = True
        st = straddles(ch)
        if inval: dist["invalid"] += 1
        if st: dist["straddling"] += 1
        if "b" in sc: dist["putback"] += 1
        if inval or st: nontriv += 1
        k = min(len(ch), 10)
        dist["chunks"][k] = dist["chunks"].get(k, 0) + 1
        inp = "chunks=%s script=%s" % ("|".join(c.hex() for c in ch), sc)
        if out is None:
            failures.append({"key": "charreader:no-result", "what": "no result from the implementation", "input": inp, "impl": "none", "spec": "", "property_fails": True})
            continue
        if out.startswith("panic:"):
            failures.append({"key": "charreader:panic", "what": "decoding panicked", "input": inp, "impl": out, "spec": "items of the reference decoding", "property_fails": True})
            continue
        items = coq_items(out.split())
        cs, ops = coq_case(ch, sc)
        if items is None:
            failures.append({"key": "charreader:io-error", "what": "unexpected I/O error item", "input": inp, "impl": out, "spec": "", "property_fails": True})
            continue
        bools.append("check_reader %s %s %s" % (cs, ops, items)); idx.append(i)
    bad, errs = core.coq_eval_bools(ctx.prop, IMPORTS, bools, chunk=500)
    for _, t in errs:
        tie_breaks.append({"kind": "coq-eval", "what": "model evaluation shard failed", "detail": t})
    for j in bad[:10]:
        i = idx[j]; ch, sc = cases[i]
        cs, ops = coq_case(ch, sc)
        spec = core.coq_eval_show(ctx.prop, IMPORTS, "run_spec %s (concat %s) None" % (ops, cs))
        failures.append({"key": "charreader:mismatch", "what": "characters delivered differ from the UTF-8 decoding of the bytes",
                         "input": "chunks=%s script=%s" % ("|".join(c.hex() for c in ch), sc), "impl": res.get(str(i)), "spec": spec, "property_fails": True})

    # end to end: get_char/1 on real files (8 KiB read chunks: characters straddling offset 8192, truncated endings)
    d = "/var/tmp/verif_c18_%d" % os.getpid()
    os.makedirs(d, exist_ok=True)
    e2e = 0
    try:
        jobs, expect = [], {}
        for k, (pad, tail) in enumerate([(8190, "😀z"), (8191, "é"), (8189, "日本"), (8192, "a"), (8191, "😀"), (16381, "𝄞€"), (3, "é😀"), (0, "")]):
            txt = "x" * pad + tail
            p = os.path.join(d, "f%d.txt" % k)
            open(p, "wb").write(txt.encode("utf-8"))
            jobs.append({"id": "f%d" % k, "consult": ("rd%d(S,L) :- get_char(S,C), ( C == end_of_file -> L = [] ; L = [C|T], rd%d(S,T) ).\n"
                                                     "len%d([],N,N). len%d([_|T],N0,N) :- N1 is N0+1, len%d(T,N1,N).\n"
                                                     "tl%d(L,L) :- ( L = [] ; L = [_] ; L = [_,_] ; L = [_,_,_] ), !. tl%d([_|T],R) :- tl%d(T,R).\n") % ((k,) * 8),
                         "queries": ["open('%s', read, S), rd%d(S, L), close(S), len%d(L, 0, N), tl%d(L, TL), atom_chars(Tail, TL)." % (p, k, k, k)],
                         "timeout_ms": 30000})
            expect["f%d" % k] = (len(txt), txt[-3:] if len(txt) >= 3 else txt)
        for k, raw in enumerate([b"ab\xf0\x9f\x98", b"ab\xf0", b"\xf0", b"x" * 8191 + b"\xe2\x82"]):
            p = os.path.join(d, "t%d.txt" % k)
            open(p, "wb").write(raw)
            jobs.append({"id": "t%d" % k, "consult": "rt%d(S,L) :- get_char(S,C), ( C == end_of_file -> L = [] ; L = [C|T], rt%d(S,T) )." % (k, k),
                         "queries": ["open('%s', read, S), catch(rt%d(S, L), error(E, _), true), close(S)." % (p, k)], "timeout_ms": 20000})
            expect["t%d" % k] = None
        r = core.vrun_query(ctx.prop, jobs, tag="e2e")
        for jid, exp in expect.items():
            rec = r.get(jid, {})
            ans = (rec.get("results") or [[]])[0]
            e2e += 1
            if exp is None:
                if not ans or not isinstance(ans[0], dict) or "b" not in ans[0] or "v" in ans[0]["b"].get("E", {"v": 1}):
                    failures.append({"key": "charreader:e2e-truncated", "what": "get_char/1 on a file ending in a truncated UTF-8 sequence did not raise a catchable error",
                                     "input": jid, "impl": json.dumps(rec)[:300], "spec": "error(_, _) caught", "property_fails": True})
                continue
            ok = bool(ans) and isinstance(ans[0], dict) and "b" in ans[0] and ans[0]["b"].get("N", {}).get("i") == str(exp[0]) \
                and ans[0]["b"].get("Tail", {}).get("a") == exp[1]
            if not ok:
                failures.append({"key": "charreader:e2e-file", "what": "get_char/1 over a file does not deliver the UTF-8 decoding of its bytes",
                                 "input": "%s: %d chars ending %r" % (jid, exp[0], exp[1]), "impl": json.dumps(ans)[:300], "spec": "N=%d Tail=%r" % exp, "property_fails": True})
    finally:
        shutil.rmtree(d, ignore_errors=True)

    samples = [{"chunks": [c.hex() for c in ch], "script": sc, "impl": res.get(str(i), "")[:120]} for i, (ch, sc) in list(enumerate(cases))[:3] + list(enumerate(cases))[100:104]]
    return {"evaluations": len(bools) + e2e, "distinct_nontrivial": nontriv,
            "rule": ("(bytes, chunking, script) triples: bytes = 0..12 fragments drawn from valid characters of 1-4 bytes and invalid/overlong/surrogate/"
                     "truncated fragments; chunk sizes 1..6 (or mixed up to 40); scripts of peek/read/put-back; the implementation's real CharReader is driven "
                     "through the hook and compared in Coq with run_reader (mirror) and run_spec (reference). Non-trivial = distinct triple with a chunk boundary "
                     "inside a multi-byte sequence or containing invalid UTF-8. Plus 12 end-to-end get_char/1 runs over real files (8 KiB boundaries, truncated endings)."),
            "samples": samples, "distribution": dist, "failures": failures, "tie_breaks": tie_breaks}
