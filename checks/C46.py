"""C46 -- clp(B) decides satisfiability and counts models exactly."""
import itertools, json, os
from vlib import core

META = {
    "level": "proof",
    "text": ("Coq theorems over a truth-table reference model of the CLP(B) expression language (0, 1, variables, ~, *, +, #, =:=, =\\=, =<, >=, <, >, "
             "card/2, +/1, */1): sat_dec decides satisfiability (only the occurring variables matter), taut_dec classifies tautologies and "
             "contradictions, count is the number of duplicate-free, lexicographically enumerated satisfying assignments, card/2 has the documented "
             "counting semantics, and the synonym rewriting of sat_rewrite/2 preserves truth values. The BDD engine of clpb.pl is tied to the model "
             "differentially: sat/1, taut/2, sat_count/2 and findall over labeling/1 (also after incrementally posted constraints) are run on "
             "random formulas and compared with the model inside Coq."),
    "note": ("Trusted: Coq kernel + vm_compute; the harness vrun; the Python generator and the translation of a formula to Prolog text and to a Coq term. "
             "The BDD construction, propagation and counting of clpb.pl (about 2000 lines of Prolog) are NOT verified, only compared on the generated "
             "formulas. Universally quantified atoms and existential quantification (^) are outside the model. The documentation promises no "
             "labeling order, so answer sequences are compared as duplicate-free sets; agreement with the index-order enumeration is only measured."),
    "technique": ("Coq proof (sat_dec_correct, taut_correct, count_is_number_of_models, models_exact_nodup, card_semantics, rewrite_sound) over a "
                  "reference model + differential correspondence evaluated in Coq"),
    "design_ref": "DESIGN.md section 8, C46",
    "coq_targets": ["C46/Props.vo"],
    "coq_dirs": ["C46"],
    "props": "C46/Props.v",
    "trusted_base": ["Coq 8.16.1 kernel, vm_compute (no native_compute)", "harness/vrun + tools/vlib (correspondence)",
                     "checks/C46.py generator and the formula -> Prolog text / Coq term printers",
                     "clpb.pl BDD engine compared, not verified"],
    "assumptions": ["formulas contain no universally quantified atoms and no existential quantifier (^)",
                    "no CLP(B) constraints other than the ones of the query are posted (each query starts from fresh variables)"],
}

IMPORTS = "From V Require Import C46.Model."
VN = "ABCDEFG"

BINOPS = {"and": ("*", "OAnd"), "or": ("+", "OOr"), "xor": ("#", "OXor"), "eq": ("=:=", "OEq"), "neq": ("=\\=", "ONeq"),
          "le": ("=<", "OLe"), "ge": (">=", "OGe"), "lt": ("<", "OLt"), "gt": (">", "OGt")}


# ------------------------------------------------------------------ formulas
# ("c", 0|1) ("v", i) ("not", f) ("bin", op, f, g) ("card", [int | (a, b)], [f..]) ("orl", [f..]) ("andl", [f..])

def size(f):
    k = f[0]
    if k in ("c", "v"): return 1
    if k == "not": return 1 + size(f[1])
    if k == "bin": return 1 + size(f[2]) + size(f[3])
    if k == "card": return 1 + sum(size(x) for x in f[2])
    return 1 + sum(size(x) for x in f[1])


def fvars(f, acc=None):
    if acc is None: acc = []
    k = f[0]
    if k == "v":
        if f[1] not in acc: acc.append(f[1])
    elif k == "not": fvars(f[1], acc)
    elif k == "bin": fvars(f[2], acc); fvars(f[3], acc)
    elif k == "card":
        for x in f[2]: fvars(x, acc)
    elif k in ("orl", "andl"):
        for x in f[1]: fvars(x, acc)
    return acc


def connectives(f, acc=None):
    if acc is None: acc = set()
    k = f[0]
    if k == "not": acc.add("not"); connectives(f[1], acc)
    elif k == "bin": acc.add(f[1]); connectives(f[2], acc); connectives(f[3], acc)
    elif k == "card":
        acc.add("card")
        for x in f[2]: connectives(x, acc)
    elif k in ("orl", "andl"):
        acc.add(k)
        for x in f[1]: connectives(x, acc)
    return acc


def py_eval(f, rho):
    k = f[0]
    if k == "c": return bool(f[1])
    if k == "v": return rho[f[1]]
    if k == "not": return not py_eval(f[1], rho)
    if k == "bin":
        a, b = py_eval(f[2], rho), py_eval(f[3], rho)
        o = f[1]
        return {"and": a and b, "or": a or b, "xor": a != b, "eq": a == b, "neq": a != b, "le": (not a) or b, "ge": (not b) or a,
                "lt": (not a) and b, "gt": a and not b}[o]
    if k == "card":
        n = sum(1 for x in f[2] if py_eval(x, rho))
        return any((n == r) if isinstance(r, int) else (r[0] <= n <= r[1]) for r in f[1])
    if k == "orl": return any(py_eval(x, rho) for x in f[1])
    if k == "andl": return all(py_eval(x, rho) for x in f[1])
    raise ValueError(f)


def py_models(f, vs):
    out = []
    for bs in itertools.product([False, True], repeat=len(vs)):
        if py_eval(f, dict(zip(vs, bs))): out.append(bs)
    return out


def to_prolog(f):
    k = f[0]
    if k == "c": return str(f[1])
    if k == "v": return VN[f[1]]
    if k == "not": return "~(%s)" % to_prolog(f[1])
    if k == "bin": return "((%s) %s (%s))" % (to_prolog(f[2]), BINOPS[f[1]][0], to_prolog(f[3]))
    if k == "card":
        rs = ",".join(("(%d)" % r if r < 0 else str(r)) if isinstance(r, int) else "%s-%s" % tuple(("(%d)" % x if x < 0 else str(x)) for x in r) for r in f[1])
        return "card([%s],[%s])" % (rs, ",".join(to_prolog(x) for x in f[2]))
    if k == "orl": return "+([%s])" % ",".join(to_prolog(x) for x in f[1])
    if k == "andl": return "*([%s])" % ",".join(to_prolog(x) for x in f[1])
    raise ValueError(f)


def to_coq(f):
    k = f[0]
    if k == "c": return "(FConst %s)" % ("true" if f[1] else "false")
    if k == "v": return "(FVar %d%%N)" % f[1]
    if k == "not": return "(FNot %s)" % to_coq(f[1])
    if k == "bin": return "(FBin %s %s %s)" % (BINOPS[f[1]][1], to_coq(f[2]), to_coq(f[3]))
    if k == "card":
        rs = "; ".join("CI (%d)%%Z" % r if isinstance(r, int) else "CR (%d)%%Z (%d)%%Z" % r for r in f[1])
        return "(FCard [%s] [%s])" % (rs, "; ".join(to_coq(x) for x in f[2]))
    if k == "orl": return "(FOrL [%s])" % "; ".join(to_coq(x) for x in f[1])
    if k == "andl": return "(FAndL [%s])" % "; ".join(to_coq(x) for x in f[1])
    raise ValueError(f)


def coq_nlist(vs):
    return "[%s]" % "; ".join("%d%%N" % v for v in vs)


def coq_bool(b):
    return "true" if b else "false"


def coq_assigns(L):
    return "[%s]" % "; ".join("[%s]" % "; ".join(coq_bool(b) for b in a) for a in L)


_leaf = [0]


def gen_formula(rng, budget, nv, depth=0):
    """random formula with at most `budget` nodes over variables 0..nv-1"""
    if budget <= 1 or (depth > 0 and rng.random() < 0.06):
        if rng.random() < 0.07:
            return ("c", rng.randint(0, 1))
        _leaf[0] += 1
        # half of the leaves walk through the variables in turn so that formulas over 4-5 distinct variables are common
        return ("v", (_leaf[0] % nv) if rng.random() < (0.8 if nv >= 4 else 0.4) else rng.randrange(nv))
    r = rng.random()
    if r < 0.13:
        return ("not", gen_formula(rng, budget - 1, nv, depth + 1))
    if r < 0.72 or budget < 3:
        if budget < 3:
            return ("not", gen_formula(rng, budget - 1, nv, depth + 1))
        o = rng.choice(list(BINOPS))
        left = rng.randint(1, budget - 2)
        a = gen_formula(rng, left, nv, depth + 1)
        b = gen_formula(rng, budget - 1 - size(a), nv, depth + 1)
        return ("bin", o, a, b)
    # list forms
    n = rng.randint(0, min(4, budget - 1))
    es, rest = [], budget - 1
    for i in range(n):
        share = max(1, rest // (n - i)) if rng.random() < 0.7 else 1
        e = gen_formula(rng, rng.randint(1, share), nv, depth + 1)
        es.append(e); rest -= size(e)
        if rest <= 0: break
    if r < 0.86:
        rs = []
        for _ in range(rng.choice([0, 1, 1, 1, 2, 2, 3])):
            if rng.random() < 0.6:
                rs.append(rng.randint(-1, len(es) + 1))
            else:
                a = rng.randint(-1, len(es) + 1)
                rs.append((a, a + rng.randint(-1, 3)))
        return ("card", rs, es)
    return ("orl" if r < 0.93 else "andl", es)


# ------------------------------------------------------------------ implementation side
def parse_T(ans):
    """answers of (taut(F,T0) -> T = T0 ; T = n) -> 'Some true' / 'Some false' / 'None' / None(=unexpected)"""
    v = first_binding(ans, "T")
    if v is None: return None
    if v.get("i") == "1": return "(Some true)"
    if v.get("i") == "0": return "(Some false)"
    if v.get("a") == "n": return "None"
    return None


def first_binding(ans, name):
    if ans and isinstance(ans[0], dict) and "b" in ans[0] and name in ans[0]["b"]:
        return ans[0]["b"][name]
    return None


def parse_L(ans, width):
    v = first_binding(ans, "L")
    if v is None or "l" not in v: return None
    out = []
    for a in v["l"]:
        if "l" not in a or len(a["l"]) != width: return None
        row = []
        for x in a["l"]:
            if x.get("i") == "0": row.append(False)
            elif x.get("i") == "1": row.append(True)
            else: return None
        out.append(tuple(row))
    return out


def vlist(vs):
    return "[%s]" % ",".join(VN[v] for v in vs)


USE = ":- use_module(library(clpb)).\n"


def run(ctx):
    rng = ctx.rng
    n_single = ctx.scale(3600, 40000)
    n_pairs = ctx.scale(1400, 15000)
    n_seq = ctx.scale(600, 6000)
    # further cases are run on the implementation and pre-screened against the (untrusted) Python mirror of the model;
    # only those on which the mirror disagrees with the implementation are forwarded to the Coq model, which alone decides
    x_single = ctx.scale(10000, 100000)
    x_pairs = ctx.scale(4000, 40000)
    maxv = 5
    # ---------------- cases
    singles, pairs = [], []
    seen = set()
    tries = 0
    while len(singles) < n_single + x_single and tries < (n_single + x_single) * 20:
        tries += 1
        nv = rng.choice([1, 2, 3, 4, 4, 5, 5, 5, 5])
        budget = rng.choice([1, 2, 3, 4, 5, 6, 7, 8, 8, 9, 9, 10, 10, 11, 11, 12, 12, 12])
        f = gen_formula(rng, budget, nv)
        if size(f) > 12 or size(f) < budget - 2: continue
        key = to_prolog(f)
        if key in seen: continue
        seen.add(key)
        vs = fvars(f)
        tmpl = list(vs)
        # sometimes a variable that does not occur in the formula is labeled too
        extra = [v for v in range(maxv) if v not in vs]
        if extra and rng.random() < 0.25:
            tmpl.append(rng.choice(extra))
        rng.shuffle(tmpl)
        singles.append((f, tmpl))
    tries = 0
    while len(pairs) < n_pairs + x_pairs and tries < (n_pairs + x_pairs) * 20:
        tries += 1
        nv = rng.choice([2, 3, 4, 4, 5, 5, 5])
        g = gen_formula(rng, rng.randint(1, 7), nv)
        f = gen_formula(rng, rng.randint(1, 7), nv)
        if size(g) + size(f) + 1 > 15: continue
        key = to_prolog(g) + " , " + to_prolog(f)
        if key in seen: continue
        seen.add(key)
        vs = fvars(("bin", "and", g, f))
        tmpl = list(vs)
        rng.shuffle(tmpl)
        pairs.append((g, f, tmpl))

    jobs = []
    B = 25
    for i in range(0, len(singles), B):
        qs = []
        for (f, tmpl) in singles[i:i + B]:
            p = to_prolog(f)
            qs.append("(sat(%s) -> S = 1 ; S = 0)." % p)
            qs.append("(taut(%s, T0) -> T = T0 ; T = n)." % p)
            qs.append("sat_count(%s, N)." % p)
            qs.append("findall(%s, (sat(%s), labeling(%s)), L)." % (vlist(tmpl), p, vlist(tmpl)))
        jobs.append({"id": "s%d" % i, "consult": USE, "queries": qs, "max_answers": 3, "timeout_ms": 20000})
    for i in range(0, len(pairs), B):
        qs = []
        for (g, f, tmpl) in pairs[i:i + B]:
            pg, pf = to_prolog(g), to_prolog(f)
            qs.append("(sat(%s), sat(%s) -> S = 1 ; S = 0)." % (pg, pf))
            qs.append("findall(%s, (sat(%s), sat(%s), labeling(%s)), L)." % (vlist(tmpl), pg, pf, vlist(tmpl)))
            qs.append("(sat(%s) -> (taut(%s, T0) -> T = T0 ; T = n) ; T = unsat)." % (pg, pf))
            qs.append("(sat(%s) -> sat_count(%s, N) ; N = unsat)." % (pg, pf))
        jobs.append({"id": "p%d" % i, "consult": USE, "queries": qs, "max_answers": 3, "timeout_ms": 20000})
    res = core.vrun_query(ctx.prop, jobs, tag="impl")

    def results(jid, n):
        r = res.get(jid)
        if r is None or "results" not in r:
            return [[{"harness": json.dumps(r)[:200]}]] * n
        rs = r["results"]
        return rs + [[{"harness": "missing"}]] * (n - len(rs))

    # ---------------- compare in Coq: one Boolean per case (all observations of the case), details only for failing cases
    bools, meta = [], []   # meta: list of (kind, query, impl text, check expr, spec expr) per case
    failures, tie_breaks = [], []
    dist = {"connectives": {}, "nvars": {}, "size": {}, "sat": 0, "unsat": 0, "taut": 0, "contingent": 0, "models_total": 0,
            "incremental_first_unsat": 0, "incremental_conj_unsat": 0, "incremental_taut_under": {},
            "prescreened_only": {"single_agree": 0, "single_forwarded_to_coq": 0, "pair_agree": 0, "pair_forwarded_to_coq": 0}}
    nontrivial = set()
    seq_checks, seq_meta = [], []
    n_obs = 0

    def bad_obs(kind, query, ans):
        failures.append({"key": "clpb:%s:unexpected-answer" % kind, "what": "unexpected answer shape (error, panic or non-Boolean value)",
                         "input": query, "impl": json.dumps(ans)[:400], "spec": "a Boolean result", "property_fails": True})

    for i in range(0, len(singles), B):
        chunk = singles[i:i + B]
        rs = results("s%d" % i, 4 * len(chunk))
        for j, (f, tmpl) in enumerate(chunk):
            p, c = to_prolog(f), to_coq(f)
            a_s, a_t, a_n, a_l = rs[4 * j: 4 * j + 4]
            vs = fvars(f)
            ms = py_models(f, vs)
            extra_case = i + j >= n_single
            if extra_case:
                exp_t = "(Some false)" if not ms else "(Some true)" if len(ms) == 2 ** len(vs) else "None"
                s0, n0, L0 = first_binding(a_s, "S"), first_binding(a_n, "N"), parse_L(a_l, len(tmpl))
                if (s0 is not None and s0.get("i") == ("1" if ms else "0") and parse_T(a_t) == exp_t and n0 is not None and n0.get("i") == str(len(ms))
                        and L0 is not None and len(set(L0)) == len(L0) and sorted(L0) == sorted(py_models(f, tmpl))):
                    dist["prescreened_only"]["single_agree"] += 1
                    continue
                dist["prescreened_only"]["single_forwarded_to_coq"] += 1
            dist["models_total"] += len(ms)
            for o in connectives(f): dist["connectives"][o] = dist["connectives"].get(o, 0) + 1
            dist["nvars"][len(vs)] = dist["nvars"].get(len(vs), 0) + 1
            dist["size"][size(f)] = dist["size"].get(size(f), 0) + 1
            if not ms: dist["unsat"] += 1
            elif len(ms) == 2 ** len(vs): dist["taut"] += 1
            else: dist["contingent"] += 1
            if ms: dist["sat"] += 1
            if len(vs) >= 2 and 0 < len(ms) < 2 ** len(vs): nontrivial.add(p)
            qs = ["(sat(%s) -> S = 1 ; S = 0)." % p, "(taut(%s, T0) -> T = T0 ; T = n)." % p, "sat_count(%s, N)." % p,
                  "findall(%s, (sat(%s), labeling(%s)), L)." % (vlist(tmpl), p, vlist(tmpl))]
            s = first_binding(a_s, "S")
            t = parse_T(a_t)
            n = first_binding(a_n, "N")
            L = parse_L(a_l, len(tmpl))
            ok = True
            if s is None or s.get("i") not in ("0", "1"): bad_obs("sat", qs[0], a_s); ok = False
            if t is None: bad_obs("taut", qs[1], a_t); ok = False
            if n is None or "i" not in n or int(n["i"]) < 0: bad_obs("sat_count", qs[2], a_n); ok = False
            if L is None: bad_obs("labeling", qs[3], a_l); ok = False
            if not ok: continue
            sb, Lc, tl = coq_bool(s["i"] == "1"), coq_assigns(L), coq_nlist(tmpl)
            bools.append("check_single %s %s %s %s %s%%N %s" % (c, tl, sb, t, n["i"], Lc))
            n_obs += 4
            meta.append([("sat", qs[0], "S = " + s["i"], "check_sat %s %s" % (c, sb), "sat_dec %s" % c),
                         ("taut", qs[1], "T = " + core.term_text(first_binding(a_t, "T")), "check_taut %s %s" % (c, t), "taut_dec %s" % c),
                         ("sat_count", qs[2], "N = " + n["i"], "check_count %s %s%%N" % (c, n["i"]), "count %s" % c),
                         ("labeling", qs[3], "L = " + json.dumps([[int(b) for b in a] for a in L]), "check_label_set %s %s %s" % (c, tl, Lc),
                          "models %s %s" % (tl, c))])
            if len(seq_checks) < n_seq:
                seq_checks.append("check_label_seq %s %s %s" % (c, tl, Lc))
                seq_meta.append((qs[3], json.dumps([[int(b) for b in a] for a in L])))
    for i in range(0, len(pairs), B):
        chunk = pairs[i:i + B]
        rs = results("p%d" % i, 4 * len(chunk))
        for j, (g, f, tmpl) in enumerate(chunk):
            pg, pf, cg, cf = to_prolog(g), to_prolog(f), to_coq(g), to_coq(f)
            conj = ("bin", "and", g, f)
            cc = to_coq(conj)
            a_s, a_l, a_t, a_n = rs[4 * j: 4 * j + 4]
            vs = fvars(conj)
            ms = py_models(conj, vs)
            g_ms = py_models(g, vs)
            g_sat = bool(g_ms)
            if i + j >= n_pairs:
                vf = fvars(f)
                exp_t = "unsat" if not g_sat else "(Some false)" if not ms else "(Some true)" if len(ms) == len(g_ms) else "None"
                exp_n = "unsat" if not g_sat else str(len(set(tuple(m[vs.index(v)] for v in vf) for m in ms)))
                s0, L0, tv0, n0 = first_binding(a_s, "S"), parse_L(a_l, len(tmpl)), first_binding(a_t, "T"), first_binding(a_n, "N")
                t0 = "unsat" if (tv0 is not None and tv0.get("a") == "unsat") else parse_T(a_t)
                if (s0 is not None and s0.get("i") == ("1" if ms else "0") and t0 == exp_t and n0 is not None and (n0.get("i") or n0.get("a")) == exp_n
                        and L0 is not None and len(set(L0)) == len(L0) and sorted(L0) == sorted(py_models(conj, tmpl))):
                    dist["prescreened_only"]["pair_agree"] += 1
                    continue
                dist["prescreened_only"]["pair_forwarded_to_coq"] += 1
            if not g_sat: dist["incremental_first_unsat"] += 1
            elif not ms: dist["incremental_conj_unsat"] += 1
            if g_sat and 0 < len(ms) < 2 ** len(vs): nontrivial.add(pg + " , " + pf)
            qs = ["(sat(%s), sat(%s) -> S = 1 ; S = 0)." % (pg, pf),
                  "findall(%s, (sat(%s), sat(%s), labeling(%s)), L)." % (vlist(tmpl), pg, pf, vlist(tmpl)),
                  "(sat(%s) -> (taut(%s, T0) -> T = T0 ; T = n) ; T = unsat)." % (pg, pf),
                  "(sat(%s) -> sat_count(%s, N) ; N = unsat)." % (pg, pf)]
            s = first_binding(a_s, "S")
            L = parse_L(a_l, len(tmpl))
            tv = first_binding(a_t, "T")
            t = "None" if (tv is not None and tv.get("a") == "unsat") else parse_T(a_t)
            n = first_binding(a_n, "N")
            ok = True
            if s is None or s.get("i") not in ("0", "1"): bad_obs("sat-incremental", qs[0], a_s); ok = False
            if L is None: bad_obs("labeling-incremental", qs[1], a_l); ok = False
            if t is None: bad_obs("taut-incremental", qs[2], a_t); ok = False
            if n is not None and n.get("a") == "unsat": nc = "None"
            elif n is None or "i" not in n or int(n["i"]) < 0: bad_obs("sat_count-incremental", qs[3], a_n); ok = False
            else: nc = "(Some %s%%N)" % n["i"]
            if not ok: continue
            tc = "None" if t == "None" and tv.get("a") == "unsat" else "(Some %s)" % t
            dist["incremental_taut_under"][tc] = dist["incremental_taut_under"].get(tc, 0) + 1
            sb, Lc, tl = coq_bool(s["i"] == "1"), coq_assigns(L), coq_nlist(tmpl)
            bools.append("check_pair %s %s %s %s %s %s %s" % (cg, cf, tl, sb, Lc, tc, nc))
            n_obs += 4
            meta.append([("sat-incremental", qs[0], "S = " + s["i"], "check_sat %s %s" % (cc, sb), "sat_dec %s" % cc),
                         ("labeling-incremental", qs[1], "L = " + json.dumps([[int(b) for b in a] for a in L]),
                          "check_label_set %s %s %s" % (cc, tl, Lc), "models %s %s" % (tl, cc)),
                         ("taut-incremental", qs[2], "T = " + core.term_text(tv),
                          "match %s with None => negb (sat_dec %s) | Some t => andb (sat_dec %s) (check_taut_under %s %s t) end" % (tc, cg, cg, cg, cf),
                          "(sat_dec %s, taut_under %s %s)" % (cg, cg, cf)),
                         ("sat_count-incremental", qs[3], "N = " + core.term_text(n),
                          "match %s with None => negb (sat_dec %s) | Some n => andb (sat_dec %s) (check_count_under %s %s n) end" % (nc, cg, cg, cg, cf),
                          "(sat_dec %s, count_under %s %s)" % (cg, cg, cf))])

    per = max(50, -(-len(bools) // max(1, core.NPROC)))
    bad, errs = core.coq_eval_bools(ctx.prop, IMPORTS, bools, chunk=min(per, 1500))
    tie_breaks += [{"kind": "coq-eval", "what": "model evaluation shard failed", "detail": t} for _, t in errs]
    if bad:
        # which observation of the failing cases disagrees
        det, dmeta = [], []
        for i in bad[:40]:
            for m in meta[i]:
                det.append(m[3]); dmeta.append(m)
        dbad, derrs = core.coq_eval_bools(ctx.prop, IMPORTS, det, chunk=200, tag="detail")
        tie_breaks += [{"kind": "coq-eval", "what": "model evaluation shard failed (details)", "detail": t} for _, t in derrs]
        reported = {}
        for i in dbad:
            kind, q, impl, _, spec = dmeta[i]
            if reported.get(kind, 0) >= 4: continue
            reported[kind] = reported.get(kind, 0) + 1
            failures.append({"key": "clpb:%s" % kind, "what": "%s result differs from the truth-table semantics" % kind, "input": q, "impl": impl,
                             "spec": core.coq_eval_show(ctx.prop, IMPORTS, spec), "property_fails": True})
        if not dbad and not derrs:
            tie_breaks.append({"kind": "coq-eval", "what": "combined check false but no single observation disagrees", "detail": bools[bad[0]]})
    # order of the answers: measured on a sample, not required (the documentation promises no order)
    sbad, serrs = core.coq_eval_bools(ctx.prop, IMPORTS, seq_checks, chunk=max(50, -(-len(seq_checks) // max(1, core.NPROC))), tag="seq")
    dist["labeling_sequences_compared"] = len(seq_checks)
    dist["labeling_sequences_in_index_order"] = len(seq_checks) - len(sbad) if not serrs else "coq error"
    dist["labeling_sequences_in_other_order"] = [{"query": seq_meta[i][0], "impl": seq_meta[i][1]} for i in sbad[:5]]
    samples = []
    for k in range(0, len(meta), max(1, len(meta) // 10)):
        m = meta[k][k % 4]
        samples.append({"query": m[1], "impl": m[2][:200]})
    return {
        "evaluations": n_obs,
        "distinct_nontrivial": len(nontrivial),
        "rule": ("random formulas of at most 12 nodes over at most 5 variables using 0, 1, ~, *, +, #, =:=, =\\=, =<, >=, <, >, card/2 (integers and "
                 "ranges, also out of range), +/1, */1; for each: sat/1 success, taut/2, sat_count/2 and the set of labeling/1 answers (template in "
                 "random order, sometimes with a variable that does not occur); pairs G,F posted incrementally: sat(G),sat(F) vs the conjunction, "
                 "taut/2 and sat_count/2 of F under G; every observation compared with the model by vm_compute in Coq (evaluations counts only these). About "
                 "three times as many further cases are pre-screened against a Python mirror of the model and forwarded to Coq only when the mirror "
                 "disagrees with the implementation (distribution.prescreened_only). non-trivial = distinct "
                 "formula (or pair with satisfiable first constraint) with at least 2 variables that is neither a tautology nor unsatisfiable"),
        "samples": samples,
        "distribution": dist,
        "failures": failures,
        "tie_breaks": tie_breaks,
    }
