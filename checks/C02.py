"""C02 -- Float and mixed-type evaluation follows IEEE-754 with ISO checks."""
import ctypes, json, math, struct
from fractions import Fraction
from vlib import core, terms

META = {
    "level": "proof",
    "text": ("Coq theorems over a model of is/2 on floats and mixed operands built on Flocq's binary64: for every expression and every "
             "libm oracle a successful evaluation never yields an infinite or NaN double (float_result_finite); the undefined-operation "
             "table (div_zero_error, sqrt_neg_undefined, log_zero_error, log_neg_error, pow_zero_neg_undefined, atan2_00_undefined); "
             "floor/ceiling/truncate/round return the exact integer of the real value of the double, through the code's own compositions "
             "(floor_exact, ceiling_exact, truncate_exact, round_exact, float_to_int_eval); + - * / sqrt and integer->float promotion return "
             "the round-to-nearest-even double of the exact real result, or float_overflow exactly when that does not fit "
             "(add/sub/mul/div/sqrt_correctly_rounded, int_to_float_nearest, from Flocq's B*_correct; rat_to_float_partial for rationals). The model is tied to the code by "
             "evaluating it in Coq on boundary-biased expressions (depth <= 3, every float-valued functor, integers and rationals up to 2^1100 "
             "mixed with floats) and comparing IEEE bits / error formals with `X is E` on the implementation, compiled and meta-called."),
    "note": ("Trusted: Coq kernel + vm_compute; Flocq 4.1 (its theorems use the standard Reals axioms ClassicalDedekindReals.sig_forall_dec, "
             "ClassicalDedekindReals.sig_not_dec, FunctionalExtensionality.functional_extensionality_dep, Classical_Prop.classic, and so do the "
             "model's definitions because Flocq's operations carry proof terms). Rust f64 + - * / sqrt floor trunc round, `as f64`, "
             "dashu IBig::to_f64 / RBig::to_f64 are modelled (IEEE nearest-even / correctly rounded), not verified; rational->double is "
             "modelled as a >= 64-bit quotient with a sticky bit handed to Flocq's rounding: rat_to_float_partial proves the quotient bounds and "
             "that the result is the nearest-even double of that round-to-odd value, the last step (same double as rounding n/d) is not proved. "
             "Transcendentals (exp log sin cos tan asin acos atan atan2, powf behind ** and ^) are NOT modelled by value: the model takes the "
             "library result as an input and only classifies it (finite -> value, infinite -> float_overflow, NaN -> undefined); in the "
             "correspondence that input is glibc's libm.so.6 (the shared object the harness links) called through ctypes, so for these "
             "functors the check decides classification and error kind and bit-agreement with the same library, not accuracy. log of zero / a "
             "negative number is fixed by the model (IEEE: -inf / NaN) rather than asked of the oracle. The sign of zero is not observed "
             "(-0.0 = 0.0 in comparisons and oracle keys; atan2(+-0, negative) is excluded from generation because the implementation does "
             "not keep the sign of a zero reliably). float_fractional_part is proved only to be the IEEE difference f - trunc f "
             "(float_fractional_part_partial: exactness of that difference not proved). A fresh-machine probe checks that the sign of zero does not depend on history (it does: known finding). "
             "Python mirror + generator, harness vrun."),
    "technique": "Coq proof (float_result_finite, undefined-operation table, floor/ceiling/truncate/round_exact, *_correctly_rounded via Flocq) over a reference model + differential correspondence evaluated in Coq",
    "design_ref": "DESIGN.md section 8, C02",
    "coq_targets": ["C02/Props.vo"],
    "coq_dirs": ["C02"],
    "props": "C02/Props.v",
    "trusted_base": ["Coq 8.16.1 kernel, vm_compute (no native_compute)", "Flocq 4.1.0 (IEEE754.BinarySingleNaN) and the standard Reals axioms",
                     "harness/vrun + tools/vlib (correspondence)", "glibc libm via ctypes as the transcendental oracle",
                     "Rust f64 primitives and dashu conversions modelled, not verified"],
    "assumptions": ["hardware/Rust f64 + - * / sqrt floor trunc round are IEEE-754 binary64 round-to-nearest-even",
                    "the harness process and the generator call the same glibc libm"],
}

IMPORTS = "From V Require Import C02.Model."

# ------------------------------------------------------------------ floats / libm
_libm = ctypes.CDLL("libm.so.6")
LIB1 = {"exp": 1, "log": 2, "sin": 3, "cos": 4, "tan": 5, "asin": 6, "acos": 7, "atan": 8}
for _n in LIB1:
    getattr(_libm, _n).restype = ctypes.c_double
    getattr(_libm, _n).argtypes = [ctypes.c_double]
for _n in ("pow", "atan2"):
    getattr(_libm, _n).restype = ctypes.c_double
    getattr(_libm, _n).argtypes = [ctypes.c_double, ctypes.c_double]
LIBNAME = {v: k for k, v in LIB1.items()}
LIBNAME[9] = "pow"
LIBNAME[10] = "atan2"


def f2b(x):
    return struct.unpack(">Q", struct.pack(">d", x))[0]


def b2f(b):
    return struct.unpack(">d", struct.pack(">Q", b))[0]


FMAX = 1.7976931348623157e308
NAN_BITS = 0x7ff8000000000000


def canon(x):
    return 0.0 if x == 0 else x


def rbits(r):
    return NAN_BITS if r != r else f2b(r)


def dashu_r2f(n, d):
    """RBig::to_f64 of dashu-ratio 0.4.2 (quotient of 53 or 54 bits rounded to an integer, then f64::encode rounds again)."""
    if n == 0:
        return 0.0
    sign = -1 if n < 0 else 1
    n = abs(n)
    shift = n.bit_length() - d.bit_length() - 53
    num, den = (n, d << shift) if shift >= 0 else (n << -shift, d)
    if shift >= 1024:
        return sign * math.inf
    if shift < -1074 - 53:
        return sign * 0.0
    man, r = divmod(num, den)
    if r != 0:
        if 2 * r > den or (2 * r == den and man & 1):
            man += 1
    try:
        return sign * float(Fraction(float(man)) * Fraction(2) ** shift)
    except OverflowError:
        return sign * math.inf


def dashu_encode(m, e):
    """dashu-base 0.4.1 `f64::encode(mantissa, exponent)` for a positive mantissa and a normal result: the sticky bit is
    computed from the low 10 dropped bits only (bit 10 of the normalised mantissa is ignored)."""
    zeros = 64 - m.bit_length()
    if 64 - zeros + e > 1024:
        return math.inf
    mant = 0 if m == 1 else (m << (zeros + 1)) & ((1 << 64) - 1)
    expf = e + 1023 + 64 - zeros - 1
    bits = (expf << 52) | (mant >> 12)
    rb = ((mant >> 10) & 0b110) | (1 if mant & 0x3ff else 0)
    if rb & 0b11 and (rb >= 0b110 or rb == 0b011):
        bits += 1
    return b2f(bits)


def dashu_i2f(z):
    """IBig::to_f64 of dashu-int 0.4.2: exact cast up to 64 bits, else the top 63 bits | sticky through f64::encode"""
    a = abs(z)
    n = a.bit_length()
    if n <= 64:
        return float(z)
    if n > 1024:
        return math.copysign(math.inf, z)
    top = a >> (n - 63)
    extra = 1 if a & ((1 << (n - 63)) - 1) else 0
    return math.copysign(dashu_encode(top | extra, n - 63), z)


# ------------------------------------------------------------------ expressions
# ("i", z) | ("f", bits) | ("c", name) | ("un", op, e) | ("bin", op, a, b)
CONSTS = {"pi": 0x400921FB54442D18, "e": 0x4005BF0A8B145769, "epsilon": 0x3CB0000000000000}
UN = {"neg": ("-", "UNeg"), "plus": ("+", "UPlus"), "abs": ("abs", "UAbs"), "sign": ("sign", "USign"), "float": ("float", "UFloat"),
      "sqrt": ("sqrt", "USqrt"), "fip": ("float_integer_part", "UFip"), "ffp": ("float_fractional_part", "UFfp"),
      "floor": ("floor", "UFloor"), "ceiling": ("ceiling", "UCeil"), "truncate": ("truncate", "UTrunc"), "round": ("round", "URound"),
      "log": ("log", "ULog")}
for _n, _k in LIB1.items():
    if _n != "log":
        UN[_n] = (_n, "(ULibm %d)" % _k)
BIN = {"add": ("+", "BAdd"), "sub": ("-", "BSub"), "mul": ("*", "BMul"), "div": ("/", "BDiv"), "pow": ("**", "BPow"), "ipow": ("^", "BIPow"),
       "max": ("max", "BMax"), "min": ("min", "BMin"), "atan2": ("atan2", "BAtan2"), "rdiv": ("rdiv", "BRdiv")}


def zc(n):
    """Coq text of an integer; long literals are slow to parse in Coq, so big values are limb lists for Model.zl"""
    if abs(n) < (1 << 62):
        return "(%d)" % n
    m, limbs = abs(n), []
    while m:
        limbs.append(str(m & ((1 << 60) - 1)))
        m >>= 60
    t = "(zl [%s])" % ";".join(limbs)
    return "(- %s)" % t if n < 0 else t


def to_prolog(e):
    k = e[0]
    if k == "i":
        return "(%d)" % e[1] if e[1] < 0 else str(e[1])
    if k == "f":
        s = terms.flt_text(e[1])
        return "(%s)" % s if s.startswith("-") else s
    if k == "c":
        return e[1]
    if k == "un":
        f = UN[e[1]][0]
        return "(%s (%s))" % (f, to_prolog(e[2])) if f in "+-" else "%s(%s)" % (f, to_prolog(e[2]))
    f = BIN[e[1]][0]
    if f in ("max", "min", "atan2"):
        return "%s(%s,%s)" % (f, to_prolog(e[2]), to_prolog(e[3]))
    return "((%s) %s (%s))" % (to_prolog(e[2]), f, to_prolog(e[3]))


def to_coq(e):
    k = e[0]
    if k == "i":
        return "(LitI %s)" % zc(e[1])
    if k == "f":
        return "(LitF %d)" % e[1]
    if k == "c":
        return "(LitF %d)" % CONSTS[e[1]]
    if k == "un":
        return "(Un %s %s)" % (UN[e[1]][1], to_coq(e[2]))
    return "(Bin %s %s %s)" % (BIN[e[1]][1], to_coq(e[2]), to_coq(e[3]))


def subterms(e):
    yield e
    if e[0] == "un":
        yield from subterms(e[2])
    elif e[0] == "bin":
        yield from subterms(e[2])
        yield from subterms(e[3])


def size(e):
    return sum(1 for _ in subterms(e))


# ------------------------------------------------------------------ Python mirror of the model
# (the oracle is the Coq model; the mirror collects the library calls a case makes, classifies cases and sizes them)
class EvalErr(Exception):
    def __init__(self, kind):
        self.kind = kind


class Skip(Exception):
    pass


LIMIT_BITS = 2600


class Mirror:
    def __init__(self, dashu=False):
        self.dashu_q = dashu in (True, "q", "qi")     # emulate RBig::to_f64
        self.dashu_i = dashu in ("i", "qi")           # emulate IBig::to_f64
        self.calls = []          # (fid, abits, bbits, rbits)
        self.flags = set()

    # values: ("i", z) ("q", Fraction) ("f", float)
    def to_f(self, v):
        k, x = v
        if k == "f":
            return x
        self.flags.add("mixed")
        try:
            if k == "i":
                r = dashu_i2f(x) if self.dashu_i else float(x)
            elif self.dashu_q:
                r = dashu_r2f(x.numerator, x.denominator)
            else:
                r = x.numerator / x.denominator
        except OverflowError:
            r = math.inf
        if math.isinf(r):
            raise EvalErr("float_overflow")
        if k == "q":
            self.flags.add("rat2f")
        return r

    @staticmethod
    def classify(r):
        if r != r:
            raise EvalErr("undefined")
        if math.isinf(r):
            raise EvalErr("float_overflow")
        return ("f", r)

    @staticmethod
    def exact(v):
        return Fraction(v[1])

    @staticmethod
    def is_zero(v):
        return v[1] == 0

    @staticmethod
    def is_neg(v):
        return v[1] < 0

    def lib(self, fid, a, b=None):
        self.flags.add("libm")
        a = canon(a)
        if b is None:
            r = getattr(_libm, LIBNAME[fid])(a)
            self.calls.append((fid, f2b(a), 0, rbits(r)))
        else:
            b = canon(b)
            r = getattr(_libm, LIBNAME[fid])(a, b)
            self.calls.append((fid, f2b(a), f2b(b), rbits(r)))
        return self.classify(r)

    def fop(self, op, a, b):
        fa = self.to_f(a)
        fb = self.to_f(b)
        if op == "add":
            r, ex = fa + fb, Fraction(fa) + Fraction(fb)
        elif op == "mul":
            r, ex = fa * fb, Fraction(fa) * Fraction(fb)
        else:
            r, ex = fa / fb, Fraction(fa) / Fraction(fb)
        if math.isinf(r) or Fraction(r) != ex:
            self.flags.add("inexact")
        if r != 0 and abs(r) < 2.2250738585072014e-308:
            self.flags.add("subnormal")
        return self.classify(r)

    def neg(self, v):
        return (v[0], -v[1])

    def floor(self, v):
        if v[0] == "f":
            self.flags.add("f2i")
        return math.floor(v[1])

    def un(self, op, v):
        k, x = v
        if op == "neg":
            return self.neg(v)
        if op == "plus":
            return v
        if op == "abs":
            return (k, abs(x))
        if op == "sign":
            if k == "f":
                return ("f", 0.0 if x == 0 else math.copysign(1.0, x))
            return ("i", (x > 0) - (x < 0))
        if op == "float":
            return ("f", self.to_f(v))
        if op == "sqrt":
            if self.is_neg(v):
                raise EvalErr("undefined")
            f = self.to_f(v)
            r = math.sqrt(f)
            if Fraction(r) ** 2 != Fraction(f):
                self.flags.add("inexact")
            return self.classify(r)
        if op == "fip":
            f = self.to_f(v)
            return self.classify(float(math.trunc(f)))
        if op == "ffp":
            f = self.to_f(v)
            return self.classify(f - float(math.trunc(f)))
        if op == "floor":
            return ("i", self.floor(v))
        if op == "ceiling":
            return ("i", -self.floor(self.neg(v)))
        if op == "truncate":
            return ("i", -self.floor((k, abs(x))) if self.is_neg(v) else self.floor(v))
        if op == "round":
            if k == "i":
                return v
            if k == "f":
                self.flags.add("f2i")
            q = Fraction(x)
            n = math.floor(abs(q) + Fraction(1, 2))
            return ("i", -n if q < 0 else n)
        if op == "log":
            f = self.to_f(v)
            if self.is_zero(v) or f == 0:
                self.flags.add("libm")
                raise EvalErr("float_overflow")
            if self.is_neg(v) or f < 0:
                self.flags.add("libm")
                raise EvalErr("undefined")
            return self.lib(2, f)
        return self.lib(LIB1[op], self.to_f(v))

    def bin(self, op, a, b):
        if op in ("add", "sub", "mul"):
            if op == "sub":
                b = self.neg(b)
                op = "add"
            if a[0] == "f" or b[0] == "f":
                return self.fop(op, a, b)
            r = a[1] + b[1] if op == "add" else a[1] * b[1]
            if a[0] == "i" and b[0] == "i":
                return ("i", r)
            return ("q", Fraction(r))
        if op == "div":
            if self.is_zero(b):
                raise EvalErr("zero_divisor")
            fa = self.to_f(a)
            fb = self.to_f(b)
            if fb == 0:
                raise EvalErr("zero_divisor")
            return self.fop("div", ("f", fa), ("f", fb))
        if op == "rdiv":
            if self.is_zero(b):
                raise EvalErr("zero_divisor")
            return ("q", self.exact(a) / self.exact(b))
        if op == "pow":
            if self.is_neg(b) and self.is_zero(a):
                raise EvalErr("undefined")
            fa = self.to_f(a)
            fb = self.to_f(b)
            return self.lib(9, fa, fb)
        if op == "ipow":
            if self.is_zero(a) and self.is_neg(b):
                raise EvalErr("undefined")
            if a[0] == "i" and b[0] == "i":
                x, y = a[1], b[1]
                if y < 0:
                    if x == 1:
                        return ("i", 1)
                    if x == -1:
                        return ("i", 1 if y % 2 == 0 else -1)
                    raise EvalErr(("type_float", x))
                if abs(x) > 1 and y * max(1, abs(x).bit_length()) > LIMIT_BITS:
                    raise Skip()
                return ("i", x ** y)
            fb = self.to_f(b)
            if self.is_neg(a) and fb != math.floor(fb):
                raise EvalErr("undefined")
            fa = self.to_f(a)
            return self.lib(9, fa, fb)
        if op == "atan2":
            if self.is_zero(a) and self.is_zero(b):
                raise EvalErr("undefined")
            fa = self.to_f(a)
            fb = self.to_f(b)
            if fa == 0 and fb <= 0:
                raise Skip()         # 0 or +-pi depending on the signs of the zeros, which the implementation does not keep reliably
            return self.lib(10, fa, fb)
        # max / min
        if a[0] == b[0] and a[0] in ("i", "q"):
            if op == "max":
                return a if b[1] < a[1] else b
            return b if b[1] < a[1] else a
        fa = self.to_f(a)
        fb = self.to_f(b)
        if fa == fb:
            return ("f", fb if op == "max" else fa)
        if op == "max":
            return b if fa < fb else a
        return a if fa < fb else b

    def eval(self, e):
        k = e[0]
        if k == "i":
            return ("i", e[1])
        if k == "f":
            return ("f", b2f(e[1]))
        if k == "c":
            return ("f", b2f(CONSTS[e[1]]))
        if k == "un":
            return self.un(e[1], self.eval(e[2]))
        a = self.eval(e[2])
        b = self.eval(e[3])
        if a[0] == "i" and abs(a[1]).bit_length() > LIMIT_BITS or b[0] == "i" and abs(b[1]).bit_length() > LIMIT_BITS:
            raise Skip()
        return self.bin(e[1], a, b)


def mirror_run(e, dashu=False):
    """-> (outcome, calls, flags); outcome ("i", z) | ("q", Fraction) | ("f", bits) | ("err", kind) ; raises Skip"""
    m = Mirror(dashu)
    try:
        v = m.eval(e)
        out = ("f", f2b(canon(v[1]))) if v[0] == "f" else v
    except EvalErr as x:
        m.flags.add("err")
        out = ("err", x.kind)
    return out, m.calls, m.flags


# ------------------------------------------------------------------ generator
def float_pool(rng):
    p = [0.0, -0.0, 5e-324, -5e-324, 1e-323, 2.225073858507201e-308, 2.2250738585072014e-308, -2.2250738585072014e-308, 1e-310,
         1.0, -1.0, 1.0000000000000002, 0.9999999999999999, 2.0, 3.0, 10.0, 0.1, -0.1, 0.2, 0.3333333333333333, 0.7,
         2.0 ** 52, 2.0 ** 52 + 1, 2.0 ** 52 - 0.5, 2.0 ** 53, -(2.0 ** 53), 2.0 ** 53 - 1, 2.0 ** 53 + 2,
         2.0 ** 55, 2.0 ** 55 - 4, 2.0 ** 55 + 8, -(2.0 ** 55), -(2.0 ** 55) - 8, 2.0 ** 63, 2.0 ** 64, -(2.0 ** 63),
         0.5, -0.5, 1.5, -1.5, 2.5, -2.5, 3.5, -3.5, 0.49999999999999994, -0.49999999999999994, 0.5000000000000001, 4503599627370495.5,
         -4503599627370495.5, 2.4999999999999996, 1e22, 1e23, 1e154, 1.3407807929942597e154, 1.3407807929942596e154, 1e-154, 1e-200,
         1e300, 1e308, -1e308, FMAX, -FMAX, 8.98846567431158e307, 4.49423283715579e307, 709.782712893384, 709.7827128933841, -745.1332191019412,
         -745.13321910194122, 1.5707963267948966, 3.141592653589793, 0.7853981633974483, 1e-8, 100.0, 1024.0, 0.25, 1.0e16, 123456.789]
    for _ in range(40):
        k = rng.random()
        if k < 0.4:
            p.append(rng.uniform(-10, 10))
        elif k < 0.6:
            p.append(rng.uniform(-1, 1))
        elif k < 0.8:
            p.append(b2f(rng.getrandbits(64) & 0x7fefffffffffffff | (rng.getrandbits(1) << 63)))
        else:
            p.append(rng.choice([1, -1]) * (rng.getrandbits(20) + 0.5))
    return p


def int_pool(rng):
    p = [0, 1, -1, 2, -2, 3, -3, 7, 10, -10, 100, 1000]
    for k in (52, 53, 54, 55, 56, 63, 64, 100, 200, 1023):
        for d in (-1, 0, 1):
            p += [(1 << k) + d, -(1 << k) + d]
    p += [(1 << 1024) - (1 << 970), (1 << 1024) - (1 << 970) + 1, (1 << 1024) - (1 << 970) - 1, (1 << 1024) - (1 << 969), 1 << 1024,
          -(1 << 1024), (1 << 1024) - 1, 1 << 1100, -(1 << 1100), (1 << 53) + 3, (1 << 54) + 2, (1 << 54) + 6, 9007199254740993, 10 ** 22, 10 ** 23, 10 ** 308, 10 ** 309]
    for _ in range(20):
        p.append(rng.getrandbits(rng.choice([8, 20, 53, 54, 56, 60, 64, 70, 128, 400, 1030])) * rng.choice([1, -1]))
    return p


def rat_pool(rng):
    """rationals as expressions n rdiv d"""
    out = []

    def q(n, d):
        out.append(("bin", "rdiv", ("i", n), ("i", d)))
    for n, d in [(1, 3), (7, 3), (-7, 3), (1, 10), (2, 3), (5, 2), (-5, 2), (1, 2), (3, 2), (-1, 2), (7, 2), (22, 7), (1, 7), (0, 5),
                 ((1 << 54) + 1, 2), ((1 << 55) + 1, 2), ((1 << 53) + 1, 1 << 53), (1 << 1100, 3), (-(1 << 1100), 3), ((1 << 1025) - 1, 2),
                 (1, 1 << 1074), (1, 1 << 1075), (3, 1 << 1075), (-3, 1 << 1076), (1, 1 << 2000), (10 ** 400, 10 ** 399), (1 << 1030, (1 << 1029) + 1),
                 (4, 2), (1, 1 << 1022), ((1 << 53) - 1, 1 << 1075)]:
        q(n, d)
    for _ in range(40):
        d = rng.choice([3, 5, 7, 10, 12, (1 << 60) + 1, rng.getrandbits(40) | 1])
        e = rng.choice([0, 0, 1, 5, 20, 60, 200, 900])
        m = (1 << 53) | rng.getrandbits(53)
        if rng.random() < 0.7:
            m |= 1
        num = m * d + rng.choice([0, 1, 1, d // 2, d - 1])
        q((num << e) * rng.choice([1, -1]), d)
    for _ in range(20):
        q(rng.getrandbits(rng.choice([10, 60, 200])) * rng.choice([1, -1]), rng.getrandbits(rng.choice([5, 30, 64, 300])) | 1)
    return out


SMALL_EXP = [0, 1, 2, 3, -1, -2, 0.5, -0.5, 2.0, 10, 1024, 1023, -1074, -1075, 1.5, 0.0, 100]


def gen_cases(ctx, fpool):
    rng = ctx.rng
    F = [("f", f2b(x)) for x in fpool]
    I = [("i", z) for z in int_pool(rng)]
    Q = rat_pool(rng)
    C = [("c", n) for n in CONSTS]

    def lit():
        k = rng.random()
        if k < 0.55:
            return rng.choice(F)
        if k < 0.8:
            return rng.choice(I)
        if k < 0.97:
            return rng.choice(Q)
        return rng.choice(C)

    def flit():
        return rng.choice(F)
    cases = []
    basic = ["add", "sub", "mul", "div"]
    # (1) basic operations: float x float on the boundary pool, then mixed
    for _ in range(ctx.scale(1100, 40000)):
        cases.append(("bin", rng.choice(basic), flit(), flit()))
    for _ in range(ctx.scale(1000, 30000)):
        a, b = lit(), lit()
        if rng.random() < 0.5:
            a = flit()
        else:
            b = flit()
        cases.append(("bin", rng.choice(basic + ["max", "min"]), a, b) if rng.random() < 0.5 else ("bin", rng.choice(basic + ["max", "min"]), b, a))
    for _ in range(ctx.scale(400, 8000)):
        cases.append(("bin", rng.choice(basic + ["max", "min", "div", "div"]), lit(), lit()))
    # (2) unary functors on everything
    uns = list(UN)
    f2i = ["floor", "ceiling", "truncate", "round", "fip", "ffp", "float", "sqrt", "sign", "abs", "neg"]
    for x in F + I[::2] + Q[::2]:
        for o in rng.sample(f2i, 5):
            cases.append(("un", o, x))
    for _ in range(ctx.scale(500, 15000)):
        cases.append(("un", rng.choice(uns), lit()))
    # (3) powers and atan2
    for _ in range(ctx.scale(400, 10000)):
        o = rng.choice(["pow", "ipow", "pow", "ipow", "atan2"])
        a = lit()
        b = lit() if rng.random() < 0.4 else rng.choice([("f", f2b(float(x))) if isinstance(x, float) else ("i", x) for x in SMALL_EXP])
        cases.append(("bin", o, a, b))
    # (4) near-overflow / underflow / tie targets
    T = []
    mx, sub, mn = ("f", f2b(FMAX)), ("f", 1), ("f", f2b(2.2250738585072014e-308))
    for y in (2.0 ** 970, 2.0 ** 969, 2.0 ** 969 * 1.0000000000000002, 2.0 ** 971, 1.0, FMAX):
        T += [("bin", "add", mx, ("f", f2b(y))), ("bin", "sub", ("un", "neg", mx), ("f", f2b(y))), ("bin", "sub", mx, ("f", f2b(-y)))]
    for y in (2.0, 1.0000000000000002, 1.0, 0.5, 1.5, 0.75, 0.25, 0.2500000000000001, 3.0):
        T += [("bin", "mul", mx, ("f", f2b(y))), ("bin", "mul", sub, ("f", f2b(y))), ("bin", "div", sub, ("f", f2b(y))), ("bin", "div", mx, ("f", f2b(y))),
              ("bin", "mul", mn, ("f", f2b(y))), ("bin", "div", mn, ("f", f2b(y))), ("bin", "div", ("f", f2b(y)), sub), ("bin", "div", ("f", f2b(y)), mx)]
    for a in (1.3407807929942597e154, 1.3407807929942596e154, 1e154, 1.5e-162, 2.0 ** -537, 2.0 ** -538):
        for b in (1.3407807929942597e154, 1.3407807929942596e154, 1e154, 1.0000000000000002e154, 1.5e-162, 2.0 ** -537, 2.0 ** -538):
            T.append(("bin", "mul", ("f", f2b(a)), ("f", f2b(b))))
    for z in (0, ("f", 0), ("f", 1 << 63), ("bin", "rdiv", ("i", 0), ("i", 3))):
        zz = ("i", 0) if z == 0 else z
        for a in (("i", 1), ("f", f2b(1.0)), ("f", 0), ("i", 0), ("i", 1 << 1100), ("bin", "rdiv", ("i", 1), ("i", 3))):
            T += [("bin", "div", a, zz), ("bin", "pow", zz, ("un", "neg", a)), ("bin", "ipow", zz, ("un", "neg", a)), ("bin", "atan2", zz, a), ("bin", "atan2", a, zz)]
        T += [("un", "log", zz), ("un", "sqrt", zz), ("bin", "atan2", zz, zz)]
    for a in (("i", -1), ("f", f2b(-1.0)), ("f", f2b(-5e-324)), ("i", -(1 << 1100)), ("bin", "rdiv", ("i", -1), ("i", 3)), ("f", f2b(-FMAX))):
        T += [("un", "log", a), ("un", "sqrt", a), ("bin", "ipow", a, ("f", f2b(0.5))), ("bin", "pow", a, ("f", f2b(0.5))), ("bin", "ipow", a, ("i", 3)),
              ("bin", "ipow", a, ("bin", "rdiv", ("i", 1), ("i", 3))), ("un", "asin", a), ("un", "acos", a)]
    tiny = [("bin", "rdiv", ("i", 1), ("i", 1 << 2000)), ("bin", "rdiv", ("i", -1), ("i", 1 << 1075)), ("bin", "rdiv", ("i", 1), ("i", 1 << 1076))]
    for a in (("i", 1), ("f", f2b(1.0)), ("i", 1 << 1100), ("bin", "rdiv", ("i", 1), ("i", 3)), ("f", 0)):
        for t in tiny:
            T += [("bin", "div", a, t), ("bin", "div", t, a), ("bin", "atan2", t, a), ("un", "log", t), ("bin", "pow", t, ("un", "neg", a))]
    for a, b in ((("i", (1 << 53) + 1), ("f", f2b(2.0 ** 53))), (("i", 1), ("f", f2b(1.0))), (("bin", "rdiv", ("i", 1), ("i", 2)), ("f", f2b(0.5))),
                 (("i", 3), ("bin", "rdiv", ("i", 6), ("i", 2))), (("i", (1 << 53) + 1), ("bin", "rdiv", ("i", (1 << 54) + 1), ("i", 2))),
                 (("i", 3), ("f", f2b(2.5))), (("i", -(1 << 1100)), ("f", f2b(1.0))), (("f", 0), ("f", 1 << 63)), (("i", 0), ("f", 1 << 63))):
        for o in ("max", "min"):
            T += [("bin", o, a, b), ("bin", o, b, a)]
    for z in (((1 << 54) + 3) << 100, -(((1 << 54) + 3) << 900), ((1 << 60) + 1536 + 1024) << 70):
        T += [("un", "float", ("i", z)), ("bin", "add", ("i", z), ("f", f2b(1.0))), ("bin", "div", ("i", z), ("i", 3))]
    T += [("un", "float", ("bin", "rdiv", ("i", 7), ("i", 3))), ("bin", "mul", ("bin", "rdiv", ("i", 7), ("i", 3)), ("f", f2b(1.0)))]
    cases += T
    # (5) nested, depth <= 3
    bins = ["add", "sub", "mul", "div", "add", "sub", "mul", "div", "pow", "ipow", "max", "min", "atan2"]

    def rnd(depth):
        if depth == 0 or rng.random() < 0.2:
            return lit()
        if rng.random() < 0.4:
            return ("un", rng.choice(uns), rnd(depth - 1))
        return ("bin", rng.choice(bins), rnd(depth - 1), rnd(depth - 1))
    for _ in range(ctx.scale(1700, 60000)):
        cases.append(rnd(rng.choice([2, 3, 3])))
    return cases


# ------------------------------------------------------------------ implementation side
def classify(ans):
    """vrun answers for 'X is E' -> (coq obs, text, ("f",bits)|("i",z)|("q",Fraction)|("err",kind)|("other",text))"""
    if len(ans) >= 1 and isinstance(ans[0], dict):
        a = ans[0]
        if "b" in a and "X" in a["b"]:
            t = a["b"]["X"]
            if "i" in t:
                return "(OInt %s)" % zc(int(t["i"])), t["i"][:80], ("i", int(t["i"]))
            if "f" in t:
                b = int(t["f"], 16)
                return "(OFlt %d)" % b, "float#" + t["f"], ("f", 0 if b == 1 << 63 else b)
            if "r" in t:
                n, d = int(t["r"][0]), int(t["r"][1])
                return "(ORat %s %s)" % (zc(n), zc(d)), ("%d rdiv %d" % (n, d))[:80], ("q", Fraction(n, d))
            return "OOther", core.term_text(t)[:200], ("other", core.term_text(t)[:200])
        f = core.error_formal(a)
        if f is not None and "c" in f:
            c = f["c"]
            if c[0] == "evaluation_error" and "a" in c[1]:
                k = c[1]["a"]
                o = {"zero_divisor": "OZeroDiv", "undefined": "OUndefined", "float_overflow": "OOverflow"}.get(k)
                if o:
                    return o, "evaluation_error(%s)" % k, ("err", k)
            if c[0] == "type_error" and c[1].get("a") == "float" and "i" in c[2]:
                return "(OTypeFloat %s)" % zc(int(c[2]["i"])), "type_error(float,%s)" % c[2]["i"][:60], ("err", ("type_float", int(c[2]["i"])))
        if f is not None:
            return "OOther", core.term_text(f)[:200], ("other", core.term_text(f)[:200])
    return "OOther", json.dumps(ans)[:300], ("other", json.dumps(ans)[:300])


def run_impl(ctx, exprs, tag):
    """Each expression through the meta-call path (X is E as a query) and the compiled path (clause body)."""
    jobs = []
    B = 40
    for i in range(0, len(exprs), B):
        chunk = exprs[i:i + B]
        prog = "".join("c02_%s_%d(X) :- X is %s.\n" % (tag, i + j, to_prolog(e)) for j, e in enumerate(chunk))
        qs = []
        for j, e in enumerate(chunk):
            qs.append("X is %s." % to_prolog(e))
            qs.append("c02_%s_%d(X)." % (tag, i + j))
        jobs.append({"id": str(i), "consult": prog, "queries": qs, "timeout_ms": 20000, "fresh": i % (B * 25) == 0})
    res = core.vrun_query(ctx.prop, jobs, tag=tag)
    out = []
    for i in range(0, len(exprs), B):
        r = res.get(str(i))
        n = len(exprs[i:i + B])
        if r is None or "results" not in r:
            bad = ("OOther", "no result: %s" % json.dumps(r)[:200], ("other", "no result"))
            out += [(bad, bad)] * n
            continue
        rs = r["results"]
        miss = ("OOther", "missing", ("other", "missing"))
        for j in range(n):
            out.append((classify(rs[2 * j]) if 2 * j < len(rs) else miss, classify(rs[2 * j + 1]) if 2 * j + 1 < len(rs) else miss))
    return out


def check_literals(ctx, fpool):
    """the parser is not this property's subject: keep only the doubles whose literal text reads back with the same bits"""
    xs = sorted(set(fpool), key=lambda x: (f2b(x)))
    qs = ["X = %s." % (lambda s: "(%s)" % s if s.startswith("-") else s)(terms.flt_text(f2b(x))) for x in xs]
    r = core.vrun_query(ctx.prop, [{"id": "lit", "consult": "", "queries": qs, "timeout_ms": 20000, "fresh": True}], nproc=1, tag="lits")
    rs = (r.get("lit") or {}).get("results") or []
    good, dropped = [], []
    for x, a in zip(xs, rs):
        ok = False
        if a and isinstance(a[0], dict) and "b" in a[0] and "f" in a[0]["b"].get("X", {}):
            b = int(a[0]["b"]["X"]["f"], 16)
            ok = b == f2b(x) or (x == 0 and b in (0, 1 << 63))
        (good if ok else dropped).append(x)
    return good, dropped


def tbl_coq(calls):
    seen, out = set(), []
    for c in calls:
        if c[:3] not in seen:
            seen.add(c[:3])
            out.append("(%d, %d, %d, %d)" % c)
    return "[%s]" % "; ".join(out)


def outcome_text(o):
    if o[0] == "f":
        return "float#%016x" % o[1]
    if o[0] == "q":
        return ("%d rdiv %d" % (o[1].numerator, o[1].denominator))[:80]
    if o[0] == "err":
        return "error(%s)" % (o[1],)
    return str(o[1])[:80]


def obs_of_outcome(o):
    if o[0] == "i":
        return "(OInt %s)" % zc(o[1])
    if o[0] == "q":
        return "(ORat %s %s)" % (zc(o[1].numerator), zc(o[1].denominator))
    if o[0] == "f":
        return "(OFlt %d)" % o[1]
    k = o[1]
    if isinstance(k, tuple):
        return "(OTypeFloat %s)" % zc(k[1])
    return {"zero_divisor": "OZeroDiv", "undefined": "OUndefined", "float_overflow": "OOverflow"}[k]


KNOWN_KEYS = {"q": "float:rat-to-float-double-rounding", "i": "float:bigint-to-float-misrounding",
              "qi": "float:rat-and-bigint-to-float-misrounding"}
KNOWN_WHAT = {"q": "a rational is converted to a double that is not the nearest one (two roundings in RBig::to_f64)",
              "i": "an integer of more than 64 bits is converted to a double that is not the nearest one (IBig::to_f64 -> f64::encode ignores one sticky bit: a value above a midpoint is rounded as a tie)",
              "qi": "both a rational and a big integer operand are converted to doubles that are not the nearest ones"}


def attribute(e, out, impl_out):
    """is the implementation's result what the model gives once dashu's conversions are emulated? -> 'q' | 'i' | 'qi' | None"""
    for mode in ("q", "i", "qi"):
        try:
            d = mirror_run(e, dashu=mode)[0]
        except Exception:
            continue
        if d != out and d == impl_out:
            return mode
    return None


def ulp_diff(b1, b2):
    def key(b):
        return -(b & ~(1 << 63)) if b >> 63 else b
    return abs(key(b1) - key(b2))


def failure_key(e):
    ops = sorted(set(s[1] for s in subterms(e) if s[0] in ("un", "bin")))
    return "float:" + ",".join(ops)


def run(ctx):
    fpool, dropped_lits = check_literals(ctx, float_pool(ctx.rng))
    raw = gen_cases(ctx, fpool)
    cases, seen = [], set()
    dist = {"ops": {}, "outcome_kinds": {}, "error_kinds": {}, "flags": {}, "skipped": 0, "float_literals_not_reparsed": len(dropped_lits),
            "libm_calls": 0, "libm_nonfinite": 0}
    nontrivial = set()
    info = []
    for e in raw:
        key = to_prolog(e)
        if key in seen:
            continue
        try:
            out, calls, flags = mirror_run(e)
        except (Skip, OverflowError, ZeroDivisionError, ValueError):
            dist["skipped"] += 1
            continue
        seen.add(key)
        cases.append(e)
        info.append((out, calls, flags))
        for s in subterms(e):
            if s[0] in ("un", "bin"):
                dist["ops"][s[1]] = dist["ops"].get(s[1], 0) + 1
        dist["outcome_kinds"][out[0]] = dist["outcome_kinds"].get(out[0], 0) + 1
        if out[0] == "err":
            k = out[1] if isinstance(out[1], str) else out[1][0]
            dist["error_kinds"][k] = dist["error_kinds"].get(k, 0) + 1
        for f in flags:
            dist["flags"][f] = dist["flags"].get(f, 0) + 1
        dist["libm_calls"] += len(calls)
        dist["libm_nonfinite"] += sum(1 for c in calls if (c[3] >> 52) & 2047 == 2047)
        if flags & {"err", "mixed", "inexact", "f2i", "libm", "subnormal"}:
            nontrivial.add(key)

    impl = run_impl(ctx, cases, "impl")
    bools, meta = [], []
    xcheck = {}
    paths_differ = 0
    for e, (m, c), (out, calls, flags) in zip(cases, impl, info):
        ce, tb = to_coq(e), tbl_coq(calls)
        obs = [("metacall", m)] if m[0] == c[0] else [("metacall", m), ("compiled", c)]
        paths_differ += len(obs) - 1
        for path, o in obs:
            bools.append("check %s %s %s" % (tb, ce, o[0]))
            meta.append((e, path, o, out, calls))
            if o[2] != out:
                # implementation and Python mirror differ: also ask Coq whether the mirror is what the model says (it is used
                # below to attribute a difference to the known mis-rounded conversions of dashu)
                xcheck[len(bools) - 1] = len(bools)
                bools.append("check %s %s %s" % (tb, ce, obs_of_outcome(out)))
                meta.append(None)
    dist["paths_differ"] = paths_differ
    # the sign of a zero must not depend on the session's history: on a fresh machine produce -0.0 first, then evaluate
    # atan2(0.0, -1.0) (IEEE: +pi); the model is asked like for every other case
    zr = core.vrun_query(ctx.prop, [{"id": "z", "consult": "", "queries": ["X is -1.0e-200 * 1.0e-200.", "X is atan2(0.0, -1.0)."],
                                     "timeout_ms": 20000, "fresh": True}], nproc=1, tag="zerosign")
    zres = (zr.get("z") or {}).get("results") or [[], []]
    zo = classify(zres[1] if len(zres) > 1 else [])
    m1 = f2b(-1.0)
    bools.append("check [(10, 0, %d, %d)] (Bin BAtan2 (LitF 0) (LitF %d)) %s" % (m1, rbits(_libm.atan2(0.0, -1.0)), m1, zo[0]))
    meta.append(("zero-sign", zo))
    bad, errs = core.coq_eval_bools(ctx.prop, IMPORTS, bools, chunk=max(300, min(ctx.scale(1500, 1500), -(-len(bools) // core.NPROC))), timeout=ctx.scale(900, 3000))
    tie_breaks = [{"kind": "coq-eval", "what": "model evaluation shard failed", "detail": t} for _, t in errs]
    badset = set(bad)
    mirror_bad = [i for i in bad if meta[i] is None]
    bad = [i for i in bad if meta[i] is not None]

    failures = []
    reported = {}
    unexplained = []
    # a difference is attributed to a known defect only when Coq confirms that the Python mirror is the model's answer
    mirror_ok = set(i for i in bad if i in xcheck and xcheck[i] not in badset)
    dist["mirror_differs_from_model"] = len(mirror_bad)
    for j in mirror_bad[:3]:
        e, path, o, out, calls = meta[j - 1]
        tie_breaks.append({"kind": "mirror", "what": "the generator's Python mirror and the Coq model disagree",
                           "detail": "X is %s. mirror=%s" % (to_prolog(e)[:300], outcome_text(out))})
    dist["misrounded_conversion_cases"] = {}
    dist["libm_within_4ulp"] = 0
    for i in bad:
        if meta[i][0] == "zero-sign":
            failures.append({"key": "float:zero-sign-interning",
                             "what": ("the float table interns -0.0 and 0.0 as one cell, so every zero of a session carries the sign of the first zero "
                                      "that was stored; after a computation that yields -0.0 the literal 0.0 reads as -0.0 and atan2(0.0, -1.0) is -pi"),
                             "input": "(fresh machine) X is -1.0e-200 * 1.0e-200.  then  X is atan2(0.0, -1.0).", "path": "metacall",
                             "impl": meta[i][1][1], "spec": "float#%016x" % rbits(_libm.atan2(0.0, -1.0)), "property_fails": True})
            continue
        e, path, o, out, calls = meta[i]
        # explained by dashu's conversions (RBig::to_f64 / IBig::to_f64) not being correctly rounded ?
        mode = attribute(e, out, o[2]) if i in mirror_ok else None
        if mode:
            dist["misrounded_conversion_cases"][mode] = dist["misrounded_conversion_cases"].get(mode, 0) + 1
            key = KNOWN_KEYS[mode]
            if reported.get(key, 0) < 3:
                reported[key] = reported.get(key, 0) + 1
                failures.append({"key": key, "what": KNOWN_WHAT[mode], "input": "X is %s." % to_prolog(e), "path": path, "impl": o[1],
                                 "spec": outcome_text(out), "property_fails": True})
            continue
        unexplained.append(i)
    if unexplained:
        # shrink: smallest failing subterm of each failing expression
        subs, sseen = [], set()
        for i in unexplained[:60]:
            for s in subterms(meta[i][0]):
                k = to_prolog(s)
                if k not in sseen and s[0] in ("un", "bin"):
                    sseen.add(k)
                    subs.append(s)
        sinfo = []
        keep = []
        for s in subs:
            try:
                sinfo.append(mirror_run(s))
                keep.append(s)
            except Exception:
                pass
        subs = keep
        simpl = run_impl(ctx, subs, "shrink")
        sb, smeta = [], []
        for s, (m, c), (out, calls, flags) in zip(subs, simpl, sinfo):
            for path, o in (("metacall", m), ("compiled", c)):
                sb.append("check %s %s %s" % (tbl_coq(calls), to_coq(s), o[0]))
                smeta.append((s, path, o, out, calls))
        sbad, serr = core.coq_eval_bools(ctx.prop, IMPORTS, sb, chunk=600, tag="shrinkcases", timeout=900)
        failing = sorted((smeta[i] for i in sbad), key=lambda t: size(t[0]))
        if not failing:
            failing = [meta[i] for i in unexplained[:5]]
        done = set()
        shows = []
        for (s, path, o, out, calls) in failing:
            k = to_prolog(s)
            if k in done:
                continue
            done.add(k)
            # a transcendental value a few ulp from the library's: supporting evidence only
            if out[0] == "f" and o[2][0] == "f" and "libm" in mirror_run(s)[2] and 0 < ulp_diff(out[1], o[2][1]) <= 4:
                dist["libm_within_4ulp"] += 1
                continue
            mode = attribute(s, out, o[2])
            key = KNOWN_KEYS[mode] if mode else failure_key(s)
            if reported.get(key, 0) >= 3:
                continue
            reported[key] = reported.get(key, 0) + 1
            shows.append((key, s, path, o, calls))
        for key, s, path, o, calls in shows[:6]:
            spec = core.coq_eval_show(ctx.prop, IMPORTS, "show %s %s" % (tbl_coq(calls), to_coq(s)))
            mm = __import__("re").search(r"SFlt (\d+)", spec)
            if mm:
                spec += "  (float#%016x)" % int(mm.group(1))
            failures.append({"key": key, "what": "is/2 result differs from the IEEE-754 / ISO model",
                             "input": "X is %s." % to_prolog(s), "path": path, "impl": o[1], "spec": spec, "property_fails": True})
    samples = []
    for e, (m, c), (out, calls, flags) in list(zip(cases, impl, info))[:: max(1, len(cases) // 10)][:10]:
        samples.append({"query": "X is %s." % to_prolog(e)[:200], "impl": m[1][:80], "model(mirror)": outcome_text(out)[:80], "libm_calls": len(calls)})
    return {
        "evaluations": sum(1 for m in meta if m is not None),
        "distinct_nontrivial": len(nontrivial),
        "rule": ("expressions (depth <= 3) over + - * / ** ^ max min atan2 rdiv and - + abs sign float sqrt float_integer_part float_fractional_part "
                 "floor ceiling truncate round exp log sin cos tan asin acos atan and pi/e/epsilon; operands: the double boundary pool (+-0.0, "
                 "min/max subnormal, min normal, 1+-ulp, 2^52, 2^53+-, 2^55+- (small-integer boundary), x.5 values of both signs, 1e308, max double, "
                 "sqrt-of-overflow neighbours, exp/log thresholds, 0.1, 1/3, random doubles of every exponent), integers (around 2^53, 2^55, 2^63, "
                 "the largest double +-1, 2^1024, 2^1100, random up to 1030 bits) and rationals (thirds, n/2^1074.., 54-bit quotients at rounding "
                 "midpoints, huge/tiny); targeted overflow/underflow/tie and undefined-operation cases; each expression through `X is E` as a query and "
                 "as a compiled clause body; result bits / error formal compared in Coq with `check` (model evaluated by vm_compute, the library "
                 "results of the calls the case makes supplied from glibc libm). non-trivial = distinct expression whose evaluation raises an error, "
                 "or converts an integer/rational to a double, or rounds (inexact + - * / sqrt, or a subnormal result), or applies a float->integer "
                 "function to a double, or calls the library"),
        "samples": samples,
        "distribution": dist,
        "failures": failures,
        "tie_breaks": tie_breaks,
    }
