"""C45 -- read_term/2 reports variables, names and singletons exactly."""
import itertools, json, time
from vlib import core

META = {
    "level": "proof",
    "text": ("Coq theorems over a reference model of the three read options on the left-to-right sequence of variable tokens of a clause: variables/1 "
             "is duplicate-free, complete and in first-occurrence order with every _ a variable of its own (variables_first_occurrence_nodup), "
             "variable_names/1 is exactly the named part of variables/1 in the same order (variable_names_named_only_in_order), singletons/1 is exactly "
             "the named variables (including _-prefixed ones) occurring once (singletons_spec), and the three lists are mutually consistent "
             "(options_consistent). The model is tied to the code by reading generated clause texts with read_term_from_chars/3 and comparing, inside Coq, "
             "the variable sharing of the term and the three option lists (variables numbered by their position in term_variables/2)."),
    "note": ("Trusted: Coq kernel + vm_compute; the Python generator, which produces each clause text together with its variable token sequence (the lexing "
             "of look-alikes -- quoted atoms, strings, 0'X, comments -- is therefore decided by the generator, and a lexer that took one for a variable would "
             "show up as a mismatch); Prolog helper predicates (term_variables/2, ==) used to number the variables; harness vrun. The order of the "
             "singletons list is not compared (the property does not fix it; the implementation lists them breadth-first). No axioms."),
    "technique": "Coq proof (variables_first_occurrence_nodup, variable_names_named_only_in_order, singletons_spec, options_consistent) over a reference model + differential correspondence evaluated in Coq",
    "design_ref": "DESIGN.md section 8, C45",
    "coq_targets": ["C45/Props.vo"],
    "coq_dirs": ["C45"],
    "props": "C45/Props.v",
    "trusted_base": ["Coq 8.16.1 kernel, vm_compute (no native_compute)", "harness/vrun + tools/vlib (correspondence)", "Python clause generator (text + token sequence)",
                     "Prolog-side numbering helpers (term_variables/2, ==/2)"],
    "assumptions": ["depth-first left-to-right order of the variables of the term read equals the left-to-right order of the variable tokens of the text"],
}

IMPORTS = "From Coq Require Import Uint63.\nFrom V Require Import C45.Model."

PROG = """:- use_module(library(charsio)).
:- use_module(library(lists)).
c45_occ_J(T, [T|R], R) :- var(T), !.
c45_occ_J(T, Os, R) :- T =.. [_|As], c45_occl_J(As, Os, R).
c45_occl_J([], R, R).
c45_occl_J([A|As], Os, R) :- c45_occ_J(A, Os, M), c45_occl_J(As, M, R).
c45_idx_J(_, [], _, 999).
c45_idx_J(V, [W|Ws], I, N) :- ( V == W -> N = I ; I1 is I + 1, c45_idx_J(V, Ws, I1, N) ).
c45_idxs_J([], _, []).
c45_idxs_J([V|Vs], TV, [I|Is]) :- c45_idx_J(V, TV, 0, I), c45_idxs_J(Vs, TV, Is).
c45_pairs_J([], _, []).
c45_pairs_J([N=V|Ps], TV, [N-I|Qs]) :- c45_idx_J(V, TV, 0, I), c45_pairs_J(Ps, TV, Qs).
c45_obs_J(T, Vs, VNs, Ss, r(OI, VI, VP, SP)) :-
    term_variables(T, TV), c45_occ_J(T, Os, []), c45_idxs_J(Os, TV, OI), c45_idxs_J(Vs, TV, VI),
    c45_pairs_J(VNs, TV, VP), c45_pairs_J(Ss, TV, SP).
c45_a_J(Cs, R) :- atom_codes(A, Cs), atom_chars(A, Chs),
    catch(( read_term_from_chars(Chs, T, [variables(Vs), variable_names(VNs), singletons(Ss)]), c45_obs_J(T, Vs, VNs, Ss, R) ), error(E, _), R = err(E)).
c45_b_J(Cs, R) :- atom_codes(A, Cs), atom_chars(A, Chs),
    catch(( read_term_from_chars(Chs, T, [singletons(Ss), variables(Vs), variable_names(VNs)]), c45_obs_J(T, Vs, VNs, Ss, R) ), error(E, _), R = err(E)).
"""

NAMES = ["X", "Y", "Z", "A", "Foo", "_A", "_1", "__", "_x", "_X1", "É", "X_", "_a_", "___"[:3]]
ATOMS = ["a", "foo", "[]", "'X'", "'hello World'", "'_'", "'X''Y'", "'_A'", "x_Y", "aX", "{}"]
NUMS = ["0", "42", "0'X", "0'_", "0'a", "1.5", "0x1F", "0'Y"]
STRS = ['"X Y"', '"_"', '""', '"_A, B"', '"it''s X"']
COMMENTS = [" ", " ", "", "", " % X\n", " /* Y _ */ ", "\n", " % _Z is unused\n ", "/* X */"]
BINOPS = ["+", "-", "*", "=", "==", ":", "->", "<", "is", "^", "rem"]


class Gen:
    def __init__(self, rng, pool):
        self.rng = rng
        self.pool = pool
        self.toks = []

    def sp(self):
        return self.rng.choice(COMMENTS)

    def var(self):
        r = self.rng.random()
        n = "_" if r < 0.3 else self.rng.choice(self.pool)
        self.toks.append(n)
        return n

    def leaf(self):
        r = self.rng.random()
        if len(self.toks) < 15 and r < 0.62:
            return self.var()
        if r < 0.78: return self.rng.choice(ATOMS)
        if r < 0.9: return self.rng.choice(NUMS)
        return self.rng.choice(STRS)

    def primary(self, d):
        r = self.rng.random()
        if d <= 0 or r < 0.35:
            return self.leaf()
        if r < 0.6:
            f = self.rng.choice(["f", "g", "foo", "'X'", "'_'", "p_X"])
            n = self.rng.choice([1, 2, 2, 3])
            args = []
            for _ in range(n):
                args.append(self.arg(d - 1))
            return f + "(" + ("," + self.sp()).join(args) + self.sp() + ")"
        if r < 0.8:
            n = self.rng.choice([1, 2, 3])
            items = [self.arg(d - 1) for _ in range(n)]
            s = "[" + self.sp() + ("," + self.sp()).join(items)
            if self.rng.random() < 0.5:
                s += self.sp() + "|" + self.sp() + (self.var() if self.rng.random() < 0.8 and len(self.toks) < 15 else self.primary(d - 1))
            return s + "]"
        if r < 0.9:
            n = self.rng.choice([1, 2])
            items = [self.arg(d - 1) for _ in range(n)]
            return "{" + self.sp() + ("," + self.sp()).join(items) + self.sp() + "}"
        return "(" + self.sp() + self.opterm(d - 1) + self.sp() + ")"

    def arg(self, d):
        # an argument: priority 999
        if self.rng.random() < 0.25 and d > 0:
            return self.primary(d) + " " + self.rng.choice(BINOPS[:6]) + " " + self.sp() + " " + self.primary(d)
        return self.primary(d)

    def opterm(self, d):
        r = self.rng.random()
        if r < 0.5:
            return self.primary(d) + " " + self.rng.choice(BINOPS) + " " + self.sp() + self.primary(d)
        if r < 0.65:
            return self.rng.choice(["- ", "\\+ ", "+ "]) + self.primary(d)
        if r < 0.8:
            return self.primary(d) + " :- " + self.primary(d) + " ," + self.sp() + self.primary(d)
        if r < 0.9:
            return self.primary(d) + " ; " + self.primary(d)
        return self.primary(d)

    def clause(self):
        d = self.rng.choice([1, 2, 2, 3])
        body = self.opterm(d) if self.rng.random() < 0.5 else self.primary(d)
        return self.sp() + body + self.sp() + self.rng.choice([".", " .", ".\n", ". "])


def systematic():
    out = []
    alpha = ["_", "X", "Y", "_A", "__"]
    for k in (1, 2, 3, 4):
        for pat in itertools.product(alpha, repeat=k):
            out.append(("flat%d" % k, "f(" + ",".join(pat) + ").", list(pat)))
    for pat in itertools.product(["_", "X", "_A"], repeat=3):
        a, b, c = pat
        out.append(("list", "[%s,%s|%s]." % (a, b, c), list(pat)))
        out.append(("nest", "f(g(%s),%s,h(i(%s)))." % (a, b, c), list(pat)))
        out.append(("curly", "{%s, %s} - %s." % (a, b, c), list(pat)))
        out.append(("ops", "%s = %s + %s." % (a, b, c), list(pat)))
        out.append(("lookalike", "f('%s', %s, \"%s\", %s, 0'%s, %s /* %s */)." % (a, a, b, b, c[0], c, a), list(pat)))
    for v in alpha:
        out.append(("root", v + ".", [v]))
        out.append(("root", " " + v + " .", [v]))
    out.append(("novars", "f(a, 'X', \"Y\", 0'Z). % W", []))
    out.append(("novars", "foo.", []))
    return out


def pack_name(n):
    cps = [ord(c) for c in n] + [0, 0]
    return cps[0] | (cps[1] << 21) | (cps[2] << 42)


def model_numbering(toks):
    """first-occurrence numbering (classification of failures only; the oracle is the Coq model)"""
    ids, seen, nxt, anon = [], {}, 0, set()
    for t in toks:
        if t == "_":
            ids.append(nxt); anon.add(nxt); nxt += 1
        elif t in seen:
            ids.append(seen[t])
        else:
            seen[t] = nxt; ids.append(nxt); nxt += 1
    return ids, nxt, anon


def parse_obs(ans):
    """-> ('ok', occ, vs, vns, ss) | ('err', text)"""
    if not ans or not isinstance(ans[0], dict) or "b" not in ans[0]:
        return ("err", json.dumps(ans)[:300])
    r = ans[0]["b"].get("R")
    if r is None or "c" not in r or r["c"][0] != "r":
        return ("err", core.term_text(r) if r else "no R")
    def ints(t):
        return [int(x["i"]) for x in t.get("l", [])]
    def pairs(t):
        out = []
        for x in t.get("l", []):
            nm = x["c"][1]
            name = nm.get("a") if "a" in nm else core.term_text(nm)
            out.append((name, int(x["c"][2]["i"])))
        return out
    _, oi, vi, vp, sp = r["c"]
    return ("ok", ints(oi), ints(vi), pairs(vp), pairs(sp))


def packed(fn, toks, o):
    ints = [len(toks)] + [pack_name(t) for t in toks]
    ints += [len(o[1])] + o[1] + [len(o[2])] + o[2]
    for ps in (o[3], o[4]):
        ints.append(len(ps))
        for n, i in ps:
            ints += [pack_name(n[:3]) if 0 < len(n) <= 3 else 0x1FFFFF, i]
    return "%s [%s]%%uint63" % (fn, ";".join(str(x) for x in ints))


def run(ctx):
    rng = ctx.rng
    t0 = time.time()
    cases, seen = [], set()
    for tag, text, toks in systematic():
        if text not in seen:
            seen.add(text); cases.append((tag, text, toks))
    n_rand = ctx.scale(2000, 150000)
    tries = 0
    target = len(cases) + n_rand
    while len(cases) < target and tries < 10 * n_rand:
        tries += 1
        pool = rng.sample(NAMES, rng.choice([1, 2, 2, 3, 4]))
        g = Gen(rng, pool)
        text = g.clause()
        if text in seen or len(g.toks) > 15:
            continue
        seen.add(text)
        cases.append(("random", text, g.toks))

    B = 50
    jobs = []
    for j in range(0, len(cases), B):
        jid = "c%d" % j
        qs = []
        for k, (_, text, _) in enumerate(cases[j:j + B]):
            qs.append("c45_%s_%s([%s], R)." % ("a" if (j + k) % 2 == 0 else "b", jid, ",".join(str(ord(c)) for c in text)))
        jobs.append({"id": jid, "consult": PROG.replace("_J", "_" + jid), "queries": qs, "timeout_ms": 20000})
    res = core.vrun_query(ctx.prop, jobs, tag="read")
    obs = []
    for j in range(0, len(cases), B):
        rec = res.get("c%d" % j) or {}
        rs = rec.get("results")
        for k in range(len(cases[j:j + B])):
            obs.append(parse_obs(rs[k]) if rs is not None and k < len(rs) else ("err", json.dumps(rec)[:300]))
    t_impl = time.time() - t0

    failures, tie_breaks = [], []
    per_key = {}

    def fail(key, what, text, impl, spec):
        per_key[key] = per_key.get(key, 0) + 1
        if per_key[key] <= 3:
            failures.append({"key": key, "what": what, "input": "read_term_from_chars(%s, T, [variables(Vs), variable_names(VNs), singletons(Ss)])" % json.dumps(text),
                             "impl": impl, "spec": spec, "property_fails": True})

    exprs, idx = [], []
    for i, ((tag, text, toks), o) in enumerate(zip(cases, obs)):
        if o[0] != "ok":
            fail("read-error", "a generated clause text was not read (generator or reader error)", text, o[1], "a term")
            continue
        exprs.append(packed("chkp", toks, o)); idx.append(i)
    t1 = time.time()
    bad, errs = core.coq_eval_bools(ctx.prop, IMPORTS, exprs, chunk=600, tag="cases")
    for k, t in errs:
        tie_breaks.append({"kind": "coq-eval", "what": "model evaluation shard failed", "detail": t})
    t_coq = time.time() - t1

    n_order = 0
    for (tag, text, toks), o in zip(cases, obs):
        if o[0] == "ok":
            ids, n, anon = model_numbering(toks)
            if [p[1] for p in o[4]] != sorted(p[1] for p in o[4]):
                n_order += 1
    dist = {"cases_by_tag": {}, "failing_cases": len(bad), "singletons_not_in_first_occurrence_order (not compared)": n_order}
    for tag, _, _ in cases:
        dist["cases_by_tag"][tag] = dist["cases_by_tag"].get(tag, 0) + 1

    if bad:
        # which component; smallest texts first
        def explained(b):
            """only variables/1 differs, and only by omitting anonymous variables (Python mirror; classification only)"""
            tag, text, toks = cases[idx[b]]
            o = obs[idx[b]]
            ids, n, anon = model_numbering(toks)
            first = {}
            for t, i_ in zip(toks, ids):
                if t != "_" and t not in first: first[t] = i_
            vn = [(t, i_) for t, i_ in first.items()]
            ss = sorted((t, i_) for t, i_ in first.items() if toks.count(t) == 1)
            vs = o[2]
            return (o[1] == ids and o[3] == vn and sorted(o[4]) == ss and vs != list(range(n)) and
                    vs == [x for x in range(n) if x in vs] and all(x in anon for x in range(n) if x not in vs))
        unexplained = [b for b in bad if not explained(b)]
        dist["failing_cases_not_explained_by_missing_anonymous_variables"] = len(unexplained)
        pri = {"flat2": 0, "root": 1, "list": 2}
        rest = sorted((b for b in bad if b not in set(unexplained)), key=lambda b: (pri.get(cases[idx[b]][0], 3), len(cases[idx[b]][1])))
        order = (sorted(unexplained, key=lambda b: len(cases[idx[b]][1]))[:60] + rest)[:100]
        d_exprs = []
        for b in order:
            i = idx[b]
            pc = packed("", cases[i][2], obs[i]).strip()
            d_exprs += ["diagp %d%%uint63 %s" % (c, pc) for c in range(4)]
        dbad, _ = core.coq_eval_bools(ctx.prop, IMPORTS, d_exprs, chunk=600, tag="diag")
        dbad = set(dbad)
        comp = ["term-sharing", "variables", "variable_names", "singletons"]
        for n_, b in enumerate(order):
            i = idx[b]
            tag, text, toks = cases[i]
            o = obs[i]
            ids, n, anon = model_numbering(toks)
            for c in range(4):
                if 4 * n_ + c not in dbad: continue
                key = comp[c] + ":mismatch"
                what = "%s differs from the model" % comp[c]
                if c == 1:
                    vs = o[2]
                    missing = [x for x in range(n) if x not in vs]
                    if vs == [x for x in range(n) if x in vs] and missing and all(x in anon for x in missing) and all(x < n for x in vs):
                        key = "variables:anonymous-variable-missing"
                        what = "variables/1 omits anonymous variables of the term"
                fail(key, what, text, {"occurrences": o[1], "variables": o[2], "variable_names": o[3], "singletons": o[4]},
                     {"tokens": toks, "occurrences": ids, "variables": list(range(n)),
                      "variable_names": "named variables in first-occurrence order", "singletons": "named variables occurring once"})
    dist["failures_by_key"] = per_key

    def nontrivial(toks):
        return len(toks) >= 2
    nt = len(set(text for (tag, text, toks) in cases if nontrivial(toks)))
    samples = []
    for i in list(range(0, len(cases), max(1, len(cases) // 8)))[:8]:
        tag, text, toks = cases[i]
        o = obs[i]
        samples.append({"text": text, "tokens": toks, "impl": {"occurrences": o[1], "variables": o[2], "variable_names": o[3], "singletons": o[4]} if o[0] == "ok" else o[1]})
    patterns = set()
    for tag, text, toks in cases:
        ids, n, anon = model_numbering(toks)
        patterns.add((tuple(ids), tuple(sorted(anon)), tuple(t.startswith("_") for t in toks)))
    dist["distinct_repetition_patterns"] = len(patterns)
    return {
        "evaluations": 4 * len(exprs),
        "distinct_nontrivial": nt,
        "rule": ("every pattern of up to 4 variable tokens over {_, X, Y, _A, __} in f(...), all 27 patterns of 3 tokens over {_, X, _A} in list tails, nested "
                 "compounds, curly terms, operator operands and next to look-alikes ('X', \"X\", 0'X, comments); random clause texts of depth <= 3 with up to 15 "
                 "variable tokens (30% anonymous, names drawn from 1-4 of 14 names incl. _-prefixed and non-ASCII), compounds, lists with tails, curly terms, "
                 "prefix/infix operators, quoted atoms, strings, 0'c, % and /* */ comments; each read with read_term_from_chars/3 (two option orders) and the "
                 "variable sharing of the term + the three option lists compared with the model in Coq (4 components per case). Non-trivial = distinct text with "
                 "at least two variable tokens"),
        "samples": samples,
        "distribution": dist,
        "failures": failures,
        "tie_breaks": tie_breaks,
        "notes": ["impl %.1fs, coq %.1fs" % (t_impl, t_coq)],
    }
