"""C49 -- Integer relation builtins (between/3, succ/2, length/2, numlist/3) enumerate exactly their relations."""
import json, re
from vlib import core, terms

META = {
    "level": "proof",
    "text": ("Coq theorems over mode-indexed enumerators that follow between.pl, iso_ext.pl (succ/2), lists.pl (length/2 with "
             "'$skip_max_list') and error.pl arm by arm: between/3 with unbound X lists exactly L..H ascending without duplicates "
             "(between_enum_exact), numlist/3 is that list (numlist_spec), succ/2 is Y = X+1 on the naturals in both modes "
             "(succ_spec), length/2 gives the length of a proper list and n, n+1, ... with fresh tails for a partial list "
             "(length_spec), and the error table per mode (errors_per_mode). The enumerators are tied to the code by running "
             "every combination of the argument set through the implementation and comparing answer sequences, termination "
             "and error formals with the model inside Coq."),
    "note": ("Trusted: Coq kernel + vm_compute; the enumerators are hand-written mirrors of the Prolog library code; harness vrun; "
             "the Python generator. between/3 of this implementation documents integer bounds only: inf/infinite are mirrored as "
             "type_error(integer, inf) (no between_inf enumerator). numlist/3 with an unbound bound is modelled by scanning a finite "
             "window (64 rounds of enumerate_ints, 512 steps of diag_nats) of the candidate order of gen_ints/2; soundness of those modes is "
             "proved, completeness only for the candidate order of one unbound bound (gen_int_complete); the diagonal order of two unbound "
             "bounds is compared but not proved complete. resource_error(memory) for lists above 2^40 cells is a modelling constant. "
             "Non-termination of the queries with an unbound numlist bound is detected with scryer's own call_with_inference_limit/3 (100000 inferences; "
             "trusted to be transparent for solutions); a query that raises an error is run again without it because the ball does not survive the wrapper. "
             "Queries expected to raise resource_error(memory) run on a fresh Machine because a re-used lib_machine Machine garbles that ball "
             "(reported separately, not this property)."),
    "technique": ("Coq proof (between_enum_exact, numlist_spec, succ_spec, length_spec, errors_per_mode) over an impl-mirror model + "
                  "near-exhaustive differential correspondence evaluated in Coq"),
    "design_ref": "DESIGN.md section 8, C49",
    "coq_targets": ["C49/Props.vo"],
    "coq_dirs": ["C49"],
    "props": "C49/Props.v",
    "trusted_base": ["Coq 8.16.1 kernel, vm_compute", "harness/vrun + tools/vlib (correspondence)",
                     "hand-written mirror of between.pl / lists.pl / iso_ext.pl / error.pl (tied by the correspondence only)"],
    "assumptions": ["arguments of the correspondence: integers -3..5, +-2^55-ish, +-2^64, atoms, floats, compounds, unbound; lists of at most 3 elements",
                    "numlist/3 ranges above 1000 elements and bignum bounds with an unbound other bound are not run (memory / run time)"],
}

IMPORTS = "From V Require Import Base.Term C49.Model."
LIBS = ":- use_module(library(between)).\n:- use_module(library(lists)).\n:- use_module(library(iso_ext)).\n"
K = 20

V = ("var", None)          # placeholder: becomes a distinct variable per argument position
SMALL = list(range(-3, 6))
BIG = [(1 << 55) - 1, 1 << 55, (1 << 55) + 1, 1 << 64, -(1 << 64)]
NONINT = [("atom", "inf"), ("atom", "infinite"), V, ("atom", "a"), terms.flt(1.0), ("cmp", "f", [("atom", "x")])]
ARGS = [("int", n) for n in SMALL + BIG] + NONINT


def name_vars(args, names):
    """replace the V placeholders by named variables"""
    return [("var", nm) if a is V else a for a, nm in zip(args, names)]


class Case:
    __slots__ = ("pred", "args", "interest", "varnum", "slow", "fresh", "nontrivial", "query", "coq")

    def __init__(self, pred, args, interest, varnum, slow=False, fresh=False, nontrivial=False, guard=""):
        self.pred, self.args, self.interest, self.varnum = pred, args, interest, varnum
        self.slow, self.fresh, self.nontrivial = slow, fresh, nontrivial
        self.query = "%s(%s)%s." % (pred, ",".join(terms.arg_text(a) for a in args), guard)
        self.coq = " ".join(terms.to_coq(a, varnum) for a in args)


def is_int(t): return t[0] == "int"
def is_var(t): return t[0] == "var"


# when a bound is ill-typed or unbound the outcome is decided before the last argument is looked at:
# those rows of the table are run with three representative last arguments only
FEW = [V, ("int", 1), ("atom", "a")]


def gen_between(ctx):
    out = []
    for L in ARGS:
        for H in ARGS:
            if is_int(L) and is_int(H):
                small = abs(L[1]) < 10 and abs(H[1]) < 10
                xs = ARGS if small or ctx.thorough else [("int", n) for n in [-3, 0, 5] + BIG] + NONINT
            else:
                xs = FEW
            for X in xs:
                a = name_vars([L, H, X], ["L", "H", "X"])
                out.append(Case("between", a, [v[1] for v in a if is_var(v)], {"L": 0, "H": 1, "X": 2},
                                nontrivial=is_int(a[0]) and is_int(a[1]) and (is_int(a[2]) or is_var(a[2]))))
    return out


def gen_succ():
    out = []
    for I in ARGS:
        for S in ARGS:
            a = name_vars([I, S], ["I", "S"])
            out.append(Case("succ", a, [v[1] for v in a if is_var(v)], {"I": 0, "S": 1},
                            nontrivial=all(is_int(x) or is_var(x) for x in a)))
    # the same variable twice
    out.append(Case("succ", [("var", "I"), ("var", "I")], ["I"], {"I": 0}, nontrivial=True))
    return out


A, B = ("atom", "a"), ("atom", "b")
LIST_SHAPES = [
    # (term, tail variable name or None)
    (terms.mklist([]), None), (terms.mklist([A]), None), (terms.mklist([A, B]), None), (terms.mklist([A, B, A]), None),
    (("var", "T"), "T"), (terms.mklist([A], ("var", "T")), "T"), (terms.mklist([A, B], ("var", "T")), "T"),
    (terms.mklist([("var", "X"), ("var", "Y")], ("var", "T")), "T"), (terms.mklist([("var", "X"), ("var", "Y")]), None),
    (terms.mklist([A], B), None), (terms.mklist([A, B], ("int", 3)), None),                       # improper lists
    (A, None), (("int", 3), None), (terms.flt(1.0), None), (("cmp", "f", [("atom", "x")]), None),  # not lists
]


def gen_length(ctx):
    out = []
    vn = {"T": 0, "N": 1, "X": 2, "Y": 3}
    for xs, tv in LIST_SHAPES:
        for n in ARGS + ["same"]:
            if n == "same":
                if tv is None: continue
                nt = ("var", tv)            # length(T, T), length([a|T], T)
            else:
                nt = ("var", "N") if n is V else n
            interest = ([nt[1]] if is_var(nt) else []) + ([tv] if tv and not (is_var(nt) and nt[1] == tv) else [])
            fresh = tv is not None and is_int(nt) and abs(nt[1]) > (1 << 50)
            if fresh and not ctx.thorough and nt[1] in ((1 << 55), (1 << 55) + 1):
                continue    # each of these spends up to seconds in the allocator before resource_error(memory); 2^55-1 and 2^64 stay
            out.append(Case("length", [xs, nt], interest, vn, fresh=fresh, nontrivial=is_int(nt) or is_var(nt)))
    return out


def gen_numlist(ctx):
    out = []
    i = lambda n: ("int", n)
    pats = [("var", "P"), terms.mklist([]), terms.mklist([i(1), i(2), i(3)]), terms.mklist([i(1), i(2)]), terms.mklist([i(0)]),
            terms.mklist([("var", "P"), ("var", "Q"), ("var", "R")]), terms.mklist([("var", "P")], ("var", "Q")),
            terms.mklist([i(1), ("var", "P")], ("var", "Q")), terms.mklist([A], ("var", "Q")),
            ("atom", "a"), terms.mklist([i(1)], ("atom", "foo")), terms.mklist([i(-2), i(-1)])]
    vn = {"L": 0, "U": 1, "P": 2, "Q": 3, "R": 4}
    for L in ARGS:
        for U in ARGS:
            okb = (is_int(L) or L is V) and (is_int(U) or U is V)
            for p in (pats if okb else [pats[0], pats[3], pats[9]]):
                a = name_vars([L, U], ["L", "U"]) + [p]
                unbound = is_var(a[0]) or is_var(a[1])
                ints = [x[1] for x in a[:2] if is_int(x)]
                if unbound and any(abs(n) > 1000 for n in ints):
                    # gen_ints/2 would count up to the bignum (or build a bignum-sized list): not run
                    if all(is_int(x) or is_var(x) for x in a[:2]): continue
                if len(ints) == 2 and ints[1] - ints[0] > 1000: continue
                both_ok = all(is_int(x) or is_var(x) for x in a[:2])
                # an unbound bound makes gen_ints/2 an endless generator: those queries run under call_with_inference_limit/3
                slow = unbound and both_ok
                out.append(Case("numlist", a, [v for v in terms.term_vars(("cmp", "t", a))], vn, slow=slow, nontrivial=both_ok))
    return out


# ------------------------------------------------------------------ observations
def formal_coq(f):
    if f == ("atom", "instantiation_error"): return "FInst"
    if f[0] == "cmp" and f[1] == "type_error" and len(f[2]) == 2 and f[2][0] in (("atom", "integer"), ("atom", "list")):
        c = terms.number_vars([f[2][1]])[0]
        return "(FType %s_nm %s)" % (f[2][0][1], terms.to_coq(c))
    if f[0] == "cmp" and f[1] == "domain_error" and f[2][0] == ("atom", "not_less_than_zero"):
        return "(FDomNLZ %s)" % terms.to_coq(terms.number_vars([f[2][1]])[0])
    if f == ("cmp", "resource_error", [("atom", "memory")]): return "(FRes RMemory)"
    if f == ("cmp", "resource_error", [("atom", "finite_memory")]): return "(FRes RFiniteMemory)"
    return None


def observe(case, result):
    """vrun answers of one query -> (coq obs text, short text, ending kind, number of answers)"""
    if result is None:
        return "(mkobs [] EOther)", "no result", "other", 0
    ans = terms.answers(result)
    if ans and ans[-1] == ("false",):
        ans = ans[:-1]
    rows, end, txt = [], "EEnd", []
    kind = "end"
    for j, a in enumerate(ans):
        if a[0] == "true":
            rows.append([]); txt.append("true")
        elif a[0] == "sol" and a[1].get("Lim") == ("atom", "inference_limit_exceeded"):
            end, kind = "ETimeout", "timeout"; txt.append("<no termination: inference limit %d exceeded>" % LIMIT)
            break
        elif a[0] == "sol":
            vals = [a[1].get(v, ("atom", "$unbound")) for v in case.interest]
            vals = terms.number_vars(vals)
            rows.append(vals); txt.append(",".join("%s=%s" % (v, terms.to_prolog(t)) for v, t in zip(case.interest, vals)))
        elif a[0] == "more" and j == len(ans) - 1:
            end, kind = "EMore", "more"; txt.append("...")
        elif a[0] == "error" and j == len(ans) - 1:
            if a[1] == ("atom", "$interrupt_thrown"):
                end, kind = "ETimeout", "timeout"; txt.append("<no termination>")
            else:
                fc = formal_coq(a[1])
                end = "(EErr %s)" % fc if fc else "EOther"
                kind = "error"
                txt.append("error(%s)" % terms.to_prolog(terms.number_vars([a[1]])[0]))
        else:
            end, kind = "EOther", "other"; txt.append(json.dumps(a, default=str)[:120])
            break
    coq = "(mkobs [%s] %s)" % ("; ".join("[%s]" % "; ".join(terms.to_coq(v) for v in r) for r in rows), end)
    return coq, " ; ".join(txt) if txt else "false", kind, len(rows)


LIMIT = 100000


def wrapped(case):
    """the query under call_with_inference_limit/3 (library(iso_ext)): a deterministic non-termination detector"""
    return "call_with_inference_limit(%s, %d, Lim)." % (case.query[:-1], LIMIT)


def clean_wrapped(result):
    """True when the wrapped run consists of solutions / false / more only (an exception raised inside
    call_with_inference_limit/3 does not come out intact: such queries are run again without the wrapper)."""
    if not isinstance(result, list): return False
    for a in result:
        if a in ("false", "more"): continue
        if isinstance(a, dict) and "b" in a and a["b"].get("Lim", {}).get("a") in ("true", "!", "inference_limit_exceeded"): continue
        return False
    return True


def run_batches(ctx, cases, items, tag):
    """items: list of (case index, query text, fresh). -> {case index: result}"""
    jobs, batch = [], []
    def flush():
        nonlocal batch
        if batch:
            jobs.append({"id": "b%d" % len(jobs), "consult": LIBS, "queries": [q for _, q in batch], "max_answers": K, "timeout_ms": 30000,
                         "idx": [i for i, _ in batch]})
            batch = []
    for i, q, fresh in items:
        if fresh:
            jobs.append({"id": "f%d" % len(jobs), "consult": LIBS, "queries": [q], "max_answers": K, "timeout_ms": 30000, "fresh": True, "idx": [i]})
        else:
            batch.append((i, q))
            if len(batch) >= 60: flush()
    flush()
    idx = {j["id"]: j.pop("idx") for j in jobs}
    res = core.vrun_query(ctx.prop, jobs, tag=tag)
    out = {}
    for jid, ids in idx.items():
        r = res.get(jid)
        rs = r.get("results") if r else None
        for k, i in enumerate(ids):
            out[i] = rs[k] if isinstance(rs, list) and k < len(rs) else None
    return out


def run_impl(ctx, cases):
    first = run_batches(ctx, cases, [(i, wrapped(c) if c.slow else c.query, c.fresh) for i, c in enumerate(cases)], "impl")
    again = [i for i, c in enumerate(cases) if c.slow and not clean_wrapped(first.get(i))]
    if again:
        first.update(run_batches(ctx, cases, [(i, cases[i].query, False) for i in again], "impl2"))
    return [first.get(i) for i in range(len(cases))], len(again)


def failure_key(case, kind, nans, answers_agree=False):
    a = case.args
    if case.pred == "length" and is_int(a[1]) and a[1][1] < -(1 << 63):
        return "length:negative-bignum-length"
    if case.pred == "numlist" and kind == "timeout" and answers_agree:
        # every answer of the (finite) relation was produced, in the model's order; only the end never comes
        return "numlist3:no-termination-on-finite-relation"
    def sig(t):
        if is_var(t): return "v"
        if is_int(t): return "n" if t[1] < 0 else ("B" if t[1] > (1 << 50) else "i")
        if t[0] == "cmp" and t[1] == ".": return "l"
        return {"atom": "a", "flt": "f", "cmp": "c"}.get(t[0], "o")
    return "%s:%s:%s" % (case.pred, "".join(sig(t) for t in a), kind)


def run(ctx):
    cases = gen_between(ctx) + gen_succ() + gen_length(ctx) + gen_numlist(ctx)
    impl, n_again = run_impl(ctx, cases)
    bools, info = [], []
    dist = {"pred": {}, "ending": {}, "answers": {}}
    for c, r in zip(cases, impl):
        coq, txt, kind, nans = observe(c, r)
        bools.append("check_%s %s %s" % (c.pred, c.coq, coq))
        info.append((txt, kind, nans))
        dist["pred"][c.pred] = dist["pred"].get(c.pred, 0) + 1
        dist["ending"][kind] = dist["ending"].get(kind, 0) + 1
        b = "0" if nans == 0 else "1" if nans == 1 else "2-19" if nans < K else "20"
        dist["answers"][b] = dist["answers"].get(b, 0) + 1
    # for the queries that did not terminate: do the answers produced before agree with the model's complete answer list?
    tmo = [i for i in range(len(cases)) if info[i][1] == "timeout"]
    extra = [bools[i].replace(" ETimeout)", " EEnd)") for i in tmo]
    bad_all, errs = core.coq_eval_bools(ctx.prop, IMPORTS, bools + extra, chunk=500)
    bad = [i for i in bad_all if i < len(bools)]
    agree = set(tmo) - set(tmo[j - len(bools)] for j in bad_all if j >= len(bools))
    tie_breaks = [{"kind": "coq-eval", "what": "model evaluation shard failed", "detail": t[-1500:]} for _, t in errs]
    failures, perkey = [], {}
    model_fn = {"between": "between_model K", "succ": "succ_model", "length": "length_model K", "numlist": "numlist_model WIN K"}
    for i in bad:
        c = cases[i]; txt, kind, nans = info[i]
        key = failure_key(c, kind, nans, i in agree)
        perkey[key] = perkey.get(key, 0) + 1
        if perkey[key] > 2 or len(failures) >= 14:
            continue
        failures.append({"key": key, "what": "answer sequence / termination / error formal differs from the relation model",
                         "input": wrapped(c) if c.slow and kind == "timeout" else c.query, "impl": txt[:400],
                         "spec": "observe K (%s %s)" % (model_fn[c.pred], c.coq), "property_fails": True})
    if failures:
        # one coqc run prints the model's observation for all reported failures
        shown = core.coq_eval_show(ctx.prop, IMPORTS, "[%s]" % "; ".join(f["spec"] for f in failures))
        parts = re.findall(r"\{\|.*?\|\}", shown)
        for k, f in enumerate(failures):
            f["spec"] = parts[k][:600] if len(parts) == len(failures) else shown[:600]
    for f in failures:
        f["count_with_this_key"] = perkey[f["key"]]
    dist["failing_by_key"] = perkey
    dist["rerun_without_inference_limit"] = n_again
    samples = [{"query": cases[i].query, "impl": info[i][0][:160]} for i in range(0, len(cases), max(1, len(cases) // 10))][:10]
    return {
        "evaluations": len(bools),
        "distinct_nontrivial": sum(1 for c in cases if c.nontrivial),
        "rule": ("every combination of the argument set {-3..5, 2^55-1, 2^55, 2^55+1, 2^64, -2^64, inf, infinite, unbound, a, 1.0, f(x)} for "
                 "between/3 (all 20 third arguments for small integer bounds, 14 when a bound is a bignum, 3 representatives when a bound is ill-typed), succ/2 (20^2 + shared variable), length/2 (15 list shapes: proper, partial, improper, non-lists x 20 "
                 "lengths + length(T,T)), numlist/3 (20^2 bounds x 12 list patterns for integer/unbound bounds, 3 patterns otherwise, minus ranges > 1000 and bignum bounds next to an unbound "
                 "bound); first 20 answers; non-termination = call_with_inference_limit/3 reports inference_limit_exceeded after 100000 inferences (queries "
                 "with an unbound numlist bound) or the 30 s job timeout; non-trivial = distinct call whose integer-typed arguments are all "
                 "integers or unbound (the relation, not only the type-error table, decides the outcome)"),
        "samples": samples,
        "distribution": dist,
        "failures": failures,
        "tie_breaks": tie_breaks,
    }
