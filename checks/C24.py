"""C24 -- Cyclic terms are processed correctly and always terminate."""
import itertools, json
from vlib import core, terms

META = {
    "level": "proof",
    "text": ("Coq theorems over finite term graphs with their infinite-tree reading (depth-n unfolding): the bounded acyclicity test is true "
             "exactly when no cycle is reachable from the root and exactly when the unfolding is complete at some depth (then it stabilises); "
             "the pair-worklist bisimilarity test with a visited set is sound (true implies equal unfoldings at every depth) and never "
             "rejects equal trees. All model functions are total by construction. The model is tied to the implementation by building every "
             "graph of up to 2 nodes, sampled 3-node and random <= 6-node graphs over f/1, g/2, '.'/2, atoms, strings and variables by "
             "unification sequences and recording, inside Prolog, acyclic_term/1, ground/1, term_variables/2, ==/2, compare/3, copy_term/2, =/2, "
             "the depth-4 unfolding of the term before and after acyclic_term/1, and == against an identically built second copy; "
             "every query runs under a timeout and a timeout is a failure keyed cyclic:hang:<builtin>."),
    "note": ("Trusted: Coq kernel + vm_compute; dfs/vars_dfs/ground_dec/unify_nodes (via C10 rt_loop) and check_fields are executable definitions "
             "without theorems; harness vrun; Python generator; Prolog-side helpers (unfolding by =../2). Not proved: fuel sufficiency of bisim_dec "
             "(completeness is partial), the pointer-reversal algorithm of cycle_detection.rs itself (only its observable effect is compared: the "
             "depth-4 unfolding before/after and == with a twin; raw heap cells are not compared). compare/3 on distinct cyclic terms is only "
             "required to terminate, to answer '=' exactly for bisimilar roots and to be antisymmetric. Partial strings with cyclic tails and "
             "attributed variables are out of scope."),
    "technique": "Coq proof (acyclic_dec_correct, bisim_dec_sound, bisim_dec_complete_partial) over a reference model + differential correspondence evaluated in Coq",
    "design_ref": "DESIGN.md section 8, C24",
    "coq_targets": ["C24/Props.vo"],
    "coq_dirs": ["C24", "C10"],
    "props": "C24/Props.v",
    "trusted_base": ["Coq 8.16.1 kernel, vm_compute (no native_compute)", "harness/vrun + tools/vlib (correspondence)",
                     "Prolog-side helper predicates c24_* consulted into the implementation", "C10 rational-tree model rt_loop for =/2 on graphs"],
    "assumptions": ["graphs of at most 6 constructed nodes (plus string chains); terms are built only by unification"],
}

IMPORTS = "From V Require Import Base.Term C10.Model C24.Model."
DEPTH = 4

SUPPORT = r"""
c24_idx(_, [], 9999).
c24_idx(T, [V-I|Vs], J) :- ( T == V -> J = I ; c24_idx(T, Vs, J) ).
c24_idxs([], _, []).
c24_idxs([T|Ts], Vs, [I|Is]) :- c24_idx(T, Vs, I), c24_idxs(Ts, Vs, Is).
c24_unf(0, _, _, cut) :- !.
c24_unf(_, T, Vs, v(I)) :- var(T), !, c24_idx(T, Vs, I).
c24_unf(_, T, _, a(T)) :- atomic(T), !.
c24_unf(D, T, Vs, s(F, Us)) :- D1 is D - 1, T =.. [F|As], c24_unfl(As, D1, Vs, Us).
c24_unfl([], _, _, []).
c24_unfl([A|As], D, Vs, [U|Us]) :- c24_unf(D, A, Vs, U), c24_unfl(As, D, Vs, Us).
c24_number([], _, []).
c24_number([V|Vs], N, [V-N|Ps]) :- N1 is N + 1, c24_number(Vs, N1, Ps).
c24_b(G, B) :- ( call(G) -> B = true ; B = false ).
c24_op(unf0, A, _, _, _, Vs, U) :- c24_unf(4, A, Vs, U).
c24_op(unfb, _, B, _, _, Vs, U) :- c24_unf(4, B, Vs, U).
c24_op(acyclic_term, A, _, _, _, _, R) :- c24_b(acyclic_term(A), R).
c24_op(unf1, A, _, _, _, Vs, U) :- c24_b(acyclic_term(A), _), c24_unf(4, A, Vs, U).
c24_op(same_after, A, _, A2, _, _, R) :- c24_b(acyclic_term(A), _), c24_b(A == A2, R).
c24_op(ground, A, _, _, _, _, R) :- c24_b(ground(A), R).
c24_op(term_variables, A, _, _, _, Vs, Is) :- term_variables(A, TVs), c24_idxs(TVs, Vs, Is).
c24_op(eq, A, B, _, _, _, R) :- c24_b(A == B, R).
c24_op(compare_ab, A, B, _, _, _, O) :- compare(O, A, B).
c24_op(compare_ba, A, B, _, _, _, O) :- compare(O, B, A).
c24_op(copy_unf, A, _, _, _, _, U) :- copy_term(A, C), term_variables(C, CVs), c24_number(CVs, 2000, Ps), c24_unf(4, C, Ps, U).
c24_op(copy_eq, A, _, _, _, _, R) :- copy_term(A, C), c24_b(C == A, R).
c24_op(unify, _, _, A2, B2, _, R-S) :- ( A2 = B2 -> R = true, c24_b(A2 == B2, S) ; R = false, S = false ).
% everything that only inspects first; acyclic_term/1 (which must not change the term) after them, on the first copy;
% =/2 last, on the untouched second copy
c24_all(A, B, A2, B2, Vs, o(U0, UB, Ac, U1, Sm, Gr, TV, Eq, C1, C2, CU, CE, Un)) :-
    c24_op(unf0, A, B, A2, B2, Vs, U0), c24_op(unfb, A, B, A2, B2, Vs, UB),
    c24_op(ground, A, B, A2, B2, Vs, Gr), c24_op(term_variables, A, B, A2, B2, Vs, TV),
    c24_op(eq, A, B, A2, B2, Vs, Eq), c24_op(compare_ab, A, B, A2, B2, Vs, C1), c24_op(compare_ba, A, B, A2, B2, Vs, C2),
    c24_op(copy_unf, A, B, A2, B2, Vs, CU), c24_op(copy_eq, A, B, A2, B2, Vs, CE),
    c24_op(acyclic_term, A, B, A2, B2, Vs, Ac), c24_unf(4, A, Vs, U1), c24_b(A == A2, Sm),
    c24_op(unify, A, B, A2, B2, Vs, Un).
"""
OPS = ["unf0", "unfb", "acyclic_term", "unf1", "same_after", "ground", "term_variables", "eq", "compare_ab", "compare_ba",
       "copy_unf", "copy_eq", "unify"]
# index in check_fields -> builtin name for the failure key
FIELD = {0: "model-graph-ill-formed", 1: "construction", 2: "construction", 3: "acyclic_term", 4: "acyclic_term-changes-term",
         5: "acyclic_term-changes-term", 6: "ground", 7: "term_variables", 8: "eq-compare", 9: "compare-antisymmetry",
         10: "copy_term", 11: "copy_term", 12: "unify"}

# node kinds: ("var",) ("atom", name) ("fun", name, [succ...]) ("str", text)
SIG = [("f", 1), ("g", 2), (".", 2)]
SIG_WIDE = SIG + [("h", 3), ("h", 3), ("k", 4)]      # random graphs only: structures with untouched arguments between the ones on a cycle


def all_graphs(n):
    per = [("var",), ("atom", "a")]
    for f, k in SIG:
        for ss in itertools.product(range(n), repeat=k):
            per.append(("fun", f, list(ss)))
    for nodes in itertools.product(per, repeat=n):
        yield list(nodes)


def random_graph(rng, n, strings):
    nodes = []
    for i in range(n):
        r = rng.random()
        if r < 0.15: nodes.append(("var",))
        elif r < 0.3: nodes.append(("atom", rng.choice(["a", "b", "[]"])))
        elif strings and r < 0.42: nodes.append(("str", rng.choice(["ab", "a", "abc"])))
        else:
            f, k = rng.choice(SIG_WIDE)
            nodes.append(("fun", f, [rng.randrange(n) for _ in range(k)]))
    return nodes


def expand_graph(nodes):
    """model nodes: strings become '.'-chains of fresh nodes appended after the constructed ones"""
    out = [None] * len(nodes)
    extra = []
    def new(node):
        extra.append(node)
        return len(nodes) + len(extra) - 1
    for i, nd in enumerate(nodes):
        if nd[0] == "str":
            s = nd[1]
            tail = new(("atom", "[]"))
            for c in reversed(s[1:]):
                ch = new(("atom", c))
                tail = new(("fun", ".", [ch, tail]))
            ch = new(("atom", s[0]))
            out[i] = ("fun", ".", [ch, tail])
        else:
            out[i] = nd
    return out + extra


def coq_graph(model_nodes):
    parts = []
    for nd in model_nodes:
        if nd[0] == "var": parts.append("NVar")
        elif nd[0] == "atom": parts.append("NFun %s []" % terms.coq_name(nd[1]))
        else: parts.append("NFun %s [%s]" % (terms.coq_name(nd[1]), "; ".join(str(j) for j in nd[2])))
    return "[%s]" % "; ".join(parts)


def ref(nodes, j, pre):
    return "V%d" % j if nodes[j][0] == "var" else "%s%d" % (pre, j)


def construction(nodes, order, pre):
    goals = []
    for i in order:
        nd = nodes[i]
        if nd[0] == "var": continue
        if nd[0] == "atom": rhs = terms.quote_atom(nd[1])
        elif nd[0] == "str": rhs = '"%s"' % nd[1]
        elif nd[1] == ".": rhs = "'.'(%s,%s)" % (ref(nodes, nd[2][0], pre), ref(nodes, nd[2][1], pre))
        else: rhs = "%s(%s)" % (nd[1], ",".join(ref(nodes, j, pre) for j in nd[2]))
        goals.append("%s%d = %s" % (pre, i, rhs))
    return goals


def query_text(case, goal):
    nodes, a, b, order = case["nodes"], case["a"], case["b"], case["order"]
    g1 = construction(nodes, order, "N")
    g2 = construction(nodes, order, "M")
    vs = "[%s]" % ",".join("V%d-%d" % (i, i) for i, nd in enumerate(nodes) if nd[0] == "var")
    body = ", ".join(g1 + g2 + [goal % {"A": ref(nodes, a, "N"), "B": ref(nodes, b, "N"), "A2": ref(nodes, a, "M"), "B2": ref(nodes, b, "M"), "Vs": vs}])
    return "findall(O, (%s), L)." % body


def gen_cases(ctx):
    rng = ctx.rng
    cases, seen = [], set()

    def add(nodes, a, b, kind):
        key = json.dumps([nodes, a, b])
        if key in seen: return
        seen.add(key)
        order = list(range(len(nodes)))
        if rng.random() < 0.5: rng.shuffle(order)
        cases.append({"nodes": nodes, "a": a, "b": b, "order": order, "kind": kind})

    for n in (1, 2):
        for nodes in all_graphs(n):
            add(nodes, 0, n - 1, "exhaustive-%d" % n)
            if n == 2: add(nodes, 1, 0, "exhaustive-2")
    g3 = list(all_graphs(3))
    if ctx.thorough:
        for nodes in g3: add(nodes, 0, 1, "exhaustive-3")
    else:
        for nodes in rng.sample(g3, 1500): add(nodes, rng.randrange(3), rng.randrange(3), "sampled-3")
    for _ in range(ctx.scale(700, 5000)):
        n = rng.choice([3, 4, 4, 5, 5, 6, 6])
        nodes = random_graph(rng, n, rng.random() < 0.5)
        add(nodes, rng.randrange(n), rng.randrange(n), "random")
    # fixed cases: a cycle that re-enters a structure of arity >= 3 through one of its own argument cells, reached first through
    # another path, with untouched arguments between (every position of the cyclic argument, both root orders)
    for ar in (3, 4):
        for pos in range(ar):
            for root_first in (True, False):
                # 0: p(S,K) or p(K,S)   1: S = h/k(.., K at pos, ..)   2: K = f(S)   3: atom
                args = [3] * ar; args[pos] = 2
                nodes = [("fun", "g", [1, 2] if root_first else [2, 1]), ("fun", "h" if ar == 3 else "k", args), ("fun", "f", [1]), ("atom", "a")]
                add(nodes, 0, 1, "fixed"); add(nodes, 0, 2, "fixed")
    # fixed cases with strings below structures (always present)
    add([("fun", "g", [1, 0]), ("str", "ab")], 0, 0, "fixed")
    add([("fun", "f", [1]), ("str", "abc")], 0, 1, "fixed")
    add([("fun", "g", [1, 1]), ("str", "a"), ("var",)], 0, 2, "fixed")
    return cases


def dec(t):
    """c24_unf encoding -> plain term"""
    if t == ("atom", "cut"): return ("atom", "$cut")
    if t[0] == "cmp" and t[1] == "v" and len(t[2]) == 1 and t[2][0][0] == "int": return ("var", t[2][0][1])
    if t[0] == "cmp" and t[1] == "a" and len(t[2]) == 1: return t[2][0]
    if t[0] == "cmp" and t[1] == "s" and len(t[2]) == 2 and t[2][0][0] == "atom":
        items, tail = terms.list_view(t[2][1])
        if tail != terms.NIL: raise ValueError("bad encoding")
        return ("cmp", t[2][0][1], [dec(x) for x in items])
    raise ValueError("bad encoding %r" % (t,))


def tbool(t):
    if t == ("atom", "true"): return "true"
    if t == ("atom", "false"): return "false"
    raise ValueError("not a boolean %r" % (t,))


def tord(t):
    return {"<": "0%N", "=": "1%N", ">": "2%N"}[t[1]]


def parse_all(ans):
    """answers of the c24_all query -> (coq obs expression, text) or (None, reason)"""
    a = terms.answers(ans)
    if not a or a[0][0] != "sol":
        return None, json.dumps(ans)[:300]
    items, tail = terms.list_view(a[0][1]["L"])
    if len(items) != 1 or items[0][0] != "cmp" or items[0][1] != "o" or len(items[0][2]) != 13:
        return None, "unexpected result " + json.dumps(ans)[:300]
    f = items[0][2]
    try:
        tv, tl = terms.list_view(f[6])
        un = f[12]
        fields = [terms.to_coq(dec(f[0])), terms.to_coq(dec(f[1])), tbool(f[2]), terms.to_coq(dec(f[3])), tbool(f[4]), tbool(f[5]),
                  "[%s]" % "; ".join(str(x[1]) for x in tv), tbool(f[7]), tord(f[8]), tord(f[9]), terms.to_coq(dec(f[10])), tbool(f[11]),
                  tbool(un[2][0]), tbool(un[2][1])]
    except Exception as e:
        return None, "unreadable result (%s) %s" % (e, json.dumps(ans)[:300])
    txt = ("acyclic=%s same_after=%s ground=%s tvars=%s eq=%s cmp=%s/%s copy_eq=%s unify=%s/%s unf=%s" %
           (fields[2], fields[4], fields[5], fields[6], fields[7], f[8][1], f[9][1], fields[11], fields[12], fields[13],
            terms.to_prolog(dec(f[0]))))
    return "(mkObs %s)" % " ".join(fields), txt


def run_jobs(ctx, cases, goal, tag, per_job=25, timeout_ms=15000):
    jobs = []
    for j0 in range(0, len(cases), per_job):
        qs = [query_text(c, goal) for c in cases[j0:j0 + per_job]]
        jobs.append({"id": str(j0), "consult": SUPPORT, "queries": qs, "max_answers": 3, "timeout_ms": timeout_ms, "fresh": j0 % (per_job * 40) == 0})
    res = core.vrun_query(ctx.prop, jobs, tag=tag)
    out = []
    for j0 in range(0, len(cases), per_job):
        r = res.get(str(j0))
        n = len(cases[j0:j0 + per_job])
        if r is None or "results" not in r:
            out += [[{"job": r}]] * n
        else:
            out += [r["results"][k] if k < len(r["results"]) else [{"missing": True}] for k in range(n)]
    return out


def has_str(nodes):
    return any(nd[0] == "str" for nd in nodes)


def run(ctx):
    import time
    cases = gen_cases(ctx)
    t0 = time.time()
    goal_all = "c24_all(%(A)s, %(B)s, %(A2)s, %(B2)s, %(Vs)s, O)"
    raw = run_jobs(ctx, cases, goal_all, "impl")
    core.log("C24: %d graphs on the implementation in %.1fs" % (len(cases), time.time() - t0))
    exprs, idx = [], []
    abnormal = []
    texts = {}
    for i, (c, ans) in enumerate(zip(cases, raw)):
        o, txt = parse_all(ans)
        texts[i] = txt
        if o is None:
            abnormal.append(i)
            continue
        c["obs"] = o
        exprs.append("check_graph %s %d %d %s" % (coq_graph(expand_graph(c["nodes"])), c["a"], c["b"], o))
        idx.append(i)
    t0 = time.time()
    bad, errs = core.coq_eval_bools(ctx.prop, IMPORTS, exprs, chunk=max(300, -(-len(exprs) // core.NPROC)))
    core.log("C24: %d Coq evaluations in %.1fs" % (len(exprs), time.time() - t0))
    tie_breaks = [{"kind": "coq-eval", "what": "model evaluation shard failed", "detail": t} for _, t in errs]
    failures, per_key = [], {}

    def report(key, c, impl, spec, what):
        per_key[key] = per_key.get(key, 0) + 1
        if per_key[key] <= 3 and len(failures) < 40:
            failures.append({"key": key, "what": what, "input": query_text(c, goal_all), "impl": impl, "spec": spec, "property_fails": True})

    # (a) graphs whose combined query did not come back normally: run every operation on its own to name the builtin
    if abnormal:
        sub = abnormal[:60]
        for op in OPS:
            goal = "c24_op(" + op + ", %(A)s, %(B)s, %(A2)s, %(B2)s, %(Vs)s, O)"
            r = run_jobs(ctx, [cases[i] for i in sub], goal, "diag_" + op, per_job=1, timeout_ms=4000)
            for i, ans in zip(sub, r):
                a = ans[0] if ans else None
                ok = isinstance(a, dict) and "b" in a
                if ok: continue
                txt = json.dumps(ans)[:300]
                hang = "interrupt" in txt or "hang" in txt or "crash" in txt
                kind = "hang" if hang else "panic" if "panic" in txt else "error"
                name = {"unf0": "construction", "unfb": "construction", "unf1": "acyclic_term", "same_after": "acyclic_term",
                        "eq": "==", "compare_ab": "compare", "compare_ba": "compare", "copy_unf": "copy_term", "copy_eq": "copy_term",
                        "unify": "="}.get(op, op)
                key = "cyclic:%s:%s%s" % (kind, name, "+str" if has_str(cases[i]["nodes"]) else "")
                report(key, cases[i], txt, "terminates with the answer of the infinite-tree reading", "%s does not return normally on a (cyclic) term" % name)
                cases[i]["diagnosed"] = True
        for i in abnormal:
            if not cases[i].get("diagnosed"):
                key = "cyclic:abnormal:combined%s" % ("+str" if has_str(cases[i]["nodes"]) else "")
                report(key, cases[i], texts[i], "all operations terminate normally", "the combined query did not return normally (each operation alone did)")
    # (b) wrong answers: which comparison fails
    if bad:
        sub = [idx[k] for k in bad][:200]
        e2, m2 = [], []
        for i in sub:
            c = cases[i]
            g = coq_graph(expand_graph(c["nodes"]))
            for k in range(13):
                e2.append("check_field %d %s %d %d %s" % (k, g, c["a"], c["b"], c["obs"])); m2.append((i, k))
        bad2, errs2 = core.coq_eval_bools(ctx.prop, IMPORTS, e2, chunk=max(300, -(-len(e2) // core.NPROC)), tag="diag")
        tie_breaks += [{"kind": "coq-eval", "what": "model evaluation shard failed (diagnosis)", "detail": t} for _, t in errs2]
        shown = 0
        for k2 in bad2:
            i, k = m2[k2]
            c = cases[i]
            key = "cyclic:%s%s" % (FIELD[k], "+str" if has_str(c["nodes"]) else "")
            spec = "comparison %d (%s) of check_fields" % (k, FIELD[k])
            if shown < 5 and per_key.get(key, 0) < 2:
                g = coq_graph(expand_graph(c["nodes"]))
                spec += ": " + core.coq_eval_show(ctx.prop, IMPORTS,
                    "(acyclic_dec %s %d, ground_dec %s %d, vars_dfs %s %d, bisim_dec %s %d %d, unify_nodes %s %d %d, unfold 4 %s %d)" %
                    (g, c["a"], g, c["a"], g, c["a"], g, c["a"], c["b"], g, c["a"], c["b"], g, c["a"]))[:1200]
                shown += 1
            report(key, c, texts[i], spec, "%s differs from the infinite-tree reading of the graph" % FIELD[k])
    if per_key:
        ctx.notes.append("failing observations per key: %s" % json.dumps(per_key, sort_keys=True))
    dist = {"kinds": {}, "nodes": {}, "cyclic_root": 0, "with_strings": 0, "with_variables": 0, "abnormal": len(abnormal)}
    nontrivial = 0
    for i, c in enumerate(cases):
        dist["kinds"][c["kind"]] = dist["kinds"].get(c["kind"], 0) + 1
        dist["nodes"][len(c["nodes"])] = dist["nodes"].get(len(c["nodes"]), 0) + 1
        cyc = "acyclic=false" in (texts.get(i) or "")
        if cyc: dist["cyclic_root"] += 1
        if has_str(c["nodes"]): dist["with_strings"] += 1
        if any(nd[0] == "var" for nd in c["nodes"]): dist["with_variables"] += 1
        if cyc or any(nd[0] == "fun" and c["a"] != c["b"] for nd in c["nodes"]):
            nontrivial += 1
    samples = []
    for i in range(0, len(cases), max(1, len(cases) // 8)):
        samples.append({"query": query_text(cases[i], goal_all)[:300], "impl": (texts.get(i) or "")[:200]})
    return {
        "evaluations": len(cases) * 13,
        "distinct_nontrivial": dist["cyclic_root"],
        "rule": ("term graphs: all graphs with 1 and 2 nodes over {variable, atom a, f/1, g/2, '.'/2} with every successor assignment, "
                 "1500 sampled (thorough: all 12167) 3-node graphs, random graphs with 3-6 nodes also containing strings and atoms b, []; built by "
                 "the unification sequence N_i = f(N_j,..) in index or shuffled order, twice (second copy sharing the variables); 13 operations per "
                 "graph recorded inside Prolog and compared with check_fields in Coq. evaluations = graphs x 13 operations; non-trivial = graphs "
                 "whose root A is cyclic (measured by the implementation's acyclic_term/1, which is itself compared with the model)"),
        "samples": samples,
        "distribution": dist,
        "failures": failures,
        "tie_breaks": tie_breaks,
        "notes": ["%d graphs, %d Coq evaluations" % (len(cases), len(exprs))],
    }
