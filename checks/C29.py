"""C29 -- Toplevel answers are faithful and re-executable."""
import json, os, shutil
from vlib import core

META = {
    "level": "other",
    "text": ("The toplevel's own query path (toplevel.pl run_query_goal/4 with toplevel_query_callback/3, '$report_all' = true so that every "
             "answer is printed without a key press) is driven in-process with the current output redirected to a scratch file. For generated "
             "pure queries the printed text is split into answers; the number of answers, the position of `false` and the trailing-false rule "
             "are decided in Coq by the reference function render (theorems trailing_false_rule, answers_in_order, false_only_at_the_end) "
             "applied to the solution stream of the direct run_query iterator (number of solutions, choice points left after the last); "
             "every printed answer is read back by the implementation (read_term_from_chars), executed together with the query, and must "
             "reproduce the corresponding findall/3 solution up to variance including residual goals. Coq additionally proves, for a "
             "reference linearisation of answers, that a written answer reads back (answer_text_reads_back) and that its equations are "
             "solved exactly (most generally) by the substitution they came from (answer_text_denotes_solution)."),
    "note": ("Level `other`: the theorems are about the reference rendering function and a reference answer syntax (arity-prefixed token "
             "stream, not Prolog concrete syntax); toplevel.pl itself is tied only differentially, and the re-execution check uses the "
             "implementation's own reader, unifier and findall/3 (self-consistency, not an independent oracle). Not covered: the terminal / "
             "key handling of the interactive loop (no pty), the printing depth limit, operators and quoting in answers (C15-C17), "
             "queries with errors, clp(Z) residuals."),
    "technique": "Coq proofs about a reference renderer/answer syntax + in-process differential check of toplevel.pl's printing path (shape decided in Coq, answers re-executed by the implementation)",
    "design_ref": "DESIGN.md section 8, C29",
    "coq_targets": ["C29/Props.vo"],
    "coq_dirs": ["C29"],
    "props": "C29/Props.v",
    "trusted_base": ["Coq 8.16.1 kernel, vm_compute", "harness/vrun + tools/vlib", "the implementation's reader, findall/3, copy_term/3, subsumes_term/2 (used by the re-execution check)",
                     "checks/C29.py answer splitter (splits the printed text at the toplevel's `\\n;  ` separators)"],
    "assumptions": ["the direct run_query iterator's final `false` is the ground truth for `the last solution left choice points`",
                    "generated queries terminate, raise no errors and have fewer than 60 solutions"],
}

SCRATCH = "/var/tmp/verif_c29_%d" % os.getpid()

PROGRAM = r"""
:- use_module(library(lists)).
:- use_module(library(dif)).
:- use_module(library(between)).
:- use_module(library(charsio)).
:- use_module(library(iso_ext)).
c29p(a). c29p(b). c29p(c).
c29q(a,1). c29q(b,2). c29q(b,3). c29q(c,1).
c29r(f(X),X). c29r(g(X,Y),[X,Y]).
c29s(X,Y) :- c29p(X), c29q(X,Y).
c29t(X) :- c29p(X), !.
c29_top(Chars, File, Text) :-
   read_term_from_chars(Chars, Goal, [variable_names(VN)]),
   open(File, write, S), set_output(S),
   ( catch(( bb_put('$answer_count',0), bb_put('$report_all',true), bb_put('$report_n_more',0),
             '$toplevel':run_query_goal(Goal, VN, '$toplevel':toplevel_query_callback, []), false ),
           E, ( write('EXCEPTION '), writeq(E) )) ; true ),
   set_output(user_output),
   close(S),
   open(File, read, R), get_n_chars(R, _, Text), close(R).
c29_safe(Chars, V) :-
   read_term_from_chars(Chars, Q, []), set_prolog_flag(occurs_check, error),
   catch(( findall(x, user:Q, L), length(L, N), ( N < 40 -> V = ok ; V = many ) ), _, V = error),
   set_prolog_flag(occurs_check, false).
c29_vars([], []).
c29_vars([_=V|Ns], [V|Vs]) :- c29_vars(Ns, Vs).
c29_link([], _).
c29_link([N=V|Ns], QN) :- ( member(N=W, QN) -> V = W ; true ), c29_link(Ns, QN).
c29_variant(A-GA, B-GB) :-
   length(GA, N), length(GB, N), permutation(GA, P),
   subsumes_term(A-P, B-GB), subsumes_term(B-GB, A-P), !.
c29_replay(QChars, AChars, I, V) :-
   read_term_from_chars(QChars, Q, [variable_names(QN)]),
   c29_vars(QN, QVars),
   findall(Vs-Gs, ( call(user:Q), copy_term(QVars, Vs, Gs) ), Direct),
   ( nth1(I, Direct, Si) -> true ; Si = none ),
   read_term_from_chars(QChars, Q2, [variable_names(QN2)]),
   read_term_from_chars(AChars, A, [variable_names(AN)]),
   c29_link(AN, QN2),
   c29_vars(QN2, QVars2),
   findall(Vs-Gs, ( call(user:Q2), call(user:A), copy_term(QVars2, Vs, Gs) ), Replay),
   (  Si == none -> V = no_direct_solution
   ;  Replay == [] -> V = replay_failed
   ;  member(R, Replay), c29_variant(R, Si) -> V = ok
   ;  V = differs
   ).
"""

CONSTS = ["a", "b", "c", "1", "2", "f(a)", "[]", "[a,b]", "g(b,1)"]


def gen_query(rng):
    vs = ["X", "Y", "Z"]

    def v():
        return rng.choice(vs)

    def c():
        return rng.choice(CONSTS)

    def vc():
        return v() if rng.random() < 0.85 else c()

    def small_list():
        return "[%s]" % ",".join(rng.choice(["a", "b", "c", "1", "f(a)", v()]) for _ in range(rng.randint(0, 3)))

    def goal():
        r = rng.random()
        if r < 0.12: return "c29p(%s)" % vc()
        if r < 0.24: return "c29q(%s,%s)" % (vc(), vc())
        if r < 0.30: return "c29r(%s,%s)" % (rng.choice(["f(%s)" % vc(), "g(%s,%s)" % (vc(), vc()), v()]), vc())
        if r < 0.36: return "c29s(%s,%s)" % (vc(), vc())
        if r < 0.40: return "c29t(%s)" % vc()
        if r < 0.55: return "member(%s,%s)" % (vc(), small_list())
        if r < 0.65: return "append(%s,%s,%s)" % (v(), v(), small_list())
        if r < 0.70: return "append(%s,%s,%s)" % (small_list(), vc(), v())
        if r < 0.77: return "between(1,%d,%s)" % (rng.randint(1, 3), v())
        if r < 0.88: return "%s = %s" % (v(), rng.choice([c(), v(), "f(%s)" % v(), "[%s|%s]" % (vc(), v()), "g(%s,%s)" % (vc(), vc())]))
        if r < 0.97: return "dif(%s,%s)" % (v(), rng.choice([c(), v(), "f(%s)" % v()]))
        return rng.choice(["true", "fail"])

    def conj():
        return ", ".join(goal() for _ in range(rng.randint(1, 3)))

    r = rng.random()
    if r < 0.7:
        return conj()
    if r < 0.9:
        return "( %s ; %s )" % (conj(), conj())
    return "%s, ( %s ; %s )" % (goal(), conj(), conj())


def pl_string(s):
    return '"' + s.replace("\\", "\\\\").replace('"', '\\"') + '"'


def text_of(ans):
    """the Text binding of a c29_top answer as a python string, or None"""
    if not ans or not isinstance(ans[0], dict) or "b" not in ans[0] or "Text" not in ans[0]["b"]:
        return None
    t = ans[0]["b"]["Text"]
    if "s" in t: return t["s"]
    if "l" in t and t["l"] == []: return ""
    if "l" in t and all("a" in x and len(x["a"]) == 1 for x in t["l"]): return "".join(x["a"] for x in t["l"])
    return None


def split_answers(text):
    """'   A1\n;  A2\n;  A3.\n' -> [A1, A2, A3] ; None when the frame is not the toplevel's"""
    if text is None or not text.startswith("   ") or not text.endswith(".\n"):
        return None
    body = text[3:-2]
    return [p.rstrip(" ") for p in body.split("\n;  ")]


IMPORTS = "From V Require Import C29.Model."


def run(ctx):
    rng = ctx.rng
    n = ctx.scale(5000, 40000)
    queries, seen = [], set()
    while len(queries) < n:
        q = gen_query(rng)
        if q not in seen:
            seen.add(q); queries.append(q)
    os.makedirs(SCRATCH, exist_ok=True)
    try:
        return _run(ctx, queries)
    finally:
        shutil.rmtree(SCRATCH, ignore_errors=True)


def _run(ctx, queries):
    B = 25
    # pre-filter: the property quantifies over terms within the printing depth, so queries that build cyclic terms (or raise
    # errors, or have too many solutions) are left out; they are recognised by running the query with occurs_check = error
    pj = []
    for i in range(0, len(queries), 50):
        pj.append({"id": "p%d" % i, "consult": PROGRAM, "queries": ["c29_safe(%s, V)." % pl_string(q + ".") for q in queries[i:i + 50]],
                   "max_answers": 1, "timeout_ms": 20000, "fresh": (i // 50) % 10 == 0})
    pres = core.vrun_query(ctx.prop, pj, tag="prefilter")
    kept, dropped = [], 0
    for i in range(0, len(queries), 50):
        rs = (pres.get("p%d" % i) or {}).get("results") or []
        for j, q in enumerate(queries[i:i + 50]):
            a = rs[j] if j < len(rs) else None
            if a and isinstance(a[0], dict) and a[0].get("b", {}).get("V", {}).get("a") == "ok":
                kept.append(q)
            else:
                dropped += 1
    queries = kept
    jobs = []
    for i in range(0, len(queries), B):
        qs = []
        for j, q in enumerate(queries[i:i + B]):
            qs.append(q + ".")
            qs.append("c29_top(%s, %s, Text)." % (pl_string(q + "."), pl_string("%s/o%d_%d" % (SCRATCH, i, j))))
        jobs.append({"id": "j%d" % i, "consult": PROGRAM, "queries": qs, "max_answers": 60, "timeout_ms": 20000, "fresh": (i // B) % 10 == 0})
    res = core.vrun_query(ctx.prop, jobs, tag="top")
    cases = []
    dist = {"prefilter_dropped_cyclic_error_or_many": dropped, "answers_per_query": {}, "trailing_false": 0, "no_trailing_false": 0, "with_residual_goals": 0, "skipped": {}, "true_answers": 0}

    def skip(why):
        dist["skipped"][why] = dist["skipped"].get(why, 0) + 1

    failures, tie_breaks = [], []
    for i in range(0, len(queries), B):
        r = res.get("j%d" % i) or {}
        rs = r.get("results") or []
        for j, q in enumerate(queries[i:i + B]):
            direct = rs[2 * j] if 2 * j < len(rs) else None
            top = rs[2 * j + 1] if 2 * j + 1 < len(rs) else None
            if direct is None or top is None:
                skip("no-result"); continue
            if any(isinstance(a, dict) and ("err" in a or "exc" in a or "panic" in a) for a in direct) or "more" in direct:
                skip("error-or-too-many"); continue
            nsol = sum(1 for a in direct if a != "false")
            more = bool(direct) and direct[-1] == "false" and nsol > 0
            text = text_of(top)
            pieces = split_answers(text)
            if pieces is not None and any("..." in p for p in pieces):
                skip("beyond-printing-depth"); continue
            if pieces is None:
                failures.append({"key": "frame:unexpected-output", "what": "the toplevel output is not `   A1\\n;  A2 ... .\\n`", "input": q + ".",
                                 "impl": json.dumps(top)[:400], "spec": "%d answers%s" % (nsol, ", false" if more or nsol == 0 else ""), "property_fails": True})
                continue
            cases.append({"q": q, "nsol": nsol, "more": more, "pieces": pieces, "text": text})
    # re-execution of every printed answer
    rjobs, rmeta = [], []
    cur, curmeta = [], []
    for ci, c in enumerate(cases):
        k = 0
        for p in c["pieces"]:
            if p == "false":
                continue
            k += 1
            cur.append("c29_replay(%s, %s, %d, V)." % (pl_string(c["q"] + "."), pl_string(p + " ."), k))
            curmeta.append((ci, k, p))
            if len(cur) >= 40:
                rjobs.append({"id": "r%d" % len(rjobs), "consult": PROGRAM, "queries": cur, "max_answers": 1, "timeout_ms": 20000, "fresh": len(rjobs) % 10 == 0})
                rmeta.append(curmeta); cur, curmeta = [], []
    if cur:
        rjobs.append({"id": "r%d" % len(rjobs), "consult": PROGRAM, "queries": cur, "max_answers": 1, "timeout_ms": 20000, "fresh": True})
        rmeta.append(curmeta)
    rres = core.vrun_query(ctx.prop, rjobs, tag="replay")
    verdicts = {ci: [] for ci in range(len(cases))}
    for jn, metas in enumerate(rmeta):
        rs = (rres.get("r%d" % jn) or {}).get("results") or []
        for m, (ci, k, p) in enumerate(metas):
            a = rs[m] if m < len(rs) else None
            v = None
            if a and isinstance(a[0], dict) and "b" in a[0] and "V" in a[0]["b"]:
                v = a[0]["b"]["V"].get("a")
            verdicts[ci].append((k, p, v if v is not None else json.dumps(a)[:200]))
    exprs = []
    nontrivial = set()
    for ci, c in enumerate(cases):
        codes = [1 if p == "false" else 0 for p in c["pieces"]]
        vs = verdicts[ci]
        exprs.append("check_case %d %s [%s] [%s]" % (c["nsol"], "true" if c["more"] else "false", "; ".join(map(str, codes)),
                                                    "; ".join("true" if v == "ok" else "false" for (_, _, v) in vs)))
        na = c["nsol"]
        dist["answers_per_query"][min(na, 10)] = dist["answers_per_query"].get(min(na, 10), 0) + 1
        dist["trailing_false" if (c["more"] or na == 0) else "no_trailing_false"] += 1
        if any(":" in p or "dif" in p for p in c["pieces"]): dist["with_residual_goals"] += 1
        dist["true_answers"] += sum(1 for p in c["pieces"] if p == "true")
        if na >= 1 and any(p not in ("true", "false") for p in c["pieces"]):
            nontrivial.add(c["q"])
    bad, errs = core.coq_eval_bools(ctx.prop, IMPORTS, exprs, chunk=min(600, max(200, -(-len(exprs) // max(1, core.NPROC)))))
    tie_breaks += [{"kind": "coq-eval", "what": "model evaluation shard failed", "detail": t} for _, t in errs]
    for i in bad[:15]:
        c = cases[i]
        vs = verdicts[i]
        codes = [1 if p == "false" else 0 for p in c["pieces"]]
        exp = [0] * c["nsol"] + ([1] if (c["more"] or c["nsol"] == 0) else [])
        if codes != exp:
            if len([x for x in codes if x == 0]) != c["nsol"]:
                key = "count:answers-differ-from-solutions"
            elif codes[-1:] == [1]:
                key = "trailing-false:printed-without-choice-points"
            else:
                key = "trailing-false:missing-although-choice-points-remained"
        else:
            bv = [v for (_, _, v) in vs if v != "ok"]
            key = "replay:" + (bv[0] if bv and bv[0] in ("replay_failed", "differs", "no_direct_solution") else "unreadable-or-error")
        failures.append({"key": key, "what": "the toplevel's printed answers are not the query's solutions / not re-executable / wrong trailing false",
                         "input": c["q"] + ".", "impl": json.dumps({"printed": c["text"], "replay": vs})[:900],
                         "spec": "%d answers%s, each re-executable to the corresponding solution" % (c["nsol"], ", then false" if (c["more"] or c["nsol"] == 0) else ""),
                         "property_fails": True})
    samples = [{"query": c["q"] + ".", "printed": c["text"], "solutions": c["nsol"], "choice_points_left": c["more"]} for c in cases[:: max(1, len(cases) // 6)][:6]]
    return {
        "evaluations": len(cases) + sum(len(v) for v in verdicts.values()),
        "distinct_nontrivial": len(nontrivial),
        "rule": ("random pure queries (1-3 goals, optionally a disjunction) over a small fact/rule program, member/2, append/3, between/3, =/2 and "
                 "dif/2 with variables X,Y,Z; evaluations = queries whose printed answer list was checked + printed answers re-executed; "
                 "non-trivial = distinct query with at least one printed answer that has equations or residual goals"),
        "samples": samples,
        "distribution": dist,
        "failures": failures,
        "tie_breaks": tie_breaks,
    }
