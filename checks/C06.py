"""C06 -- clause selection (first-argument indexing) returns exactly the clauses whose heads unify."""
import json, os, re
from vlib import core, terms

META = {
    "level": "proof",
    "text": ("Coq theorems index_exact / index_incremental / index_incremental_exact over an impl-mirror of split_predicate, "
             "index_term, compute_indices (switch line only with >= 2 keys), merge_clause_index and remove_index with keys compared by "
             "value: for every predicate (any arity, any mixture of constants, lists, structures, variables), every call and every "
             "sequence of asserta/assertz/retract, the clauses reached through the index and passing head unification are exactly the "
             "unifying clauses of the predicate in textual order (answers_are_naive: the model's answer list IS the naive filter; "
             "unifies_complete: the matching test never rejects a clause that has a common instance with the call). The model is tied to "
             "the code differentially: generated predicates (static, dynamic with interleaved updates, and the '$clause' twin behind "
             "clause/2), called with every pool value written literally, computed at run time and unbound; the observed findall lists "
             "are compared in Coq with the model's answers (checks_decide_agreement). "
             "For consulted (static) predicates the indexing CODE is inside the proof as well (Code.v): build_code mirrors compile_predicate / "
             "compile_pred_subseq / index_term / compute_indices (outer and inner try_me_else/retry_me_else/trust_me chains, switch_on_term with "
             "Fail/External/Internal pointers, switch_on_constant, switch_on_structure, IndexedChoice try/retry/trust lines, real code offsets), "
             "exec_code mirrors the IndexingCode arm of the dispatch loop with (bp, boip, biip) or-frames; theorems code_refines_model "
             "(running the built code enters exactly the clauses the abstract index selects, in order, never stuck, for every clause list, "
             "clause-code length function and call) and code_select_exact (hence exactly the unifying clauses). This mirror is tied to the "
             "implementation by comparing, in Coq (check_listing), the listing library(diag) wam_instructions/2 gives for every generated consulted "
             "predicate with build_code's output item by item, offsets included."),
    "note": ("Trusted: Coq kernel + vm_compute; harness vrun; the Python generator and its localising oracle (the verdict is Coq's). "
             "Modelled, not verified: for DYNAMIC predicates the WAM code threading (DynamicElse chains, RevJmpBy patching) is abstracted to 'the "
             "clauses of a sub-sequence in order' (for consulted predicates it is mirrored in Code.v and proved); in Code.v a clause's own code is "
             "opaque (Enter + padding of the observed length: entering it reports the clause, then the machine backtracks), "
             "next_applicable_clause (the look-ahead that skips a following clause/sub-sequence whose shallow head test or indexing code "
             "fails) is not modelled, the fuel of the switch loop is an artefact (the real loop is unbounded); the listing comparison is skipped "
             "(counted in distribution.listing.skipped_bignum_cell_key) for predicates whose indexed argument holds an integer in a bignum cell "
             "that is small (a second Fixnum key) or occurs twice (two keys by address): by value these are one key, the known findings "
             "index:literal-bignum-key / index:literal-small-value-in-bignum-cell; check_listing is a structural equality test (list_eqb of "
             "derived eqb functions, not proved to decide equality); a retracted clause of a dynamic predicate is removed from the model's tables (the code keeps it and "
             "skips it by the birth/death test: logical update view, property C09); head unification is structural matching with constants by "
             "value, exact for linear, variable-disjoint call/head pairs (the generator produces only such pairs). Keys by value is the "
             "SPECIFICATION side: the code looks a constant up by its raw cell, which is the known defect reported under the keys "
             "index:*bignum*/index:computed-integral-rational-key. No axioms."),
    "technique": "Coq proof (index_exact, index_incremental, answers_are_naive, code_refines_model, code_select_exact) over an impl-mirror model + differential correspondence evaluated in Coq",
    "design_ref": "DESIGN.md section 8, C06",
    "coq_targets": ["C06/Props.vo"],
    "coq_dirs": ["C06"],
    "props": "C06/Props.v",
    "trusted_base": ["Coq 8.16.1 kernel, vm_compute (no native_compute)", "harness/vrun + tools/vlib (correspondence)",
                     "Python generator / localising oracle (checks/C06.py)",
                     "dynamic predicates: WAM choice-instruction threading and the birth/death filter abstracted, not verified",
                     "library(diag) wam_instructions/2 (the listing of the generated code) + its translation to Coq (parse_listing)",
                     "next_applicable_clause look-ahead not modelled"],
    "assumptions": ["calls and clause heads of the correspondence are linear and variable-disjoint (structural matching = unifiability)",
                    "updates of dynamic predicates happen before the observed calls start (open calls during updates: C09, known finding)"],
}

IMPORTS = "From V Require Import Base.Term C06.Model C06.Code."
LIMIT_PER_KEY = 3


def fix_bounds():
    try:
        s = open(os.path.join(core.COQ, "Gen", "Fixnum.v")).read()
        a = int(re.search(r"fix_min_bits : Z := (\d+)", s).group(1))
        b = int(re.search(r"fix_max_bits : Z := (\d+)", s).group(1))
    except Exception:
        a = b = 55
    return -(1 << a), (1 << b) - 1


# ------------------------------------------------------------------ terms: (python term, prolog text)
V = ("var", 0)
NEG0 = 1 << 63


def A(s): return ("atom", s)
def I(n): return ("int", n)
def F(x): return terms.flt(x)
def L(items, tail=terms.NIL): return terms.mklist(items, tail)
def S(name, *args): return ("cmp", name, list(args))


def ptxt(t):
    """Prolog text with every variable anonymous (all generated terms are linear)."""
    k = t[0]
    if k == "var": return "_"
    if k == "cmp":
        if t[1] == "." and len(t[2]) == 2:
            items, tail = terms.list_view(t)
            body = ",".join(parg(x) for x in items)
            return "[%s]" % body if tail == terms.NIL else "[%s|%s]" % (body, parg(tail))
        return "%s(%s)" % (terms.quote_atom(t[1]), ",".join(parg(x) for x in t[2]))
    if k == "flt" and t[1] == NEG0: return "(-0.0)"
    return terms.to_prolog(t)


def parg(t):
    s = ptxt(t)
    if t[0] == "atom" and not re.match(r"^[a-z][A-Za-z0-9_]*$", t[1]) and t[1] not in ("[]", "{}"):
        return "(%s)" % s
    return s


def ctxt(t):
    """Coq term; big integers as 60-bit limbs."""
    k = t[0]
    if k == "var": return "(Var 0)"
    if k == "int":
        n = t[1]
        if abs(n) < (1 << 62): return "(Int (%d))" % n
        m, limbs = abs(n), []
        while m:
            limbs.append(m & ((1 << 60) - 1)); m >>= 60
        return "(big %s [%s])" % ("true" if n < 0 else "false", "; ".join("%d%%Z" % x for x in limbs))
    if k == "rat": return "(Rat (%d) (%d))" % (t[1], t[2])
    if k == "flt": return "(Flt %d)" % t[1]
    if k == "atom": return "(Atom %s)" % terms.coq_name(t[1])
    return "(Cmp %s [%s])" % (terms.coq_name(t[1]), "; ".join(ctxt(x) for x in t[2]))


# ------------------------------------------------------------------ python oracle (localisation only; the verdict is Coq's)
def classify(t):
    k = t[0]
    if k == "var": return ("var",)
    if k == "int": return ("c", "i", t[1])
    if k == "rat": return ("c", "i", t[1]) if t[2] == 1 else ("c", "r", t[1], t[2])
    if k == "flt": return ("c", "f", 0 if t[1] == NEG0 else t[1])
    if k == "atom": return ("c", "a", t[1])
    if t[1] == "." and len(t[2]) == 2: return ("l",)
    return ("s", t[1], len(t[2]))


def unif(a, h):
    if a[0] == "var" or h[0] == "var": return True
    if a[0] == "cmp" and h[0] == "cmp":
        return a[1] == h[1] and len(a[2]) == len(h[2]) and all(unif(x, y) for x, y in zip(a[2], h[2]))
    ca, ch = classify(a), classify(h)
    return ca[0] == "c" and ca == ch


def naive(clauses, call):
    return [i for (i, args) in clauses if all(unif(x, y) for x, y in zip(call, args))]


def apply_ops(init, ops):
    l = list(init)
    for o in ops:
        if o[0] == "a": l.insert(0, o[1])
        elif o[0] == "z": l.append(o[1])
        else: l = [c for c in l if c[0] != o[1]]
    return l


# ------------------------------------------------------------------ pools
def pools(fb):
    lo, hi = fb
    heads = [  # (term, text) -- text only where the literal must be written in a special way
        (A("a"), None), (A("b"), None), (A("foo"), None), (A("[]"), None), (A("hello world"), None), (A("+"), None),
        (I(0), None), (I(1), None), (I(2), None), (I(-1), None),
        (I(hi), None), (I(hi + 1), None), (I(lo), None), (I(lo - 1), None),
        (I(1 << 70), None), (I((1 << 70) + 1), None), (I(-(1 << 70)), None),
        (F(0.0), None), (("flt", NEG0), None), (F(1.0), None), (F(1.5), None), (F(2.0), None),
        (terms.mkstring("ab"), '"ab"'), (terms.mkstring("a"), '"a"'),
        (L([A("a"), A("b")]), None), (L([A("a")]), None), (L([A("a")], V), None), (L([V], V), None), (L([I(1), I(2)]), None), (L([V, V]), None),
        (L([A("b")], V), None),
        (S("f", V), None), (S("f", V, V), None), (S("g", V), None), (S("f", A("a")), None), (S("f", A("b")), None), (S("f", I(1 << 70)), None),
        (V, None),
    ]
    heads = [(t, x if x is not None else ptxt(t)) for t, x in heads]
    # computed call values: (setup goal binding X, value, tag)
    B70 = "1180591620717411303424"
    comp = [
        ("X is 2^70", I(1 << 70), "big"), ("X is 2^69+2^69", I(1 << 70), "big"), ("X is -(2^70)", I(-(1 << 70)), "big"),
        ("X is 2^70+1", I((1 << 70) + 1), "big"), ("number_chars(X, \"%s\")" % B70, I(1 << 70), "big"),
        ("X is %d+1" % hi, I(hi + 1), "big"), ("X is %d-1" % lo, I(lo - 1), "big"),
        ("X is 2^60-2^60+2", I(2), "smallbig"), ("X is 2^70-2^70", I(0), "smallbig"), ("X is 2^70-2^70+1", I(1), "smallbig"),
        ("X is 2^70-2^70-1", I(-1), "smallbig"), ("X is %d+1-1" % hi, I(hi), "smallbig"), ("X is %d-1+1" % lo, I(lo), "smallbig"),
        ("X is 1+1", I(2), "small"), ("atom_length(ab, X)", I(2), "small"), ("number_chars(X, \"2\")", I(2), "small"),
        ("X is 3-3", I(0), "small"), ("X is %d-1+1" % hi, I(hi), "small"), ("X is %d+1-1" % lo, I(lo), "smallbig"),
        ("X is 4 rdiv 2", ("rat", 2, 1), "irat"), ("X is 2^70 rdiv 1", ("rat", 1 << 70, 1), "irat"), ("X is 1 rdiv 3", ("rat", 1, 3), "rat"),
        ("X is 1.0+0.5", F(1.5), "flt"), ("X is 0.0 * -1.0", ("flt", NEG0), "flt"), ("X is 3.0-2.0", F(1.0), "flt"), ("X is 2.0-2.0", F(0.0), "flt"),
        ("X is float(2)", F(2.0), "flt"),
        ("atom_chars(X, \"foo\")", A("foo"), "atom"), ("atom_chars(X, [a])", A("a"), "atom"), ("atom_chars(X, \"hello world\")", A("hello world"), "atom"),
        ("functor(X, b, 0)", A("b"), "atom"), ("atom_chars(X, ['[', ']'])", A("[]"), "atom"), ("X = \"\"", A("[]"), "atom"),
        ("atom_chars(ab, X)", terms.mkstring("ab"), "list"), ("X = \"ab\"", terms.mkstring("ab"), "list"), ("X0 = \"xab\", X0 = [_|X]", terms.mkstring("ab"), "list"),
        ("length(X, 2)", L([V, V]), "list"), ("X = [a|_]", L([A("a")], V), "list"), ("atom_codes(ab, X)", L([I(97), I(98)]), "list"),
        ("number_codes(12, X0), X0 = [_|X]", L([I(50)]), "list"), ("atom_chars(a, X)", terms.mkstring("a"), "list"),
        ("functor(X, f, 1)", S("f", V), "struct"), ("functor(X, f, 2)", S("f", V, V), "struct"), ("X =.. [g, _]", S("g", V), "struct"),
        ("X =.. [f, a]", S("f", A("a")), "struct"), ("copy_term(f(b), X)", S("f", A("b")), "struct"), ("Z is 2^70, X = f(Z)", S("f", I(1 << 70)), "struct"),
        ("functor(X, h, 3)", S("h", V, V, V), "struct"),
    ]
    second = [(V, "_")] * 6 + [(A("a"), "a"), (I(1), "1"), (S("f", V), "f(_)"), (L([V], V), "[_|_]"), (I(1 << 70), B70), (A("b"), "b")]
    return heads, comp, second


def head_text(name, c, style):
    i, args = c
    a1, a2 = ptxt(args[0]), ptxt(args[1])
    if style == "fact":
        return "%s(%s,%s,%d)" % (name, a1, a2, i)
    return "%s(%s,%s,R) :- R = %d" % (name, a1, a2, i)


def clause_line(name, c, style):
    return head_text(name, c, style) + ".\n"


def assert_text(which, name, c, style):
    t = head_text(name, c, style)
    return "%s(%s)." % (which, t if style == "fact" else "(" + t + ")")


def retract_text(name, i, style):
    if style == "fact":
        return "retract(%s(_,_,%d))." % (name, i)
    return "retract((%s(_,_,R) :- R = %d))." % (name, i)


def gen_pred(rng, heads, second, hot):
    """A predicate: clauses (id, [A1, A2, A3]) with styles; hot = a small sub-pool the first arguments are drawn from,
    so that keys repeat and several keys of one type meet in one sub-sequence."""
    n = rng.choice([1, 2, 3, 4, 5, 6, 7, 8, 8])
    cl = []
    for i in range(1, n + 1):
        cl.append(mk_clause(rng, i, hot, second))
    return cl


def mk_clause(rng, i, hot, second):
    a1 = rng.choice(hot)[0]
    a2 = rng.choice(second)[0]
    style = "fact" if rng.random() < 0.6 else "rule"
    a3 = I(i) if style == "fact" else V
    return ((i, [a1, a2, a3]), style)


def big_kind(t, tag, literal, fb):
    """Classify one call argument for the failure key."""
    if t[0] == "int":
        fits = fb[0] <= t[1] <= fb[1]
        if not fits: return "index:literal-bignum-key" if literal else "index:computed-bignum-key"
        if tag == "smallbig": return "index:computed-small-value-in-bignum-cell"
        if literal and t[1] == fb[0]: return "index:literal-small-value-in-bignum-cell"   # written -N with N out of range: read into a bignum cell
    if t[0] == "rat" and t[2] == 1: return "index:computed-integral-rational-key"
    return None


def is_subseq(a, b):
    it = iter(b)
    return all(x in it for x in a)


def symptom(o, exp):
    if o is None: return "no-answer"
    if len(set(o)) < len(o): return "duplicate-answer"
    if len(o) < len(exp) and is_subseq(o, exp): return "clause-lost"
    if sorted(o) == sorted(exp): return "order-changed"
    if len(o) > len(exp) and is_subseq(exp, o): return "extra-clause"
    return "other"


def pstr_explains(call, clauses, extra_ids):
    """every extra clause has a head argument that is a list starting with a one-character atom (compiled as a string /
    partial string) facing a non-list compound"""
    def pstr(t):
        return t[0] == "cmp" and t[1] == "." and len(t[2]) == 2 and t[2][0][0] == "atom" and len(t[2][0][1]) == 1
    def cmpd(t):
        return t[0] == "cmp" and not (t[1] == "." and len(t[2]) == 2)
    byid = {c[0]: c for c in clauses}
    return bool(extra_ids) and all(i in byid for i in extra_ids) and \
        all(any(pstr(h) and cmpd(a) for a, h in zip(call, byid[i][1])) for i in extra_ids)


SUFFIX = {"static": "", "dynamic": "-dynamic", "clause": "-clause", "compiled": "-compiled"}


def call_key(case, variant, o, exp, clauses, fb, interrupted):
    if interrupted: return "index:does-not-terminate" + SUFFIX[variant]
    sym = symptom(o, exp)
    kinds = [big_kind(case["c1"], case["tag"], case["form"] == "literal", fb), big_kind(case["c2"], "lit", True, fb)]
    kinds = [k for k in kinds if k]
    if sym == "clause-lost" and kinds:
        for k in ("index:computed-small-value-in-bignum-cell", "index:computed-bignum-key", "index:computed-integral-rational-key",
                  "index:literal-small-value-in-bignum-cell", "index:literal-bignum-key"):
            if k in kinds: return k + SUFFIX[variant]
    if sym == "extra-clause" and pstr_explains([case["c1"], case["c2"], V], clauses, [i for i in o if i not in exp]):
        return "unify:string-in-head-matches-compound" + SUFFIX[variant]
    return "index:%s%s" % (sym, SUFFIX[variant])



# ------------------------------------------------------------------ the implementation's indexing listing (library(diag))
CHOICE = {"try_me_else": "OTry", "retry_me_else": "ORetry", "default_retry_me_else": "ORetry", "trust_me": "OTrust", "default_trust_me": "OTrust"}
ICHOICE = {"try": "ITry", "retry": "IRetry", "default_retry": "IRetry", "trust": "ITrust", "default_trust": "ITrust"}


def _lptr(t):
    if t.get("a") == "fail": return "PFail"
    if "c" in t and t["c"][0] in ("external", "internal") and len(t["c"]) == 2:
        return "(%s %d)" % ("PExt" if t["c"][0] == "external" else "PInt", int(t["c"][1]["i"]))
    raise ValueError("pointer %r" % (t,))


def _lckey(t):
    if "a" in t: return "(KAtom %s)" % terms.coq_name(t["a"])
    if "l" in t and t["l"] == []: return "(KAtom %s)" % terms.coq_name("[]")
    if "i" in t:
        n = int(t["i"])
        if abs(n) < (1 << 62): return "(KInt (%d))" % n
        m, limbs = abs(n), []
        while m:
            limbs.append(m & ((1 << 60) - 1)); m >>= 60
        z = "limbs [%s]" % "; ".join("%d%%Z" % x for x in limbs)
        return "(KInt (Z.opp (%s)))" % z if n < 0 else "(KInt (%s))" % z
    if "f" in t:
        b = int(t["f"], 16)
        return "(KFlt %d)" % (0 if b == NEG0 else b)
    if "r" in t: return "(KRat (%d) (%d))" % (int(t["r"][0]), int(t["r"][1]))
    raise ValueError("constant key %r" % (t,))


def _lpairs(t, keyf):
    out = []
    for e in t["l"]:
        if not ("c" in e and e["c"][0] == ":" and len(e["c"]) == 3): raise ValueError("map entry %r" % (e,))
        out.append("(%s, %s)" % (keyf(e["c"][1]), _lptr(e["c"][2])))
    return "[%s]" % "; ".join(out)


def _lskey(t):
    if not ("c" in t and t["c"][0] == "/" and "a" in t["c"][1]): raise ValueError("structure key %r" % (t,))
    return "(%s, %d)" % (terms.coq_name(t["c"][1]["a"]), int(t["c"][2]["i"]))


def parse_listing(items):
    """wam_instructions/2 list (JSON terms) -> (Coq text of a `list oinstr`, clause code lengths, features).  The lines of
    one IndexingCode instruction are listed one after the other (switch_on_term first; every `try` opens an IndexedChoice
    line); everything that is not a choice or indexing item is clause code (the generated bodies contain no disjunction)."""
    out, lens, feats = [], [], set()
    idx, choice, run_len = None, None, 0

    def flush_idx():
        nonlocal idx, choice
        if idx is not None:
            if choice is not None: idx.append("LChoice [%s]" % "; ".join(choice))
            out.append("OIdx [%s]" % "; ".join(idx))
        idx, choice = None, None

    def flush_clause():
        nonlocal run_len
        if run_len:
            lens.append(run_len)
            out.append("OClause %d%%N %d" % (len(lens), run_len))
        run_len = 0

    for it in items:
        name = it["a"] if "a" in it else it["c"][0] if "c" in it else None
        args = it["c"][1:] if "c" in it else []
        if name == "switch_on_term" and len(args) == 5:
            flush_clause(); flush_idx()
            idx = ["LTerm %d %s" % (int(args[0]["i"]), " ".join(_lptr(a) for a in args[1:]))]
            feats.add("switch_on_term")
        elif name == "switch_on_constants" and idx is not None and run_len == 0:
            if choice is not None: raise ValueError("switch line after an IndexedChoice line")
            idx.append("LCon %s" % _lpairs(args[0], _lckey)); feats.add("switch_on_constant")
        elif name == "switch_on_structure" and idx is not None and run_len == 0:
            if choice is not None: raise ValueError("switch line after an IndexedChoice line")
            idx.append("LStr %s" % _lpairs(args[0], _lskey)); feats.add("switch_on_structure")
        elif name in ICHOICE and idx is not None and run_len == 0 and len(args) == 1:
            if name == "try":
                if choice is not None: idx.append("LChoice [%s]" % "; ".join(choice))
                choice = []
            if choice is None: raise ValueError("retry/trust outside an IndexedChoice line")
            choice.append("%s %d" % (ICHOICE[name], int(args[0]["i"]))); feats.add("indexed_choice")
        elif name in CHOICE:
            flush_clause(); flush_idx()
            out.append("OTrust" if CHOICE[name] == "OTrust" else "%s %d" % (CHOICE[name], int(args[0]["i"])))
        else:
            flush_idx()
            run_len += 1
    flush_clause(); flush_idx()
    return "[%s]" % "; ".join(out), lens, feats


def n_spans(clauses):
    """number of sub-sequences split_predicate makes (a statistic only)"""
    spans, cur, is_open = 0, 0, False
    for _, args in clauses:
        j = next((k for k, a in enumerate(args) if a[0] != "var"), None)
        if j is None:
            spans += (1 if is_open else 0) + 1
            is_open, cur = False, 0
        elif is_open and j == cur:
            pass
        else:
            if is_open: spans += 1
            is_open, cur = True, j
    return spans + (1 if is_open else 0)


def bignum_cell_hazard(clauses, fb):
    """The mirror keys constants by value; the implementation keys an integer held in a bignum cell by address (known
    findings index:literal-bignum-key*, index:literal-small-value-in-bignum-cell*): two equal big keys are two map entries,
    and a bignum cell holding a small value gets a second (Fixnum) entry.  The listings differ exactly there."""
    lo, hi = fb
    seen = set()
    for _, args in clauses:
        for j, a in enumerate(args):
            if a[0] == "var": continue
            if a[0] == "int" and not (lo < a[1] <= hi):
                if a[1] == lo or (j, a[1]) in seen: return True
                seen.add((j, a[1]))
            break
    return False


def sentinels():
    """Fixed scenarios (always run, whatever the seed): (static/dynamic initial clauses, ops)."""
    B, lo = 1 << 70, None
    def c(i, a1, a2=V): return ((i, [a1, a2, I(i)]), "fact")
    return [
        # the design's predicate
        {"init": [c(1, I(B)), c(2, I(2)), c(3, A("foo")), c(4, F(1.5))], "cut": 4, "ops": []},
        # two clauses with one big key
        {"init": [c(1, I(B)), c(2, A("foo")), c(3, I(B))], "cut": 3, "ops": []},
        {"init": [c(1, I(-(1 << 55))), c(2, A("foo")), c(3, I(-(1 << 55)))], "cut": 3, "ops": []},
        # retract of the first clause, then assertz of a clause that opens a new sub-sequence
        {"init": [c(1, A("a")), c(2, A("b"))], "cut": 2, "ops": [("r", 1), ("z", c(3, V))]},
        # asserta onto an indexed sub-sequence, then assertz of a clause that opens a new sub-sequence
        {"init": [c(1, A("a"))], "cut": 1, "ops": [("a", c(2, A("b"))), ("z", c(3, V))]},
        # same key: asserta, assertz, retract, assertz, assertz
        {"init": [], "cut": 0, "ops": [("a", c(5, I(0))), ("z", c(2, I(0))), ("r", 2), ("z", c(3, I(0))), ("z", c(4, I(0)))]},
        # dead clauses at the end of the chain, call with unbound first and non-matching second argument
        {"init": [c(1, A("a"), A("b"))], "cut": 1, "ops": [("z", c(4, A("b"), A("a"))), ("z", c(2, A("b"), S("f", V))), ("z", c(3, A("foo"))), ("r", 3), ("r", 2)]},
        # asserta then assertz of clauses with one structure key next to an existing sub-sequence
        {"init": [c(2, L([I(1), I(2)]))], "cut": 1, "ops": [("a", c(10, S("f", A("a")))), ("z", c(7, S("f", A("a"))))]},
        # a partial string in a head, looked at through clause/2
        {"init": [], "cut": 0, "ops": [("z", c(1, L([A("b")], V))), ("z", c(2, A("foo")))]},
    ]


def run(ctx):
    rng = ctx.rng
    fb = fix_bounds()
    heads, comp, second = pools(fb)
    npred = ctx.scale(160, 4000)
    uid = "s%dx%d" % (ctx.seed, 1 if ctx.thorough else 0)
    preds, jobs = [], []
    sent = sentinels()
    for n in range(npred):
        k = rng.choice([2, 3, 3, 4, 5, 6, 8])
        hot = [rng.choice(heads) for _ in range(k)]
        if rng.random() < 0.5: hot.append((V, "_"))
        if rng.random() < 0.35:   # make sure several integer keys of both sizes meet
            hot += [h for h in heads if h[0][0] == "int" and rng.random() < 0.5]
        if n < len(sent):
            sc = sent[n]
            init = list(sc["init"])
            dyn_init = init[:sc["cut"]]
            ops = [(o[0], o[1]) if o[0] == "r" else (o[0], o[1][0]) for o in sc["ops"]]
            styles = {cl[0]: st for cl, st in init}
            for o in sc["ops"]:
                if o[0] != "r":
                    styles[o[1][0][0]] = o[1][1]
                    init = init + [o[1]] if n >= 3 else init
            # the static variant of a sentinel is the final clause list of its dynamic variant
            live = apply_ops([cl for cl, _ in dyn_init], ops)
            if sc["ops"]:
                init = [(cl, styles[cl[0]]) for cl in live]
        else:
            init = gen_pred(rng, heads, second, hot)
            # dynamic variant: a (possibly empty) prefix is consulted, the rest arrives through updates, with retracts interleaved
            cut = rng.choice([0, 0, 1, 2, len(init)])
            dyn_init = init[:cut]
            ops, live, nid = [], [c for c, _ in dyn_init], len(init) + 1
            styles = {c[0]: s for c, s in init}
            pending = list(init[cut:])
            steps = len(pending) + rng.choice([0, 1, 2, 3, 4])
            for _ in range(steps + 6):
                r = rng.random()
                if pending and r < 0.55:
                    c, s = pending.pop(0)
                    ops.append(("z", c)); live.append(c)
                elif r < 0.75 and len(live) < 9:
                    c, s = mk_clause(rng, nid, hot, second); nid += 1
                    styles[c[0]] = s
                    if rng.random() < 0.5: ops.append(("a", c)); live.insert(0, c)
                    else: ops.append(("z", c)); live.append(c)
                elif live and r < 0.95:
                    c = rng.choice(live)
                    ops.append(("r", c[0])); live = [x for x in live if x[0] != c[0]]
                if not pending and len(ops) >= steps: break
            for c, s in pending:
                ops.append(("z", c)); live.append(c)
            assert [c[0] for c in live] == [c[0] for c in apply_ops([c for c, _ in dyn_init], ops)]
        # calls: the probe (everything unbound) first
        calls = [{"form": "unbound", "tag": "var", "c1": V, "c2": V, "setup": None, "a1": "_", "a2": "_", "probe": True}]
        for t, x in heads:
            c2 = rng.choice(second)
            calls.append({"form": "literal", "tag": "lit", "c1": t, "c2": c2[0], "setup": None, "a1": x, "a2": c2[1]})
        for g, t, tag in comp:
            c2 = rng.choice(second)
            calls.append({"form": g, "tag": tag, "c1": t, "c2": c2[0], "setup": g, "a1": "X", "a2": c2[1]})
        for c2 in second[6:]:
            calls.append({"form": "unbound", "tag": "var", "c1": V, "c2": c2[0], "setup": None, "a1": "_", "a2": c2[1]})
        pr = {"n": n, "init": init, "dyn_init": dyn_init, "ops": ops, "styles": styles, "calls": calls, "compiled": rng.random() < 0.3}
        preds.append(pr)
        sname, dname = "ps%s_%d" % (uid, n), "pd%s_%d" % (uid, n)

        def q(name, c, how):
            goal = "%s(%s,%s,Y)" % (name, c["a1"], c["a2"])
            if how == "clause":
                inner = "findall(I, (clause(%s, B), (B == true -> I = Y ; B = (_ = I))), L)" % goal
            else:
                inner = "findall(Y, %s, L)" % goal
            return ("%s, %s." % (c["setup"], inner)) if c["setup"] else inner + "."
        stext = ":- use_module(library(lists)).\n:- use_module(library(diag)).\n" + "".join(clause_line(sname, c, st) for c, st in init)
        squeries = [q(sname, c, "call") for c in calls]
        comp_ix = []
        if pr["compiled"]:
            for j, c in enumerate(calls):
                if c["form"] == "literal":
                    stext += "cq%s_%d_%d(L) :- findall(Y, %s(%s,%s,Y), L).\n" % (uid, n, j, sname, c["a1"], c["a2"])
                    squeries.append("cq%s_%d_%d(L)." % (uid, n, j)); comp_ix.append(j)
        pr["comp_ix"] = comp_ix
        squeries.append("wam_instructions(%s/3, Is)." % sname)     # always the last query of the static job
        jobs.append({"id": "S%d" % n, "consult": stext, "queries": squeries, "max_answers": 3, "timeout_ms": 4000, "fresh": n % 40 == 0})
        dtext = ":- use_module(library(lists)).\n:- dynamic(%s/3).\n" % dname + "".join(clause_line(dname, c, st) for c, st in dyn_init)
        dqueries = []
        for o in ops:
            if o[0] == "a": dqueries.append(assert_text("asserta", dname, o[1], styles[o[1][0]]))
            elif o[0] == "z": dqueries.append(assert_text("assertz", dname, o[1], styles[o[1][0]]))
            else: dqueries.append(retract_text(dname, o[1], styles[o[1]]))
        dqueries += [q(dname, c, "call") for c in calls] + [q(dname, c, "clause") for c in calls]
        jobs.append({"id": "D%d" % n, "consult": dtext, "queries": dqueries, "max_answers": 3, "timeout_ms": 2500, "fresh": False})

    res = core.vrun_query(ctx.prop, jobs, tag="impl")
    # a job that follows a killed (hanging) job in its shard is dropped by the driver: run those again, each on a fresh machine
    lost = [dict(j, fresh=True) for j in jobs if res.get(j["id"]) is None or "crash" in res.get(j["id"], {})]
    if lost:
        res2 = core.vrun_query(ctx.prop, lost, tag="impl2")
        for j in lost:
            if res2.get(j["id"]) is not None: res[j["id"]] = res2[j["id"]]

    def obs_list(ans):
        """findall answer -> (list of ints | None, interrupted)"""
        if ans and isinstance(ans[0], dict) and "b" in ans[0] and "L" in ans[0]["b"]:
            t = ans[0]["b"]["L"]
            if "l" in t and all("i" in x for x in t["l"]):
                return [int(x["i"]) for x in t["l"]], False
        return None, "$interrupt_thrown" in json.dumps(ans)

    failures, tie_breaks, reported = [], [], {}
    bools, bmeta = [], []
    listing_cases = []
    evaluations = 0
    nontrivial = set()
    dist = {"predicates": npred, "calls_by_tag": {}, "clauses_hist": {}, "ops": {"a": 0, "z": 0, "r": 0}, "answers_len": {}, "pruned_cases": 0,
            "variants_compared": {"static": 0, "dynamic": 0, "clause": 0, "compiled": 0}, "variants_state_broken": {"dynamic": 0, "clause": 0}}
    samples = []

    def report(key, what, query, impl, spec, extra=None):
        reported[key] = reported.get(key, 0) + 1
        if reported[key] > LIMIT_PER_KEY: return
        f = {"key": key, "what": what, "input": query, "impl": impl, "spec": spec, "property_fails": True}
        if extra: f.update(extra)
        failures.append(f)

    def coq_clause(c): return "(%d%%N, [%s])" % (c[0], "; ".join(ctxt(x) for x in c[1]))

    def coq_cases(cs): return "[%s]" % "; ".join("([%s; %s; Var 0], [%s])" % (ctxt(c["c1"]), ctxt(c["c2"]), "; ".join("%d%%N" % x for x in o)) for c, o in cs)

    def ctext(clauses): return "; ".join(ptxt(S("p", *x[1])) for x in clauses)

    for p in preds:
        n = p["n"]
        init = [c for c, _ in p["init"]]
        dyn_init = [c for c, _ in p["dyn_init"]]
        final = apply_ops(dyn_init, p["ops"])
        ncalls = len(p["calls"])
        dist["clauses_hist"][len(init)] = dist["clauses_hist"].get(len(init), 0) + 1
        for o in p["ops"]: dist["ops"][o[0]] += 1
        sj, dj = res.get("S%d" % n), res.get("D%d" % n)
        dq = jobs[2 * n + 1]["queries"]
        nops = len(p["ops"])
        setup_txt = "%s %s" % (jobs[2 * n + 1]["consult"].split("\n", 1)[1].replace("\n", " "), " ".join(dq[:nops]))
        groups = []     # (variant, clauses, [(call, answer, query text)])
        if sj is None or "results" not in sj:
            tie_breaks.append({"kind": "harness", "what": "static job gave no results", "detail": json.dumps(sj)[:400]})
        else:
            rs = sj["results"]
            sq = jobs[2 * n]["queries"]
            groups.append(("static", init, list(zip(p["calls"], rs[:ncalls], sq[:ncalls]))))
            if init and sq[-1].startswith("wam_instructions("):
                listing_cases.append((p, rs[-1] if len(rs) == len(sq) else None, sq[-1]))
            if p["comp_ix"]:
                groups.append(("compiled", init, [(p["calls"][j], a, "in a compiled clause body: " + sq[j]) for j, a in zip(p["comp_ix"], rs[ncalls:])]))
        if dj is None or "results" not in dj:
            if dj is not None and dj.get("hang"):
                report("dynamic-update:does-not-terminate", "a call after the update sequence does not terminate and does not react to the interrupt "
                       "(the job was killed; the looping call is one of the calls on this predicate)", setup_txt, "no termination", "every call terminates")
            else:
                tie_breaks.append({"kind": "harness", "what": "dynamic job gave no results", "detail": json.dumps(dj)[:400]})
        else:
            rs = dj["results"]
            okop = lambda a: bool(a) and (a[0] == "true" or isinstance(a[0], dict) and "b" in a[0])
            bad_ops = [i for i in range(nops) if not okop(rs[i])]
            if bad_ops:
                i = bad_ops[0]
                if isinstance(rs[i][0], dict) and "panic" in rs[i][0] and dq[i].startswith("assertz") and "unreachable" in rs[i][0]["panic"]:
                    key = "dynamic-update:assertz-after-retract-of-first-clause-panics"
                else:
                    key = "dynamic-update:update-failed:" + dq[i].split("(")[0]
                report(key, "an assert/retract of the update sequence did not succeed (the calls on this predicate are not compared)",
                       "%s %s" % (jobs[2 * n + 1]["consult"].split("\n", 1)[1].replace("\n", " "), " ".join(dq[:i + 1])), json.dumps(rs[i])[:200], "true")
            else:
                groups.append(("dynamic", final, list(zip(p["calls"], rs[nops:nops + ncalls], dq[nops:nops + ncalls]))))
                groups.append(("clause", final, list(zip(p["calls"], rs[nops + ncalls:nops + 2 * ncalls], dq[nops + ncalls:nops + 2 * ncalls]))))
        for variant, clauses, triples in groups:
            dist["variants_compared"][variant] += 1
            cases, local_bad = [], []
            broken = None
            for c, a, qt in triples:
                o, intr = obs_list(a)
                exp = naive(clauses, [c["c1"], c["c2"], V])
                evaluations += 1
                dist["calls_by_tag"][c["tag"]] = dist["calls_by_tag"].get(c["tag"], 0) + 1
                dist["answers_len"][len(exp)] = dist["answers_len"].get(len(exp), 0) + 1
                if c["c1"][0] != "var" and len(exp) < len(clauses):
                    dist["pruned_cases"] += 1
                    nontrivial.add((variant, tuple(ptxt(x[1][0]) + "/" + ptxt(x[1][1]) for x in clauses), c["form"], c["a1"], c["a2"]))
                if c.get("probe") and variant in ("dynamic", "clause") and o != exp:
                    # the predicate as a whole is wrong after the updates: one report, the other calls are not attributed one by one
                    broken = ("does-not-terminate" if intr else symptom(o, exp), o, exp, qt)
                if o is None:
                    local_bad.append((c, None, exp, qt, intr, json.dumps(a)[:200]))
                    continue
                cases.append((c, o))
                if o != exp: local_bad.append((c, o, exp, qt, False, str(o)))
            if variant in ("static", "compiled"):
                expr = "check_static false [%s] %s" % ("; ".join(coq_clause(c) for c in init), coq_cases(cases))
            else:
                opsx = "; ".join(("OpA %s" % coq_clause(o[1])) if o[0] == "a" else ("OpZ %s" % coq_clause(o[1])) if o[0] == "z" else "OpR %d%%N" % o[1] for o in p["ops"])
                expr = "check_dynamic [%s] [%s] %s" % ("; ".join(coq_clause(c) for c in dyn_init), opsx, coq_cases(cases))
            bools.append(expr)
            bmeta.append((p, variant, clauses, local_bad, broken, setup_txt))
        if len(samples) < 6 and n >= len(sent) and n % max(1, npred // 6) == 0 and sj and "results" in sj:
            c = p["calls"][len(heads) + 2]
            samples.append({"clauses": [ptxt(S("p", *x[1])) for x in init], "query": jobs[2 * n]["queries"][len(heads) + 2],
                            "impl": json.dumps(sj["results"][len(heads) + 2])[:120], "model": str(naive(init, [c["c1"], c["c2"], V]))})

    # ---- the indexing code itself: the implementation's listing of every consulted predicate against build_code
    nmain = len(bools)
    lmeta = []
    ldist = {"compared": 0, "skipped_bignum_cell_key": 0, "differs": 0, "with_indexing_code": 0, "with_switch_on_constant": 0,
             "with_switch_on_structure": 0, "with_indexed_choice": 0, "several_sub_sequences": 0}
    dist["listing"] = ldist
    for p, ans, qt in listing_cases:
        init = [c for c, _ in p["init"]]
        if bignum_cell_hazard(init, fb):
            ldist["skipped_bignum_cell_key"] += 1
            continue
        items = None
        if ans and isinstance(ans[0], dict) and "b" in ans[0] and "l" in ans[0]["b"].get("Is", {}):
            items = ans[0]["b"]["Is"]["l"]
        if items is None:
            tie_breaks.append({"kind": "harness", "what": "no indexing listing obtained for a consulted predicate", "detail": "%s -> %s" % (qt, json.dumps(ans)[:300])})
            continue
        try:
            obs, lens, feats = parse_listing(items)
        except (ValueError, KeyError, TypeError, IndexError) as e:
            tie_breaks.append({"kind": "correspondence", "key": "index-code:listing-not-recognised",
                               "what": "the listing of wam_instructions/2 has a shape the translator does not know (%s)" % e,
                               "detail": "%s   %% clauses: %s -> %s" % (qt, ctext(init), json.dumps(items)[:1500])})
            continue
        ldist["compared"] += 1
        evaluations += 1
        if "switch_on_term" in feats:
            ldist["with_indexing_code"] += 1
            nontrivial.add(("listing", tuple(ptxt(x[1][0]) + "/" + ptxt(x[1][1]) for x in init)))
        for f, k in (("switch_on_constant", "with_switch_on_constant"), ("switch_on_structure", "with_switch_on_structure"), ("indexed_choice", "with_indexed_choice")):
            if f in feats: ldist[k] += 1
        if n_spans(init) > 1: ldist["several_sub_sequences"] += 1
        # clause identities are positions here (the listing names no clause)
        pos_clauses = "; ".join(coq_clause((j + 1, c[1])) for j, c in enumerate(init))
        bools.append("check_listing [%s] [%s] %s" % (pos_clauses, "; ".join("%d" % x for x in lens), obs))
        lmeta.append((p, init, obs, lens, qt, pos_clauses))

    bad, errs = core.coq_eval_bools(ctx.prop, IMPORTS, bools, chunk=60)
    tie_breaks += [{"kind": "coq-eval", "what": "model evaluation shard failed", "detail": t} for _, t in errs]
    badset = set(bad)
    for i in range(nmain, len(bools)):
        if i not in badset: continue
        p, init, obs, lens, qt, pos_clauses = lmeta[i - nmain]
        ldist["differs"] += 1
        if ldist["differs"] > LIMIT_PER_KEY: continue
        mirror = core.coq_eval_show(ctx.prop, IMPORTS, "let code := build_code (clen_of [%s]) [%s] in shape (S (List.length code)) code" %
                                    ("; ".join("%d" % x for x in lens), pos_clauses))
        tie_breaks.append({"kind": "correspondence", "key": "index-code:listing-differs-from-mirror",
                           "what": "the indexing code the implementation generated for a consulted predicate is not the code build_code (Coq mirror of "
                                   "compile_predicate / compute_indices) generates",
                           "detail": "%s   %% clauses: %s\nimpl: %s\nmirror: %s" % (qt, ctext(init), obs[:2500], mirror[:2500])})
    for i, (p, variant, clauses, local_bad, broken, setup_txt) in enumerate(bmeta):
        coq_bad = i in badset
        py_bad = any(o is not None for (_, o, _, _, _, _) in local_bad)
        if coq_bad != py_bad and not errs:
            tie_breaks.append({"kind": "coq-eval", "what": "the Coq model and the Python localising oracle disagree about a group of cases (coq says %s)" % ("mismatch" if coq_bad else "agreement"),
                               "detail": bools[i][:1500]})
        if not local_bad: continue
        if broken:
            sym, o, exp, qt = broken
            dist["variants_state_broken"][variant] += 1
            key = ("dynamic-update:" if variant == "dynamic" else "clause-store:") + sym
            report(key, "after the update sequence the predicate as a whole (all arguments unbound) does not enumerate its clauses in order",
                   "%s %s" % (setup_txt, qt), str(o), str(exp), {"variant": variant})
            continue
        for c, o, exp, qt, intr, shown in local_bad:
            key = call_key(c, variant, o, exp, clauses, fb, intr)
            pre = (setup_txt + " ") if variant in ("dynamic", "clause") else ""
            report(key, "the clauses found differ from the clauses whose heads unify with the call",
                   "%s%s   %% clauses: %s" % (pre, qt, ctext(clauses)), shown, str(exp), {"variant": variant})
    dist["failures_by_key"] = dict(reported)
    return {
        "evaluations": evaluations,
        "distinct_nontrivial": len(nontrivial),
        "rule": ("predicates p/3 with 1-8 clauses p(A1,A2,Id) (facts) or p(A1,A2,R) :- R = Id (rules), A1 from a per-predicate hot sub-pool of "
                 "{atoms, [], small integers, the small-integer bounds and their neighbours, 2^70, 2^70+1, -2^70, floats incl. 0.0/-0.0/1.0, "
                 "strings, lists, partial lists, structures f/1 f/2 g/1, variables}, A2 mostly a variable; variants: consulted static (plus the "
                 "literal calls from compiled clause bodies for 30%% of the predicates), dynamic (a consulted prefix, then interleaved "
                 "asserta/assertz/retract, then the calls), and clause/2 on the dynamic one; %d fixed scenarios first; each predicate is called "
                 "with every pool value as a literal, %d run-time computed values (is/2 through bignums and rationals, atom_length, number_chars, "
                 "atom_chars, functor, =..), and unbound; observable = findall list of clause numbers, compared in Coq with the model's answers "
                 "(check_static / check_dynamic). Non-trivial = distinct (variant, clause heads, call) with a bound first argument where selection "
                 "matters (not every clause unifies); plus, per consulted predicate, its wam_instructions/2 listing compared with build_code "
                 "(non-trivial = distinct clause-head lists whose listing contains indexing code)") % (len(sent), len(comp)),
        "samples": samples,
        "distribution": dist,
        "failures": failures,
        "tie_breaks": tie_breaks,
    }
