"""C15 -- Printed terms read back as the same term (partial: the operator-notation half is differential)."""
import json, os, shutil
from vlib import core, terms
from checks import C55 as K

META = {
    "level": "proof",
    "text": ("PARTIAL. Proved (Coq): canonical_roundtrip -- a reference reader that knows no operators reads the reference canonical writer's "
             "text (atoms quoted by the C55 rule incl. empty/quote/backslash/control/non-ASCII atoms, f(a,b) notation, integers of any size and "
             "sign, variables, nested compounds = lists, curly terms and strings in functional notation) back to the same term, for EVERY term "
             "of the fragment; canonical_roundtrip_in_context, canonical_injective, atom_roundtrip, int_roundtrip. The pair is tied to the code "
             "by cross round trips on generated terms: the implementation's write_term(ignore_ops(true),quoted(true)) text must be read by the "
             "reference reader to T (evaluated in Coq), and the implementation must read the reference writer's text to a variant of T. "
             "NOT proved (differential only): op_roundtrip -- writeq/print/write_term(quoted(true)) in OPERATOR notation; HCPrinter and the "
             "operator-precedence parser are not mirrored: for generated terms (<= 12 nodes over tricky atoms, all number kinds, negative numbers "
             "in every operand position, strings, partial lists, curly terms, operators as atoms/operands, every prefix/infix/postfix adjacency) "
             "and random user operator tables, the implementation's own reader must read the implementation's text back to a variant of T, "
             "through write_term_to_chars/read_term_from_chars and through writeq/2, write_canonical/2, write_term/3 + read_term/3 on files."),
    "note": ("Trusted: Coq kernel + vm_compute; gen/char_class.py; harness vrun + tools/vlib; the Python generator and its mirror of the "
             "reference writer (checked against the Coq writer on every case). Floats and rationals are outside the proved fragment (floats are "
             "covered differentially, bit-exact except the sign of zero). Atoms over ASCII + 16 tabulated non-ASCII code points in the proved part. "
             "print/1 does not exist in this scryer-prolog; its option set (quoted(true), numbervars(true)) is exercised through write_term. "
             "Under numbervars(true) the letters written for '$VAR'(N) are mapped back to '$VAR'(N) before comparing."),
    "technique": ("Coq proof (canonical_roundtrip and corollaries) over a reference writer/reader pair + cross round trips evaluated in Coq; "
                  "differential round trips (implementation writer -> implementation reader) for operator notation"),
    "coq_targets": ["C15/Props.vo"], "coq_dirs": ["C15", "C55", "Gen"], "props": "C15/Props.v",
    "trusted_base": ["Coq 8.16.1 kernel, vm_compute", "gen/char_class.py translator", "harness vrun + tools/vlib",
                     "operator-notation round trip is differential, not proved"],
    "assumptions": ["proved fragment: functional notation, atoms over the modelled alphabet, integers, variables",
                    "operator notation, floats, strings in double-quote notation: differential on generated terms only"],
}

IMPORTS = "From V Require Import Base.Term Gen.CharClass C55.Model C15.Model."


def gen(ctx):
    K.gen(ctx)


CROSS_PROG = K.RT_PROG + r"""
c15_cross(T, Names, W, R) :-
    write_term_to_chars(T, [quoted(true), ignore_ops(true), variable_names(Names)], C), c55_cs(C, W),
    append(C, " .", C1),
    catch(( read_term_from_chars(C1, T2, []) -> true ; T2 = '$read_failed' ), E, T2 = '$syntax_error'(E)),
    (  c55_variant(T, T2) -> R = ok
    ;  catch(write_term_to_chars(T2, [quoted(true), ignore_ops(true)], C3), _, C3 = "?"), c55_cs(C3, R) ).
c15_read(Codes, T, R) :-
    c55_cs(RC, Codes), append(RC, " .", RC1),
    catch(( read_term_from_chars(RC1, T2, []) -> true ; T2 = '$read_failed' ), E, T2 = '$syntax_error'(E)),
    (  c55_variant(T, T2) -> R = ok ; R = bad ).
"""


def fragment_ok(t):
    if t[0] in ("flt", "rat", "str"):
        return False
    if t[0] == "cmp":
        return all(fragment_ok(x) for x in t[2])
    return True


def run_cross(ctx, res):
    """(i) the reference reader reads the implementation's ignore_ops/quoted text W to T (evaluated in Coq);
    (ii) the implementation reads the reference writer's text to T: W is compared with the reference text in Coq; where they are
    equal the implementation's read-back of W is that check, where they differ the reference text is fetched from Coq and read."""
    rng = ctx.rng
    K.CURRENT_OPS = K.default_ops()
    atoms = K.PLAIN + K.TRICKY
    funcs = [(a, None) for a in K.PLAIN + ["-", "+", ",", "|", "[]", "{}", ".", "$VAR", ":-", "\\+", "=", "é", "a b", "", "A", "*", "1", "'", "\\"]]
    n = ctx.scale(500, 30000)
    cases, seen = [], set()
    while len(cases) < n:
        t = K.gen_term(rng, rng.choice([1, 2, 3, 5, 8, 12]), atoms, funcs)
        k = K.pl_text(t)
        if k in seen or not fragment_ok(t):
            continue
        seen.add(k); cases.append(t)
    jobs = []
    PER_JOB = 150
    for j in range(0, len(cases), PER_JOB):
        qs = ["c15_cross(%s, %s, W, R)." % (K.pl_text(t), K._names([t])) for t in cases[j:j + PER_JOB]]
        jobs.append({"id": "x%d" % j, "consult": CROSS_PROG, "queries": qs, "timeout_ms": 60000, "fresh": j == 0})
    out = core.vrun_query(ctx.prop, jobs, tag="cross")
    bools, meta = [], []
    for j in range(0, len(cases), PER_JOB):
        rec = out.get("x%d" % j)
        for i, t in enumerate(cases[j:j + PER_JOB]):
            w, r = K.first_binding(rec, i, "W"), K.first_binding(rec, i, "R")
            wc = K.codes_of(w) if w is not None else None
            if wc is None or r is None:
                res["tie_breaks"].append({"kind": "harness", "what": "cross query gave no result",
                                          "detail": {"term": K.pl_text(t), "result": K.rec_problem(rec, i)}})
                continue
            if r != ("atom", "ok"):
                res["failures"].append({"key": "roundtrip:canonical:" + K.abstract_shape(t, K.CURRENT_OPS)[:50],
                                        "what": "the implementation does not read its own ignore_ops/quoted text back to the term",
                                        "input": "T = %s, write_term_to_chars(T, [quoted(true),ignore_ops(true)], Cs), read back" % K.pl_text(t),
                                        "impl": {"written_text": K.text(wc), "read_back_as": K.text(K.codes_of(r) or [])}, "spec": "variant of T",
                                        "property_fails": True})
            ct = K.to_coq(t)
            bools.append("check_cross %s %s" % (ct, K.nlist(wc)))
            meta.append((t, wc))
    bad, errs = yield bools
    for _, e in errs:
        res["tie_breaks"].append({"kind": "coq-eval", "what": "cross shard failed", "detail": e})
    if bad:
        shown = sorted(bad, key=lambda i: K.tsize(meta[i][0]))[:8]
        # which half failed, and the reference text
        out_txt = core.coq_eval_show(ctx.prop, IMPORTS, "[%s]" % "; ".join(
            "(opt_term_eqb (read_canonical_ref %s) %s, write_canonical_ref %s)" % (K.nlist(meta[i][1]), K.to_coq(meta[i][0]), K.to_coq(meta[i][0]))
            for i in shown))
        import re
        parts = re.findall(r"\((true|false),\s*\[([0-9;\s]*)\]\)", out_txt)
        reads = []
        for i, pr in zip(shown, parts):
            ref = [int(x) for x in pr[1].replace(";", " ").split()]
            reads.append((i, pr[0] == "true", ref))
        if len(reads) != len(shown):
            res["tie_breaks"].append({"kind": "coq-eval", "what": "could not parse the reference texts", "detail": out_txt[:600]})
        rq = [{"id": "rr", "consult": CROSS_PROG, "queries": ["c15_read(%s, %s, R)." % (K.pl_codes(ref), K.pl_text(meta[i][0])) for i, ok, ref in reads],
               "timeout_ms": 20000, "fresh": True}]
        rout = core.vrun_query(ctx.prop, rq, nproc=1, tag="crossread").get("rr") if reads else None
        seen_k = set()
        for qi, (i, ref_reader_ok, ref) in enumerate(reads):
            t, wc = meta[i]
            r = K.first_binding(rout, qi, "R")
            impl_reads_ref = (r == ("atom", "ok"))
            if ref_reader_ok and impl_reads_ref:
                continue            # the two texts differ only cosmetically: both cross round trips hold
            k = ("cross:reference-reader:" if not ref_reader_ok else "cross:impl-reads-reference-text:") + K.abstract_shape(t, K.CURRENT_OPS)[:50]
            if k in seen_k: continue
            seen_k.add(k)
            res["failures"].append({"key": k, "what": "cross round trip between the implementation and the proved reference pair fails",
                                    "input": "T = %s" % K.pl_text(t),
                                    "impl": {"ignore_ops_quoted_text": K.text(wc), "implementation_reads_reference_text": impl_reads_ref},
                                    "spec": {"reference_text": K.text(ref), "reference_reader_reads_implementation_text": ref_reader_ok},
                                    "property_fails": True})
    res["evaluations"] += len(bools)
    res["nontrivial"] += sum(1 for m in meta if m[0][0] == "cmp" or (m[0][0] == "atom" and not m[0][1].isalnum()))
    res["distribution"]["cross_terms"] = {"total": len(meta), "compound": sum(1 for m in meta if m[0][0] == "cmp"),
                                          "texts_differing_from_reference": len(bad)}
    res["samples"] += [{"term": K.pl_text(m[0]), "impl_canonical_text": K.text(m[1])} for m in meta[:: max(1, len(meta) // 3)][:3]]


# ------------------------------------------------------------------ operator notation: differential round trips
FLOATS = [1.0, -1.0, 0.1, 1.0e10, 1.0e-10, 5e-324, 1.7976931348623157e308, -0.0, 0.0, 2.5e-7, 1e100, 123456789.125, -1.5e-300, 1e22, 1e23, 2.2250738585072014e-308]
STRS = ["abc", "a b", "a'b\"c\\", "\n\t", "é日", "-", "a"]

OPTSETS = [("writeq", "[quoted(true)]", "plain"), ("print", "[quoted(true),numbervars(true)]", "nv"),
           ("canonical", "[quoted(true),ignore_ops(true)]", "plain"), ("double_quotes", "[quoted(true),double_quotes(true)]", "plain"),
           ("max_depth0", "[quoted(true),max_depth(0)]", "plain")]


def leaves_extra():
    out = [terms.flt(f) for f in FLOATS] + [("str", s) for s in STRS]
    out += [("cmp", "$VAR", [("int", k)]) for k in (0, 1, 25, 26, 27, 52, -1)]
    out += [("int", 10 ** 22 + 7), ("int", -(10 ** 22) - 7), ("int", 2 ** 64), ("int", -(2 ** 63))]
    return out


def gen_cases(ctx):
    rng = ctx.rng
    ops = K.default_ops()
    K.CURRENT_OPS = ops
    fixed = [t for t in K.parse_texts(ctx, K.SPACING_FIXED + ["f(A,B,A)", "[A|B]", "A-B", "- A", "\\+A", "A= \\+B", "a- _", "- - A", "A:B:C", "{A}", "'$VAR'(A)"], "fixed")
             if t is not None]
    operands = [t for t in K.parse_texts(ctx, K.OPERAND_TEXTS + ["X", "\"a b\"", "1.0e-10", "-0.0", "- (1.0)", "[a|T]", "'$VAR'(27)", "5.0e-324", "-(-(a))", "2** -1"], "operands")
                if t is not None]
    prefix = ["-", "+", "\\", "\\+", ":-", "?-"]
    infix = ["+", "-", "*", "=", ":", ",", "=..", "-->", "is", "mod", "**", "^", "->", ";", "|", ":-", "rdiv", "<", "//", "/", "@<", "\\="]
    pool = K.op_term_pool(rng, ctx.scale(2500, 80000), prefix, infix, operands)
    atoms = K.PLAIN + K.TRICKY
    funcs = [(a, None) for a in ["f", "g", "-", "+", "*", ",", "|", ":-", "\\+", "=", "is", "mod", "^", "**", "-->", ";", "->", ":", "\\", "?-",
                                 "$VAR", "{}", "[]", ".", "é", "a b", ""]] + [("-", 1), ("-", 2), ("{}", 1), (",", 2)]
    rnd = []
    ex = leaves_extra()
    for _ in range(ctx.scale(2000, 60000)):
        rnd.append(K.gen_term(rng, rng.choice([2, 3, 4, 6, 8, 12]), atoms, funcs, leaves_extra=ex))
    return K.dedupe_terms(fixed + pool + rnd), ops, len(fixed), len(operands)


def classes(t, acc):
    """which tricky features a term has (for the distribution)"""
    k = t[0]
    if k == "flt": acc.add("float")
    elif k == "str": acc.add("string")
    elif k == "var": acc.add("var")
    elif k == "int":
        if t[1] < 0: acc.add("negative_int")
        if abs(t[1]) >= 2 ** 55: acc.add("bignum")
    elif k == "atom":
        if t[1] in K.CURRENT_OPS: acc.add("op_as_atom")
        elif not (t[1].isalnum() and t[1].isascii()): acc.add("tricky_atom")
    elif k == "cmp":
        if t[1] in K.CURRENT_OPS: acc.add("op_term")
        if t[1] == ".": acc.add("list")
        if t[1] == "{}": acc.add("curly")
        if t[1] == "$VAR": acc.add("numbervar")
        for x in t[2]: classes(x, acc)
    return acc


def run_ops(ctx, res):
    cases, ops, nfixed, noperands = gen_cases(ctx)
    groups, gops = [K.RT_PROG], [ops]
    gcases = [(t, 0) for t in cases]
    dist = {}
    for t in cases:
        for c in classes(t, set()):
            dist[c] = dist.get(c, 0) + 1
    passed_all = None
    total = 0
    for label, opts, mode in OPTSETS:
        sub = gcases if label in ("writeq", "print", "canonical") else gcases[:1500]
        n, nf, r = K.roundtrip_cases(ctx, res, sub, opts, label, "rt_" + label, groups, gops, mode)
        total += n
        dist["optset_" + label] = {"terms": n, "failing_before_shrinking": nf}
        if label == "writeq":
            passed_all = [t for (t, g), x in zip(sub, r) if x is None]
    res["nontrivial"] += len(cases)
    res["distribution"]["operator_notation"] = dict(dist, terms=len(cases), fixed=nfixed, operands=noperands)
    return passed_all or []


# ---- user operator tables
UNAMES = ["++", "===", "foo", "bar", "~>", "$"]
UTYPES = ["xfx", "xfy", "yfx", "fy", "fx", "xf", "yf"]


def gen_table(rng):
    decls, used = [], {}
    for _ in range(rng.randint(2, 5)):
        n = rng.choice(UNAMES)
        ty = rng.choice(UTYPES)
        cls = "pre" if ty in ("fy", "fx") else "in" if len(ty) == 3 else "post"
        have = used.setdefault(n, set())
        if cls in have or ("in" in have and cls == "post") or ("post" in have and cls == "in"):
            continue
        have.add(cls)
        p = rng.choice([50, 100, 200, 200, 300, 400, 500, 699, 700, 701, 900, 999, 1000, 1001, 1100, 1150, 1200, rng.randint(1, 1200)])
        decls.append((p, ty, n))
    return decls


def run_userops(ctx, res):
    rng = ctx.rng
    base = K.default_ops()
    groups, gops, cases = [], [], []
    ntab = ctx.scale(10, 200)
    some_operands = None
    for g in range(ntab):
        decls = gen_table(rng) if g else [(900, "fx", "==="), (300, "xf", "++"), (500, "yf", "bar"), (200, "xfy", "~>"), (700, "xfx", "foo")]
        if not decls:
            decls = [(700, "xfx", "===")]
        ops = {k: list(v) for k, v in base.items()}
        for p, ty, n in decls:
            ops.setdefault(n, []).append((p, ty))
        groups.append(K.RT_PROG + "".join(":- op(%d, %s, %s).\n" % (p, ty, terms.quote_atom(n)) for p, ty, n in decls))
        gops.append(ops)
        pre = [n for p, ty, n in decls if ty in ("fy", "fx")] + ["-", "\\+"]
        inf = [n for p, ty, n in decls if len(ty) == 3] + ["=", "-", ",", "*", ":-"]
        post = [n for p, ty, n in decls if ty in ("xf", "yf")]
        operands = [("atom", "a"), ("int", 1), ("int", -1), terms.flt(1.5), ("atom", "-"), ("atom", "[]"), ("var", 0), ("str", "s"),
                    ("cmp", "f", [("atom", "x")]), ("cmp", "-", [("int", 1)]), ("cmp", "-", [("atom", "a")]), ("cmp", ",", [("atom", "a"), ("atom", "b")]),
                    ("cmp", "{}", [("atom", "a")]), terms.mklist([("atom", "a")])] + [("atom", n) for p, ty, n in decls] + \
                   [("cmp", n, [("atom", "a")]) for p, ty, n in decls if len(ty) == 2] + \
                   [("cmp", n, [("atom", "a"), ("atom", "b")]) for p, ty, n in decls if len(ty) == 3]
        K.CURRENT_OPS = ops
        pool = K.dedupe_terms(K.op_term_pool(rng, ctx.scale(400, 1200), pre, inf, operands, post))
        rng.shuffle(pool)
        if g == 0:
            pool = [("cmp", "===", [("cmp", "++", [("atom", "*")])]), ("cmp", "===", [("cmp", "foo", [("atom", "-"), ("atom", "a")])]),
                    ("cmp", "bar", [("cmp", "++", [("atom", "a")])]), ("cmp", "~>", [("cmp", "~>", [("atom", "a"), ("atom", "b")]), ("atom", "c")]),
                    ("cmp", "foo", [("cmp", "foo", [("atom", "a"), ("atom", "b")]), ("atom", "c")]), ("cmp", "-", [("cmp", "++", [("int", 1)])]),
                    ("cmp", "++", [("cmp", "-", [("int", 1)])]), ("cmp", "++", [("int", -1)]), ("cmp", "===", [("atom", "===")])] + pool
        cases += [(t, g) for t in pool[:ctx.scale(420, 1500)]]
    total = 0
    for label, opts, mode in OPTSETS[:3]:
        n, nf, _ = K.roundtrip_cases(ctx, res, cases, opts, label, "uo_" + label, groups, gops, mode)
        total += n
        res["distribution"].setdefault("user_operator_tables", {"tables": ntab, "terms": len(cases)})["failing_before_shrinking_" + label] = nf
    res["nontrivial"] += len(cases)
    res["samples"].append({"user_op_table": [l for l in groups[0].split("\n") if l.startswith(":- op(")], "term": K.pl_text(cases[0][0])})


# ---- the stream predicates themselves (writeq/2, write_canonical/2, write_term/3 + read_term/3 on files)
def run_streams(ctx, res, passed):
    K.CURRENT_OPS = K.default_ops()
    sdir = os.path.join(core.WORK, ctx.prop, "streams")
    shutil.rmtree(sdir, ignore_errors=True)
    os.makedirs(sdir)
    passed = passed[:ctx.scale(3000, 60000)]
    hows = ["writeq", "write_canonical", "write_term([quoted(true),numbervars(false)])"]
    jobs, lay = [], {}
    PER = 100
    for hi, how in enumerate(hows):
        for j in range(0, len(passed), PER):
            ts = passed[j:j + PER]
            f = os.path.join(sdir, "h%d_%d.pl" % (hi, j))
            tl = "[%s]" % ",".join(K.pl_text(t) for t in ts)
            jid = "s%d_%d" % (hi, j)
            jobs.append({"id": jid, "consult": K.RT_PROG, "queries": ["c55_wfile('%s', %s, %s)." % (f, tl, how), "c55_rfile('%s', %s, %s, Rs)." % (f, tl, "nv" if how == "writeq" else "plain")],
                         "timeout_ms": 60000, "fresh": False})
            lay[jid] = (how, ts, f)
    out = core.vrun_query(ctx.prop, jobs, tag="streams")
    n = 0
    seen = set()
    for jid, (how, ts, f) in lay.items():
        rs = K.first_binding(out.get(jid), 1, "Rs")
        items = terms.list_view(rs)[0] if rs is not None else None
        if items is None or len(items) != len(ts):
            res["tie_breaks"].append({"kind": "harness", "what": "stream round trip gave no result", "detail": K.rec_problem(out.get(jid), 1)})
            continue
        n += len(ts)
        for i, (t, r) in enumerate(zip(ts, items)):
            if r != ("atom", "ok"):
                # the first mismatch of a file is meaningful (later ones may be caused by the reader losing its place)
                k = "roundtrip:stream:%s:%s" % (how.split("(")[0], K.abstract_shape(t, K.CURRENT_OPS)[:50])
                if k not in seen and len(seen) < 10:
                    seen.add(k)
                    line = "?"
                    try:
                        line = open(f, encoding="utf-8", errors="replace").read().split(" .\n")[i]
                    except Exception:
                        pass
                    res["failures"].append({"key": k, "what": "%s/2 to a file followed by read_term/3 does not give back a variant of the term" % how,
                                            "input": "T = %s, %s(S, T), write(S, ' .'), ..., read_term(S2, T2, [])" % (K.pl_text(t), how),
                                            "impl": {"written_text": line}, "spec": "T2 is a variant of T", "property_fails": True})
                break
    res["evaluations"] += n
    res["distribution"]["stream_roundtrips"] = {"terms": len(passed), "predicates": hows}


def run_rationals(ctx, res):
    qs = ["X is %s, c55_rt(f(X, a-X), [quoted(true)], [], plain, R)." % e for e in ("1 rdiv 3", "-1 rdiv 3", "7 rdiv 2")]
    rec = core.vrun_query(ctx.prop, [{"id": "r", "consult": K.RT_PROG, "queries": qs, "timeout_ms": 20000, "fresh": True}], nproc=1, tag="rat").get("r")
    for i, q in enumerate(qs):
        r = K.first_binding(rec, i, "R")
        if r is None:
            res["tie_breaks"].append({"kind": "harness", "what": "rational probe gave no result", "detail": K.rec_problem(rec, i)})
            continue
        res["evaluations"] += 1
        b = K._bad(r)
        if b is not None:
            res["failures"].append({"key": "roundtrip:writeq:rational", "what": "a rational number is written as an rdiv expression, which reads back "
                                                                                 "as a compound term, not as the number",
                                    "input": q, "impl": {"written_text": b[0], "read_back_as": b[1]}, "spec": "T2 == T (numbers read back identical)",
                                    "property_fails": True})
            break


def run(ctx):
    res = {"evaluations": 0, "nontrivial": 0, "failures": [], "tie_breaks": [], "samples": [], "distribution": {}}
    K.eval_deferred(ctx, res, [run_cross(ctx, res)], IMPORTS)
    passed = run_ops(ctx, res)
    run_userops(ctx, res)
    run_streams(ctx, res, passed)
    run_rationals(ctx, res)
    return {
        "evaluations": res["evaluations"], "distinct_nontrivial": res["nontrivial"],
        "rule": ("(1) cross check of the proved pair: random terms <= 12 nodes of the functional fragment over tricky atoms ([] {} | , - \\ /* . newline, "
                 "empty, non-ASCII, operators): reference reader on the implementation's ignore_ops/quoted text and implementation reader on the "
                 "reference text (non-trivial = compound or non-alphanumeric atom); (2) operator notation: fixed list + every prefix/infix operator "
                 "applied to 50 operand kinds + random depth-2 adjacencies + random terms <= 12 nodes with floats, strings, bignums, '$VAR'(N), "
                 "variables, under 5 option sets (writeq, print = numbervars, ignore_ops, double_quotes, max_depth(0)): write_term_to_chars then "
                 "read_term_from_chars must give a variant (non-trivial = distinct term); (3) the same under random user operator tables "
                 "(2-5 op/3 declarations over ++ === foo bar ~> $, fresh machine per table); (4) writeq/2, write_canonical/2, write_term/3 to files "
                 "+ read_term/3; (5) rationals"),
        "samples": res["samples"], "distribution": res["distribution"], "failures": res["failures"], "tie_breaks": res["tie_breaks"],
    }
