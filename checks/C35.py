"""C35 -- Reloading a program is idempotent."""
import json, os, re, struct, time
from vlib import core, terms

META = {
    "level": "proof",
    "text": ("Coq theorems over a reference model of the loader's database (predicates with flags and origin-tagged clause lists, operator "
             "entries): load_idempotent / reload_any_times (loading the same text again, any number of times, from every starting machine leaves "
             "the database as after the first load), answers_unchanged (so every query answer, operator entry and any function of the database), "
             "loader_state_size_constant (the per-text retraction bookkeeping keeps its size), multifile_other_text_kept and "
             "own_clauses_not_duplicated. The model is tied to the code differentially: generated programs (static, dynamic, discontiguous, "
             "multifile across two texts, op directives, initialization, strings/bignums/floats/long atoms) are loaded 1..5 times through "
             "load_module_string, consult_module_string and consult/1 on a file, with other texts and assertz in between; after every step the "
             "answers of all predicates and the operator entries are compared in Coq with the model, and the machine footprint (heap, atom "
             "table, stack, trail, loader state, float table) after load i>=2 is compared with the one after load 1."),
    "note": ("Trusted: Coq kernel + vm_compute; Engine/Sld.v (reference interpreter) for the answers of rules; the model is a reference model read "
             "from loader.rs/compile.rs/loader.pl, not an arm-by-arm mirror; texts are well formed (each declaration once, before the predicate's "
             "clauses); text identity = the file path when the load name is an existing file, else the anonymous identity shared with assertz; "
             "footprint sizes are not modelled in Coq beyond the retraction bookkeeping: their constancy is checked on the implementation only "
             "(hook verif_footprint); the code area (code_len) grows on every load (old code is not reclaimed) and is reported, not compared."),
    "technique": "Coq proof (load_idempotent, reload_any_times, answers_unchanged, loader_state_size_constant, multifile_other_text_kept) over a reference model + differential correspondence evaluated in Coq + footprint comparison through a hook",
    "coq_targets": ["C35/Props.vo"], "coq_dirs": ["C35"], "props": "C35/Props.v",
    "trusted_base": ["Coq 8.16.1 kernel, vm_compute", "coq/Engine/Sld.v reference interpreter", "src/machine/lib_machine/verif_footprint.rs (hook)",
                     "harness vrun + tools/vlib"],
    "assumptions": ["directives of the loaded texts have no side effects beyond declarations", "each declaration appears once and before the clauses of its predicate",
                    "one machine per process while footprints are taken (the atom table is process-global)"],
}
IMPORTS = "From V Require Import Base.Term Engine.Sld C35.Model."
FUEL = 100
FILES = os.path.join(core.WORK, "C35", "files")
APIS = {"load": "load_module_string", "consult": "consult_module_string", "file": "consult/1 on a file"}
COUNTERS = ["heap_cells", "lifted_heap_cells", "atoms", "stack_top", "b", "e", "trail_entries", "tr", "load_contexts", "inactive_load_states", "f64_entries"]

# ---------------------------------------------------------------- terms (terms.py tuples plus ("str", text))
A = lambda s: ("atom", s)
I = lambda n: ("int", n)
F = lambda x: ("flt", struct.unpack(">Q", struct.pack(">d", float(x)))[0])
S = lambda s: ("str", s)
C = lambda f, *a: ("cmp", f, list(a))
INFIX = {"===": "xfx", "&&&": "xfy", "~~>": "yfx", "isnt": "xfx"}
PREFIX = {"neg": "fy", "~~": "fx"}
OPTYPES_INFIX = ["xfx", "xfy", "yfx"]
OPTYPES_PREFIX = ["fy", "fx"]


def plain(t):
    """-> pure terms.py term (strings become char lists)"""
    if t[0] == "str": return terms.mkstring(t[1])
    if t[0] == "cmp": return ("cmp", t[1], [plain(x) for x in t[2]])
    return t


def ptext(t, ops):
    """Prolog text; operator syntax for the operators in `ops` (name -> type) that are active at this point of the text"""
    k = t[0]
    if k == "str": return '"%s"' % t[1]
    if k == "cmp":
        f, args = t[1], t[2]
        if f == "." and len(args) == 2:
            items, tail = terms.list_view(t)
            body = ",".join(ptext(x, ops) for x in items)
            return "[%s]" % body if tail == terms.NIL else "[%s|%s]" % (body, ptext(tail, ops))
        if f == "\\==" and len(args) == 2:
            return "%s \\== %s" % (ptext(args[0], ops), ptext(args[1], ops))
        if f in ops and len(args) == 2 and ops[f] in OPTYPES_INFIX:
            return "(%s %s %s)" % (ptext(args[0], ops), f, ptext(args[1], ops))
        if f in ops and len(args) == 1 and ops[f] in OPTYPES_PREFIX:
            return "(%s %s)" % (f, ptext(args[0], ops))
        return "%s(%s)" % (terms.quote_atom(f), ",".join(ptext(x, ops) for x in args))
    if k == "var": return t[1] if isinstance(t[1], str) else "V%d" % t[1]
    return terms.to_prolog(t)


def cname(s):
    return "[" + ";".join("%d" % ord(c) for c in s) + "]"


def cterm(t):
    k = t[0]
    if k == "var": return "(Var %d)" % t[1]
    if k == "int":
        n = t[1]
        if abs(n) < (1 << 60): return "(Int (%d)%%Z)" % n
        limbs, m = [], abs(n)
        while m: limbs.append(m & ((1 << 60) - 1)); m >>= 60
        return "(Int (zlimbs %s [%s]%%Z))" % ("true" if n < 0 else "false", ";".join(map(str, reversed(limbs))))
    if k == "flt": return "(Flt (%d)%%Z)" % t[1]
    if k == "atom": return "(Atom %s)" % cname(t[1])
    if k == "str": return "(tstring %s)" % cname(t[1])
    if k == "cmp":
        if t[1] == "." and len(t[2]) == 2:
            items, tail = terms.list_view(t)
            if tail == terms.NIL: return "(tlist [%s])" % "; ".join(cterm(x) for x in items)
        return "(Cmp %s [%s])" % (cname(t[1]), "; ".join(cterm(x) for x in t[2]))
    raise ValueError(t)


def ckey(k):
    return "(%s, %d%%nat)" % (cname(k[0]), k[1])


def conj(goals):
    return goals[0] if len(goals) == 1 else C(",", goals[0], conj(goals[1:]))


# ---------------------------------------------------------------- items of a text
# ("clause", head, [body goals], kinds) | ("decl", d, key) | ("op", prio, type, name) | ("init", goal)
def item_kinds(it):
    if it[0] == "clause": return set(it[3])
    if it[0] == "decl": return {it[1]}
    if it[0] == "op": return {"op"}
    return {"initialization"}


def text_of(items):
    """Prolog text of an item list; operator syntax is used while the operator is declared with a positive priority"""
    ops, out = {}, []
    for it in items:
        if it[0] == "clause":
            h = ptext(it[1], ops)
            out.append(h + "." if not it[2] else "%s :- %s." % (h, ", ".join(ptext(g, ops) for g in it[2])))
        elif it[0] == "decl":
            out.append(":- %s(%s/%d)." % (it[1], terms.quote_atom(it[2][0]), it[2][1]))
        elif it[0] == "op":
            out.append(":- op(%d, %s, (%s))." % (it[1], it[2], it[3]))
            if it[1] > 0: ops[it[3]] = it[2]
            else: ops.pop(it[3], None)
        else:
            out.append(":- initialization(%s)." % ptext(it[1], ops))
    return "\n".join(out) + "\n"


def number_clause(head, goals):
    m, cnt = {}, [0]
    def go(t):
        if t[0] == "var":
            if t[1] == "_" or t[1] not in m:
                v = cnt[0]; cnt[0] += 1
                if t[1] != "_": m[t[1]] = v
                return ("var", v)
            return ("var", m[t[1]])
        if t[0] == "cmp": return ("cmp", t[1], [go(x) for x in t[2]])
        return t
    return go(head), [go(g) for g in goals]


def coq_items(items):
    out = []
    for it in items:
        if it[0] == "clause":
            h, gs = number_clause(it[1], it[2])
            body = cterm(conj(gs)) if gs else "(Atom n_true)"
            out.append("IClause (%s, %s)" % (cterm(h), body))
        elif it[0] == "decl":
            out.append("IDecl %s %s" % ({"dynamic": "DDynamic", "discontiguous": "DDiscontiguous", "multifile": "DMultifile"}[it[1]], ckey(it[2])))
        elif it[0] == "op":
            out.append("IOp %d %s %s" % (it[1], it[2].upper(), cname(it[3])))
        else:
            out.append("IInit %s" % cterm(it[1]))
    return "[" + "; ".join(out) + "]"


# ---------------------------------------------------------------- generator
ATOMS = ["a", "b", "c", "zz9", "hello world", "a_rather_long_atom_name_number_one", "Another Long Quoted Atom", "[]"]
BIGS = [(1 << 64) + 7, -(1 << 64) - 1, 10 ** 25 + 3, (1 << 100) - 1, -(10 ** 30)]
FLOATS = [1.5, -2.25, 0.1, 3.141592653589793, 10000000000.0, 0.0]
STRS = ["abc", "", "hello world str", "x"]
PREDS = {   # name -> (kind, arity)
    "s0": ("static", 1), "s1": ("static", 2), "static_predicate_with_long_name_2": ("static", 1), "s3": ("static", 0),
    "d0": ("dynamic", 1), "dynamic_long_named_pred_1": ("dynamic", 2),
    "k0": ("discontiguous", 1), "k1": ("discontiguous", 2),
    "m0": ("multifile", 1), "multi_file_predicate_1": ("multifile", 2),
    "dm0": ("dynmulti", 1), "dk0": ("dyndisc", 1),
    "r0": ("rule", 1), "r1": ("rule", 2),
    "===": ("static", 2), "isnt": ("static", 2),
}
DECLS = {"static": [], "rule": [], "dynamic": ["dynamic"], "discontiguous": ["discontiguous"], "multifile": ["multifile"],
         "dynmulti": ["dynamic", "multifile"], "dyndisc": ["discontiguous", "dynamic"]}


def gen_arg(rng, want, ops, depth=0):
    """-> (term, kinds)"""
    pool = ["atom", "atom", "int", "int"] + sorted(want) + (["cmp", "list", "var"] if depth == 0 else [])
    k = rng.choice(pool)
    if k == "atom":
        a = rng.choice(ATOMS)
        return A(a), ({"long-atom"} if len(a) > 7 else set())
    if k == "int": return I(rng.choice([0, 1, 2, 3, 7, -5, 42, (1 << 40) + 1])), set()
    if k == "bignum": return I(rng.choice(BIGS)), {"bignum"}
    if k == "float": return F(rng.choice(FLOATS)), {"float"}
    if k == "string": return S(rng.choice(STRS)), {"string"}
    if k == "long-atom": return A(rng.choice([a for a in ATOMS if len(a) > 7])), {"long-atom"}
    if k == "var": return ("var", rng.choice(["X", "Y", "_"])), {"var"}
    if k == "list":
        parts = [gen_arg(rng, want, ops, 1) for _ in range(rng.randrange(0, 4))]
        return terms.mklist([p[0] for p in parts]), set().union(*[p[1] for p in parts]) if parts else set()
    f = rng.choice(["f", "g", "pair"] + sorted(ops))
    n = 1 if f in PREFIX else (2 if f in INFIX else rng.choice([1, 2]))
    parts = [gen_arg(rng, want, ops, 1) for _ in range(n)]
    return C(f, *[p[0] for p in parts]), set().union(*[p[1] for p in parts]) | ({"op-term"} if f in ops else set())


def gen_text(rng, names, feats, tagc):
    """A well-formed text over the predicates `names`; feats: set of literal kinds / 'op' / 'initialization' / 'split'."""
    want = feats & {"bignum", "float", "string", "long-atom"}
    ops = {}
    if "op" in feats:
        for o in rng.sample(sorted(INFIX) + sorted(PREFIX), rng.randrange(1, 4)):
            ops[o] = rng.choice(OPTYPES_INFIX if o in INFIX else OPTYPES_PREFIX)
    head, blocks, scattered = [], [], []
    for o, ty in sorted(ops.items()):
        head.append(("op", rng.choice([200, 400, 700, 650, 1100]) if o in INFIX else rng.choice([200, 700, 900]), ty, o))
    facts_with_clauses = []
    for name in names:
        kind, ar = PREDS[name]
        key = (name, ar)
        decls = [("decl", d, key) for d in DECLS[kind]]
        rng.shuffle(decls)
        ncl = rng.choice([1, 1, 2, 3, 4]) if kind != "dynamic" else rng.choice([0, 1, 2, 3])
        cls = []
        for _ in range(ncl):
            if kind == "rule": continue
            parts = [gen_arg(rng, want, ops) for _ in range(ar)]
            h = C(name, *[p[0] for p in parts]) if ar else A(name)
            kinds = {"fact"}.union(*[p[1] for p in parts]) if parts else {"fact"}
            cls.append(("clause", h, [], sorted(kinds)))
        if kind in ("static", "discontiguous", "multifile", "dynmulti", "dyndisc") and ar >= 1 and cls and name not in INFIX:
            facts_with_clauses.append(name)
        if kind == "rule":
            continue
        if kind in ("discontiguous", "multifile", "dynmulti", "dyndisc"):
            head += decls
            scattered += [(name, c) for c in cls]
        else:
            if "split" in feats and len(cls) >= 2 and rng.random() < 0.3:
                blocks.append(decls + cls[:1]); blocks.append(cls[1:])      # two runs: the second overwrites the first
            else:
                blocks.append(decls + cls)
    for name in names:
        kind, ar = PREDS[name]
        if kind != "rule" or not facts_with_clauses: continue
        cls = []
        for _ in range(rng.choice([1, 2])):
            vs = [("var", "X"), ("var", "Y")][:ar]
            goals = []
            for v in vs:
                p = rng.choice(facts_with_clauses)
                goals.append(C(p, v) if PREDS[p][1] == 1 else C(p, v, ("var", "_")))
            if rng.random() < 0.3: goals.append(C("\\==", vs[0], A("a")))
            cls.append(("clause", C(name, *vs), goals, ["rule"]))
        blocks.append(cls)
    rng.shuffle(blocks)
    # scatter the clauses of extensible predicates between the blocks (keeping their relative order per predicate)
    slots = [[] for _ in range(len(blocks) + 1)]
    order = {}
    for name, c in scattered: order.setdefault(name, []).append(c)
    for name, cs in order.items():
        pos = sorted(rng.randrange(0, len(slots)) for _ in cs)
        for p, c in zip(pos, cs): slots[p].append(c)
    body = []
    for i, s in enumerate(slots):
        body += s
        if i < len(blocks): body += blocks[i]
    items = head + body
    # more directives at random places
    extra = []
    if "initialization" in feats:
        for _ in range(rng.choice([1, 1, 2])):
            extra.append(("init", rng.choice([A("true"), C("=", A("a"), A("a")), C("atom", A("x"))])))
    if "op" in feats and rng.random() < 0.5:
        o = rng.choice(sorted(ops))
        extra.append(("op", rng.choice([300, 650, 700]), rng.choice(OPTYPES_INFIX if o in INFIX else OPTYPES_PREFIX) if rng.random() < 0.5 else ops[o], o))
    for e in extra:
        items.insert(rng.randrange(len(head), len(items) + 1), e)
    if "op" in feats and rng.random() < 0.2:
        items.append(("op", 0, ops[sorted(ops)[0]], sorted(ops)[0]))     # removed again at the end of the text
    # a later op directive may change the type: keep the printing consistent by re-deriving active types in text_of
    return items


def gen_scenario(rng, idx, seed):
    feats = set()
    for f, p in (("bignum", .3), ("float", .35), ("string", .4), ("long-atom", .4), ("op", .35), ("initialization", .25), ("split", .3)):
        if rng.random() < p: feats.add(f)
    allnames = [n for n in PREDS if n not in INFIX]
    names = rng.sample(allnames, rng.randrange(1, 8))
    if "op" in feats and rng.random() < 0.5: names.append(rng.choice(["===", "isnt"]))
    names.sort(key=lambda n: list(PREDS).index(n))
    s_items = gen_text(rng, names, feats, "S")
    # an operator-named predicate needs its operator declared in the same text, else drop it
    def fix(items):
        declared = {it[3] for it in items if it[0] == "op"}
        return [it for it in items if not (it[0] == "clause" and it[1][0] == "cmp" and it[1][1] in INFIX and it[1][1] not in declared)]
    s_items = fix(s_items)
    has_other = rng.random() < 0.55
    o_items = []
    if has_other:
        onames = sorted(set(rng.sample(names, rng.randrange(1, len(names) + 1)) + rng.sample(allnames, rng.randrange(0, 3))), key=lambda n: list(PREDS).index(n))
        onames = [n for n in onames if n not in INFIX]
        o_items = fix(gen_text(rng, onames, feats - {"op", "initialization"}, "O"))
    # history
    dyn_keys = [(n, PREDS[n][1]) for n in sorted(set(names)) if PREDS[n][0] in ("dynamic", "dynmulti", "dyndisc")] + [("e0", 1)]
    def assert_step():
        n, ar = rng.choice(dyn_keys)
        return ("assert", C(n, *[rng.choice([A("zz9"), I(99), A("asserted_long_atom_name")]) for _ in range(ar)]))
    steps = []
    if has_other and rng.random() < 0.7: steps.append(("load", "O"))
    if rng.random() < 0.3: steps.append(assert_step())
    nloads = rng.choice([1, 2, 2, 3, 3, 4, 5])
    for i in range(nloads):
        steps.append(("load", "S"))
        if i + 1 < nloads:
            r = rng.random()
            if r < 0.12: steps.append(assert_step())
            elif r < 0.22 and has_other: steps.append(("load", "O"))
    if rng.random() < 0.15 and has_other: steps += [("load", "O"), ("load", "O")]
    keys = []
    for it in s_items + o_items:
        k = None
        if it[0] == "clause": k = (it[1][1], len(it[1][2])) if it[1][0] == "cmp" else (it[1][1], 0)
        elif it[0] == "decl": k = it[2]
        if k and k not in keys: keys.append(k)
    for st in steps:
        if st[0] == "assert":
            k = (st[1][1], len(st[1][2]))
            if k not in keys: keys.append(k)
    if ("r0", 1) not in keys and rng.random() < 0.2: keys.append(("r0", 1))     # a predicate nobody defines
    opnames = sorted({it[3] for it in s_items if it[0] == "op"})
    return {"idx": idx, "S": s_items, "O": o_items, "steps": steps, "keys": keys, "opnames": opnames, "feats": sorted(feats),
            "paths": {"S": os.path.join(FILES, "t%d_%d_S.pl" % (seed, idx)), "O": os.path.join(FILES, "t%d_%d_O.pl" % (seed, idx))}}


# ---------------------------------------------------------------- jobs
def obs_query(sc):
    gs = []
    for i, (n, ar) in enumerate(sc["keys"]):
        vs = ["X%d" % j for j in range(ar)]
        goal = "%s(%s)" % (terms.quote_atom(n), ",".join(vs)) if ar else terms.quote_atom(n)
        if n in INFIX: goal = "'%s'(%s)" % (n, ",".join(vs))
        gs.append("catch(findall([%s],%s,L%d),error(E%d,_),(E%d=existence_error(_,_)->L%d=undefined;L%d=other))" % (",".join(vs), goal, i, i, i, i, i))
    for i, o in enumerate(sc["opnames"]):
        gs.append("findall(P-T,current_op(P,T,(%s)),O%d)" % (o, i))
    return (", ".join(gs) or "true") + "."


def load_step(sc, which, api, naming):
    text = text_of(sc[which])
    if api == "file": return {"q": "consult('%s')." % sc["paths"][which]}
    mod = sc["paths"][which] if naming == "path" else ("user" if sc["idx"] % 2 else "m")
    return {api: text, "module": mod}


def make_job(sc, api, naming, observe=True, steps=None):
    q = obs_query(sc)
    js = [{"q": q}] if observe else []
    marks = ["obs"] if observe else []
    for st in (steps if steps is not None else sc["steps"]):
        if st[0] == "load":
            js.append(load_step(sc, st[1], api, naming)); marks.append("load" + st[1])
        else:
            js.append({"q": "assertz(%s)." % ptext(st[1], {})}); marks.append("assert")
        if observe:
            js.append({"q": q}); marks.append("obs")
    return {"id": "%d/%s/%s" % (sc["idx"], api, naming), "steps": js, "footprint": True, "fresh": True, "timeout_ms": 20000, "max_answers": 3}, marks


def parse_obs(sc, res):
    """-> Coq text of one observation, or None when the query did not give exactly one binding answer"""
    if not sc["keys"] and not sc["opnames"] and res == ["true"]: return "([], [])"
    if not (isinstance(res, list) and res and isinstance(res[0], dict) and "b" in res[0]): return None
    b = res[0]["b"]
    qs = []
    for i in range(len(sc["keys"])):
        v = b.get("L%d" % i)
        if v is None: return None
        if v == {"a": "undefined"}: qs.append("OUndef")
        elif v == {"a": "other"} or "l" not in v: qs.append("OOther")
        else:
            qs.append("OAns [%s]" % "; ".join(cterm(terms.number_vars([terms.from_json(x)])[0]) for x in v["l"]))
    os_ = []
    for i in range(len(sc["opnames"])):
        v = b.get("O%d" % i)
        if v is None or "l" not in v: return None
        ents = []
        for e in v["l"]:
            p, t = int(e["c"][1]["i"]), e["c"][2]["a"]
            ents.append((0 if t in OPTYPES_PREFIX else 1 if t in OPTYPES_INFIX else 2, "(%d, %s)" % (p, t.upper())))
        os_.append("[%s]" % "; ".join(x[1] for x in sorted(ents)))
    return "([%s], [%s])" % ("; ".join(qs), "; ".join(os_))


def coq_case(sc, naming, observed, fn="check_trace"):
    tids = {"S": 1, "O": 2} if naming == "path" else {"S": 0, "O": 0}
    steps = []
    for st in sc["steps"]:
        if st[0] == "load": steps.append("SLoad %d t%s" % (tids[st[1]], st[1]))
        else: steps.append("SAssert (%s, Atom n_true)" % cterm(st[1]))
    head = "let tS : text := %s in let tO : text := %s in " % (coq_items(sc["S"]), coq_items(sc["O"]))
    args = "[%s] [%s] [%s]" % ("; ".join(steps), "; ".join(ckey(k) for k in sc["keys"]), "; ".join(cname(o) for o in sc["opnames"]))
    if fn == "trace": return head + "trace %d machine0 %s" % (FUEL, args)
    return head + "%s %d %s [%s]" % (fn, FUEL, args, "; ".join(observed))


def epochs(marks):
    """groups of step indices of consecutive loads of S without another mutation in between"""
    out, cur = [], []
    for i, m in enumerate(marks):
        if m == "loadS": cur.append(i)
        elif m in ("loadO", "assert"):
            if cur: out.append(cur)
            cur = []
    if cur: out.append(cur)
    return out


def kinds_of(items):
    ks = set()
    for it in items: ks |= item_kinds(it)
    return ks


# ---------------------------------------------------------------- footprint growth: confirmation and minimisation
def growth_jobs(prop, cases, tag):
    """cases: list of (id, items, api).  Loads the text three times in a row on a fresh machine (file path identity) and returns
    {id: {counter: (after load 2, after load 3)}} for the counters that differ."""
    os.makedirs(FILES, exist_ok=True)
    jobs = []
    for cid, items, api in cases:
        path = os.path.join(FILES, "min%d_%s.pl" % (os.getpid(), cid.replace("/", "_")))
        text = text_of(items)
        open(path, "w").write(text)
        st = {"q": "consult('%s')." % path} if api == "file" else {api: text, "module": path}
        jobs.append({"id": cid, "steps": [st, st, st], "footprint": True, "fresh": True, "timeout_ms": 20000})
    res = core.vrun_query(prop, jobs, tag=tag)
    out = {}
    for cid, _, _ in cases:
        r = res.get(cid, {})
        fps = r.get("footprints") or []
        if len(fps) == 3 and all(fps):
            out[cid] = {c: (fps[0][c], fps[1][c], fps[2][c]) for c in COUNTERS if fps[1][c] != fps[2][c] or fps[0][c] != fps[1][c]}
        else:
            out[cid] = None
    return out


def minimise(prop, items, api, counter, rounds=40):
    cur = list(items)
    for rnd in range(rounds):
        if not cur: break
        cands = [(str(i), cur[:i] + cur[i + 1:], api) for i in range(len(cur))]
        res = growth_jobs(prop, cands, "min")
        nxt = None
        for cid, it, _ in cands:
            if res.get(cid) and counter in res[cid]:
                nxt = it; break
        if nxt is None: break
        cur = nxt
    return cur


def well_formed_drop(items, i):
    """items without item i, or None when that would leave clauses of a predicate without its declarations"""
    it = items[i]
    rest = items[:i] + items[i + 1:]
    if it[0] == "decl" and any(x[0] == "clause" and ((x[1][1], len(x[1][2])) if x[1][0] == "cmp" else (x[1][1], 0)) == it[2] for x in rest):
        return None
    return rest


def item_key_of(it):
    if it[0] == "clause": return (it[1][1], len(it[1][2])) if it[1][0] == "cmp" else (it[1][1], 0)
    if it[0] == "decl": return it[2]
    return None


def minimise_panic(prop, sc, api, naming):
    """greedy reduction of a panicking history: drop whole predicates, steps, then single items (texts stay well formed)"""
    cur = dict(sc)
    base = os.path.join(FILES, "minp%d" % os.getpid())
    def panicking(cands):
        jobs = []
        for cid, c in cands:
            c["paths"] = {w: "%s_%s_%s.pl" % (base, cid, w) for w in ("S", "O")}
            for w in ("S", "O"): open(c["paths"][w], "w").write(text_of(c[w]))
            j, _ = make_job(c, api, naming, observe=False)
            j["id"] = cid; jobs.append(j)
        out = core.vrun_query(prop, jobs, tag="minp")
        return {cid: ("crash" in out.get(cid, {"crash": 1}) or "panic" in json.dumps(out[cid].get("results"))) for cid, _ in cands}
    def apply(c0, rem):
        c = dict(c0)
        for w in ("S", "O"): c[w] = [it for i, it in enumerate(c0[w]) if (w, i) not in rem]
        c["steps"] = [st for i, st in enumerate(c0["steps"]) if ("T", i) not in rem]
        return c
    def well_formed(c0, c):
        for w in ("S", "O"):
            for k in {item_key_of(it) for it in c[w] if it[0] == "clause"}:
                if [it for it in c[w] if it[0] == "decl" and it[2] == k] != [it for it in c0[w] if it[0] == "decl" and it[2] == k]: return False
        return True
    for rnd in range(7):
        rems = []
        keys = []
        for it in cur["S"] + cur["O"]:
            k = item_key_of(it)
            if k and k not in keys: keys.append(k)
        if len(keys) > 1:
            for k in keys:
                rems.append({(w, i) for w in ("S", "O") for i, it in enumerate(cur[w]) if item_key_of(it) == k})
        rems += [{("T", i)} for i in range(len(cur["steps"]))]
        if rnd >= 2 or len(keys) <= 2:      # item level only once whole predicates and steps are gone
            rems += [{(w, i)} for w in ("S", "O") for i in range(len(cur[w]))]
        cands = [("c%d" % n, apply(cur, r)) for n, r in enumerate(rems)]
        ok = [(n, c) for n, (cid, c) in enumerate(cands) if well_formed(cur, c)]
        if not ok: break
        r = panicking([cands[n] for n, _ in ok])
        good = [n for n, _ in ok if r["c%d" % n]]
        if not good: break
        union = set().union(*[rems[n] for n in good])
        cu = apply(cur, union)
        if len(good) > 1 and well_formed(cur, cu) and panicking([("u", cu)])["u"]:
            cur = cu
        else:
            cur = cands[good[0]][1]
    return cur


# ---------------------------------------------------------------- run
def run(ctx):
    rng = ctx.rng
    n = ctx.scale(120, 300)
    os.makedirs(FILES, exist_ok=True)
    scs = [gen_scenario(rng, i, ctx.seed) for i in range(n)]
    # corpus: the repository's own repeated-load programs, an empty text, a directive-only text
    def corpus(items, nloads, extra=None):
        sc = {"idx": len(scs), "S": items, "O": [], "steps": [("load", "S")] * nloads, "feats": ["corpus"], "opnames": [],
              "keys": [], "paths": {"S": os.path.join(FILES, "t%d_%d_S.pl" % (ctx.seed, len(scs))), "O": os.path.join(FILES, "t%d_%d_O.pl" % (ctx.seed, len(scs)))}}
        for it in items:
            k = (it[1][1], len(it[1][2])) if it[0] == "clause" else it[2] if it[0] == "decl" else None
            if k and k not in sc["keys"]: sc["keys"].append(k)
        sc["opnames"] = sorted({it[3] for it in items if it[0] == "op"})
        scs.append(sc)
    corpus([("decl", "discontiguous", ("repeated_loader_probe_predicate", 2)),
            ("clause", C("repeated_loader_probe_predicate", A("repeated_loader_probe_subject"), A("repeated_loader_probe_object")), [], ["fact", "long-atom"])], 5)
    corpus([("clause", C("repeated_float_probe_value", F(1.25)), [], ["fact", "float"])], 5)
    corpus([], 4)
    corpus([("op", 700, "xfx", "==="), ("clause", C("===", A("a"), A("b")), [], ["fact", "op-term"])], 4)
    corpus([("clause", C("p", A("a")), [], ["fact"]), ("clause", C("p", A("b")), [], ["fact"]),
            ("clause", C("q", ("var", "X")), [C("p", ("var", "X"))], ["rule"])], 5)
    for sc in scs:
        for w in ("S", "O"):
            open(sc["paths"][w], "w").write(text_of(sc[w]))
    variants = [("load", "anon"), ("consult", "anon"), ("load", "path"), ("consult", "path"), ("file", "path")]
    jobs, jmarks = [], {}
    for sc in scs:
        for api, naming in variants:
            j, marks = make_job(sc, api, naming)
            jobs.append(j); jmarks[j["id"]] = marks
    timing = {}
    t0 = time.time()
    res = core.vrun_query(ctx.prop, jobs, tag="q")
    timing["vrun_s"] = round(time.time() - t0, 1)

    failures, tie_breaks = [], []
    bools, binfo = [], []
    dist = {"apis": {}, "loads_per_epoch": {}, "features": {}, "item_kinds": {}, "code_len_growth_per_reload": {}, "footprint_comparisons": 0,
            "footprint_differences": {}}
    nontriv = set()
    code_growth = []
    grow_cases = []      # (scenario, api, naming, counter)
    panics = []
    for sc in scs:
        for f in sc["feats"]: dist["features"][f] = dist["features"].get(f, 0) + 1
        for k in kinds_of(sc["S"]): dist["item_kinds"][k] = dist["item_kinds"].get(k, 0) + 1
        seen_obs = {}
        for api, naming in variants:
            jid = "%d/%s/%s" % (sc["idx"], api, naming)
            r = res.get(jid)
            inp = "%s; %s; steps=%s; S=%r%s" % (APIS[api], "file-path identity" if naming == "path" else "anonymous identity",
                                                " ".join(s[0] + (s[1] if s[0] == "load" else "(%s)" % ptext(s[1], {})) for s in sc["steps"]),
                                                text_of(sc["S"]), ("; O=%r" % text_of(sc["O"])) if sc["O"] else "")
            if r is None or "crash" in r or "hang" in r or not r.get("results"):
                failures.append({"key": "reload:crash:" + api, "what": "the process crashed, hung or gave no result while (re)loading", "input": inp,
                                 "impl": json.dumps(r)[:300], "spec": "loads succeed", "property_fails": True})
                continue
            marks = jmarks[jid]
            results, fps = r["results"], r["footprints"]
            if any(isinstance(x, list) and x and isinstance(x[0], dict) and "panic" in x[0] for x in results):
                panics.append((sc, api, naming, inp, [json.dumps(x)[:160] for x in results if isinstance(x, list) and x and isinstance(x[0], dict) and "panic" in x[0]]))
                continue
            dist["apis"][api] = dist["apis"].get(api, 0) + 1
            # observations: after every mutation step
            obs, bad_obs = [], False
            for i, m in enumerate(marks):
                if m == "obs" and i > 0:
                    o = parse_obs(sc, results[i])
                    if o is None: bad_obs = True
                    obs.append(o)
            if bad_obs:
                failures.append({"key": "reload:query-fails:" + api, "what": "the observation query did not give one answer", "input": inp,
                                 "impl": json.dumps(results)[:400], "spec": "one answer with the clause lists", "property_fails": True})
                continue
            # (1) idempotence of the answers, directly: within an epoch all observations after a load of S are equal
            step_marks = [m for m in marks if m != "obs"]
            eps = epochs(step_marks)
            for ep in eps:
                dist["loads_per_epoch"][len(ep)] = dist["loads_per_epoch"].get(len(ep), 0) + 1
                for j in ep[1:]:
                    if obs[j] != obs[ep[0]]:
                        failures.append({"key": "reload:answers-change:" + api, "what": "answers or operator entries differ after loading the same text again (load %d of the run vs the first)" % (ep.index(j) + 1),
                                         "input": inp, "impl": obs[j][:600], "spec": obs[ep[0]][:600], "property_fails": True})
                        break
            if any(len(ep) >= 2 for ep in eps) and sc["S"]: nontriv.add((sc["idx"], api, naming))
            # (2) the model's answers
            key = (naming, tuple(obs))
            if key not in seen_obs:
                seen_obs[key] = jid
                bools.append(coq_case(sc, naming, obs)); binfo.append((sc, api, naming, inp, obs))
            # (3) footprints: after load i >= 2 of an epoch equal to after its first load
            load_idx = [i for i, m in enumerate(marks) if m != "obs"]          # positions of the mutation steps in the job's step list
            for ep in eps:
                base = fps[load_idx[ep[0]]]
                for j in ep[1:]:
                    cur = fps[load_idx[j]]
                    dist["footprint_comparisons"] += 1
                    g = cur["code_len"] - fps[load_idx[j] - 1]["code_len"]
                    code_growth.append(g)
                    for c in COUNTERS:
                        if cur[c] != base[c]:
                            k2 = "%s:%s" % (c, api)
                            dist["footprint_differences"][k2] = dist["footprint_differences"].get(k2, 0) + 1
                            grow_cases.append((sc, api, naming, c, base[c], cur[c]))
            # the observation queries themselves must not move the footprint (else a growth could not be attributed to the load)
            for i, m in enumerate(marks):
                if m == "obs" and i > 1 and any(fps[i][c] != fps[i - 1][c] for c in COUNTERS if c != "atoms"):
                    tie_breaks.append({"kind": "harness", "what": "an observation query changed the footprint", "detail": {"input": inp, "before": fps[i - 1], "after": fps[i]}})
                    break

    t0 = time.time()
    bad, errs = core.coq_eval_bools(ctx.prop, IMPORTS, bools, chunk=40, timeout=900)
    timing["coq_s"] = round(time.time() - t0, 1)
    for _, t in errs:
        tie_breaks.append({"kind": "coq-eval", "what": "model evaluation shard failed", "detail": t})
    # where does each disagreeing trace first differ from the model?  (one coqc run for all of them)
    bad = sorted(bad, key=lambda j: (len(binfo[j][0]["S"]) + len(binfo[j][0]["O"]), len(binfo[j][0]["steps"])))[:20]
    dist["traces_differing_from_model"] = len(bad)
    t_cls = time.time()
    if bad:
        shown = core.coq_eval_show(ctx.prop, IMPORTS, "[%s]" % "; ".join(coq_case(binfo[j][0], binfo[j][2], binfo[j][4], "first_mismatch") for j in bad), timeout=900)
        locs = re.findall(r"(None|Some \((\d+)(?:%nat)?, (?:Some (\d+)(?:%nat)?|None)\))", shown)
        if len(locs) != len(bad):
            tie_breaks.append({"kind": "coq-eval", "what": "could not locate the model/implementation differences", "detail": shown[-2000:]})
            locs = [("?", "", "")] * len(bad)
        by_key = {}
        for j, (_, st, ki) in zip(bad, locs):
            sc, api, naming, inp, obs = binfo[j]
            if ki != "":
                k = sc["keys"][int(ki)]
                fl = sorted({it[1] for it in sc["S"] + sc["O"] if it[0] == "decl" and it[2] == k})
                isrule = any(it[0] == "clause" and it[2] and ((it[1][1], len(it[1][2])) == k) for it in sc["S"] + sc["O"])
                feat = "+".join(fl) or ("rule" if isrule else "static")
                where = "predicate %s/%d" % k
            else:
                feat, where = "operators", "operator entries"
            upto = sc["steps"][:int(st) + 1] if st != "" else sc["steps"]
            texts = sorted({s[1] for s in upto if s[0] == "load"})
            feat += ":file-identity" if naming == "path" else ":anonymous-identity"
            by_key.setdefault(feat, []).append((j, st, where))
        for n_shown, (feat, lst) in enumerate(sorted(by_key.items())):
            j, st, where = lst[0]
            sc, api, naming, inp, obs = binfo[j]
            spec = core.coq_eval_show(ctx.prop, IMPORTS, coq_case(sc, naming, obs, "trace")) if n_shown < 2 else "(model trace not printed)"
            failures.append({"key": "reload:answers-differ-from-model:" + feat,
                             "what": "after step %s of the history (counting from 0) the answers of %s differ from the loader model's (%d such traces in this run)" % (st, where, len(lst)),
                             "input": inp + "; queries=" + obs_query(sc), "impl": " | ".join(obs)[:1500], "spec": spec[:1500], "property_fails": True})
    timing["classify_s"] = round(time.time() - t_cls, 1)

    # panics: drop items (keeping every text well formed) while the history still panics, name what is left
    t_p = time.time()
    panics.sort(key=lambda p: (len(p[0]["S"]) + len(p[0]["O"]), p[0]["idx"]))
    pseen = set()
    for sc, api, naming, inp, msgs in panics[:1]:
        small = minimise_panic(ctx.prop, sc, api, naming)
        decls = sorted((kinds_of(small["S"]) | kinds_of(small["O"])) & {"dynamic", "discontiguous", "multifile", "op", "initialization"})
        dynext = "dynamic" in decls and ("discontiguous" in decls or "multifile" in decls)
        key = "reload:panic:%s" % ("dynamic-extensible-predicate" if dynext else "+".join(decls) or "static")
        if key in pseen: continue
        pseen.add(key)
        failures.append({"key": key, "what": "a (re)load panics (%d histories in this run); smallest history found by dropping items" % len(panics),
                         "input": "%s; %s; steps=%s; S=%r; O=%r; found from: %s" % (APIS[api], "file-path identity" if naming == "path" else "anonymous identity",
                                  " ".join(s[0] + (s[1] if s[0] == "load" else "") for s in small["steps"]), text_of(small["S"]), text_of(small["O"]), inp[:600]),
                         "impl": "; ".join(msgs)[:400], "spec": "the load succeeds and the answers are the model's", "property_fails": True})
    timing["panic_minimise_s"] = round(time.time() - t_p, 1)

    # footprint growth: confirm with loads only, minimise by dropping items, name the program feature
    t_g = time.time()
    explained = []   # (counter, feature kinds, apis)
    grow_cases.sort(key=lambda g: (g[3], len(g[0]["S"]), g[0]["idx"], g[1]))
    todo = list(grow_cases)
    reported = 0
    while todo and reported < 8:
        sc, api, naming, c, v1, v2 = todo[0]
        conf = growth_jobs(ctx.prop, [("c", sc["S"], api)], "conf").get("c")
        if not conf or c not in conf:
            tie_breaks.append({"kind": "footprint", "what": "counter %s differed after a reload but not when the text is loaded three times in a row" % c,
                               "detail": {"api": APIS[api], "text": text_of(sc["S"]), "first": v1, "later": v2}})
            todo = [g for g in todo if not (g[0] is sc and g[1] == api and g[3] == c)]
            continue
        small = minimise(ctx.prop, sc["S"], api, c)
        kinds = kinds_of(small) - {"fact"} if kinds_of(small) != {"fact"} else {"fact"}
        feat = "+".join(sorted(kinds)) or "any-text"
        per_api = growth_jobs(ctx.prop, [(a, small, a) for a in APIS], "apis")
        apis = sorted(a for a in APIS if per_api.get(a) and c in per_api[a])
        vals = per_api[api][c]
        key = "reload:grows:%s:%s" % (c, feat) + ("" if len(apis) == len(APIS) else ":" + "+".join(APIS[a].split(" ")[0].replace("/1", "_file") for a in apis))
        failures.append({"key": key, "what": "%s %s when the same text is loaded again (%d, %d, %d after loads 1, 2, 3) through %s" % (
                             c, "grows" if vals[2] > vals[0] else "changes", vals[0], vals[1], vals[2], ", ".join(APIS[a] for a in apis)),
                         "input": "text=%r loaded 3 times under the same file name; smallest program found by dropping items from %r" % (text_of(small), text_of(sc["S"])),
                         "impl": "%s after loads 1,2,3: %d, %d, %d" % (c, vals[0], vals[1], vals[2]), "spec": "%s after load i>=2 = %s after load 1" % (c, c),
                         "property_fails": True})
        reported += 1
        explained.append((c, kinds_of(small), set(apis)))
        todo = [g for g in todo if not any(g[3] == ec and g[1] in ea and kinds_of(g[0]["S"]) >= ek for ec, ek, ea in explained)]

    timing["growth_minimise_s"] = round(time.time() - t_g, 1)
    dist["timing"] = timing
    if code_growth:
        dist["code_len_growth_per_reload"] = {"min": min(code_growth), "max": max(code_growth), "mean": round(sum(code_growth) / len(code_growth), 1),
                                              "reloads_without_growth": sum(1 for g in code_growth if g == 0), "reloads": len(code_growth)}
    samples = []
    for sc in scs[:2] + scs[-2:]:
        samples.append({"S": text_of(sc["S"])[:300], "O": text_of(sc["O"])[:200], "steps": [s[0] + (s[1] if s[0] == "load" else "") for s in sc["steps"]]})
    return {"evaluations": len(bools), "distinct_nontrivial": len({x[0] for x in nontriv}),
            "rule": ("scenario = generated text S (1-8 predicates: static, dynamic, discontiguous with scattered clauses, multifile, dynamic+multifile, rules, "
                     "operator-named; optional op directives, initialization directives, strings/bignums/floats/long atoms, split runs), optional second text O over "
                     "overlapping predicates, a history (O and assertz before/between 1..5 loads of S); each scenario is run through load_module_string and "
                     "consult_module_string (anonymous and file-path identity) and consult/1 on the file; after every step all predicates' answers and the operator "
                     "entries are read. evaluations = distinct observed traces compared with the model in Coq; footprints of loads i>=2 are compared with load 1 of "
                     "the same run of loads. Non-trivial = distinct scenario with a non-empty text loaded at least twice in a row."),
            "samples": samples, "distribution": dist, "failures": failures, "tie_breaks": tie_breaks}
