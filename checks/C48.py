"""C48 -- File-system predicates reflect and change the real file system (library(files))."""
import json, os, re, shutil
from concurrent.futures import ThreadPoolExecutor
from vlib import core

META = {
    "level": "proof",
    "text": ("Coq theorems over a reference model of library(files) (a finite map from paths below a scratch root to directories and files with "
             "their bytes; file_exists, directory_exists, file_size, directory_files, make_directory, make_directory_path, delete_file, delete_directory, "
             "rename_file, file_copy, path_canonical, path_segments with the errors of files.pl): make_then_exists, delete_then_absent, rename_moves_content, "
             "copy_preserves_content_and_source, directory_files_lists_children, make_directory_path_creates_ancestors, path_segments_roundtrip, "
             "wellformed_preserved (every entry keeps a directory as parent under every operation sequence), errors_on_missing_or_ill_typed. The model is tied to the code and to the OS "
             "three ways: sequences of up to 12 operations are executed by scryer inside a fresh scratch directory; each answer is compared with the model "
             "in Coq, and the final directory tree as read by Python (os.walk + file contents) is compared with the model's final state."),
    "note": ("Trusted: Coq kernel + vm_compute; the Python generator and os.walk; harness vrun; the OS (assumed to implement the tree). Modelled, not "
             "verified: std::fs calls. Paths are absolute, inside the scratch directory, built from plain names (no '.', '..', empty segments, symlinks, "
             "permissions); ill-typed path arguments (atom, integer, variable) are included. File contents are written through open/4 + put_byte. "
             "file_*_time/2 and working_directory/2 are not covered (they depend on the clock / process state). No axioms."),
    "technique": ("Coq proof (make_then_exists, delete_then_absent, rename_moves_content, copy_preserves_content_and_source, directory_files_lists_children, "
                  "make_directory_path_creates_ancestors, path_segments_roundtrip, wellformed_preserved, errors_on_missing_or_ill_typed) over a reference model + three-way differential "
                  "correspondence (scryer answers, model, OS state) evaluated in Coq"),
    "design_ref": "DESIGN.md section 8, C48",
    "coq_targets": ["C48/Props.vo"], "coq_dirs": ["C48"], "props": "C48/Props.v",
    "trusted_base": ["Coq 8.16.1 kernel, vm_compute", "harness vrun + tools/vlib", "Python os.walk/open as the reader of the OS state", "the OS file system"],
    "assumptions": ["nothing else touches the scratch directory during a run", "the scratch file system is a plain POSIX file system (case-sensitive, UTF-8 names)"],
}

IMPORTS = "From V Require Import C48.Model."

DRIVER = r"""
:- use_module(library(files)).
:- use_module(library(lists)).
c48_run([], []).
c48_run([O|Os], [R|Rs]) :-
    catch(( c48_op(O, R0) -> R = R0 ; R = false ), error(E, _), c48_err(E, O, R)),
    c48_run(Os, Rs).
c48_op(fe(P), true) :- file_exists(P).
c48_op(de(P), true) :- directory_exists(P).
c48_op(fs(P), size(N)) :- file_size(P, N).
c48_op(df(P), names(L)) :- directory_files(P, L).
c48_op(md(P), true) :- make_directory(P).
c48_op(mp(P), true) :- make_directory_path(P).
c48_op(rf(P), true) :- delete_file(P).
c48_op(rd(P), true) :- delete_directory(P).
c48_op(mv(P, Q), true) :- rename_file(P, Q).
c48_op(cp(P, Q), true) :- file_copy(P, Q).
c48_op(pc(P), path(C)) :- path_canonical(P, C).
c48_op(wf(P, Bs), R) :- catch(( open(P, write, S, [type(binary)]), c48_put(Bs, S), close(S), R = true ), error(_, _), R = open_error).
c48_op(ps(P), segs(S)) :- path_segments(P, S).
c48_op(pj(S), joined(P)) :- path_segments(P, S).
c48_put([], _).
c48_put([B|Bs], S) :- put_byte(S, B), c48_put(Bs, S).
c48_err(existence_error(K, P0), O, R) :- !, arg(1, O, P), ( P0 == P -> R = ee(K) ; R = ee_other_culprit(K) ).
c48_err(instantiation_error, _, inst) :- !.
c48_err(type_error(T, _), _, te(T)) :- !.
c48_err(E, _, other(E)).
"""

NAMES = ["a", "a", "a", "b c", "b c", "é", "é", "日本", "x.txt", "x.txt", "b", "c"]
CONTENTS = [b"", b"x", b"hi\n", "hé".encode(), b"\x00\xff", b"0123456789", "日本".encode()]


class Sim:
    """generator-side bookkeeping only (to aim operations at existing entries); the oracle is the Coq model"""
    def __init__(self): self.t = {}
    def isdir(self, p): return p == () or self.t.get(p) == "d"
    def isfile(self, p): return p != () and isinstance(self.t.get(p), bytes)
    def files(self): return [p for p in self.t if self.isfile(p)]
    def dirs(self): return [p for p in self.t if self.isdir(p)]


def rnd_path(rng, sim, kind):
    if kind == "file" and sim.files(): return rng.choice(sim.files())
    if kind == "dir" and sim.dirs(): return rng.choice(sim.dirs())
    if kind == "new":
        base = rng.choice([()] + sim.dirs())
        return base + (rng.choice(NAMES),)
    return tuple(rng.choice(NAMES) for _ in range(rng.choice([1, 1, 2, 2, 3])))


def sim_apply(sim, op):
    k = op[0]
    t = sim.t
    def writable(q): return q != () and not sim.isdir(q) and sim.isdir(q[:-1])
    if k == "wf" and writable(op[1]): t[op[1]] = op[2]
    elif k == "md" and op[1] not in t and op[1] != () and sim.isdir(op[1][:-1]): t[op[1]] = "d"
    elif k == "mp":
        pre = [op[1][:i] for i in range(1, len(op[1]) + 1)]
        if not any(sim.isfile(q) for q in pre):
            for q in pre: t[q] = "d"
    elif k == "rf" and sim.isfile(op[1]): del t[op[1]]
    elif k == "rd" and op[1] != () and sim.isdir(op[1]) and not any(q[:-1] == op[1] for q in t): del t[op[1]]
    elif k == "mv" and sim.isfile(op[1]) and op[1] != op[2] and writable(op[2]): t[op[2]] = t.pop(op[1])
    elif k == "cp" and sim.isfile(op[1]) and op[1] != op[2] and writable(op[2]): t[op[2]] = t[op[1]]


def gen_case(rng):
    sim = Sim()
    ops = []
    n = rng.choice([3, 5, 8, 10, 12, 12])
    for _ in range(n):
        r = rng.random()
        pk = lambda *ks: rnd_path(rng, sim, rng.choice(ks))
        if r < 0.16: op = ("wf", pk("new", "new", "file", "any"), rng.choice(CONTENTS))
        elif r < 0.26: op = ("md", pk("new", "new", "dir", "any"))
        elif r < 0.34: op = ("mp", pk("any", "any", "new", "file"))
        elif r < 0.39: op = ("fe", pk("file", "dir", "any"))
        elif r < 0.44: op = ("de", pk("file", "dir", "any"))
        elif r < 0.50: op = ("fs", pk("file", "file", "dir", "any"))
        elif r < 0.58: op = ("df", pk("dir", "dir", "file", "any")) if rng.random() < 0.85 else ("df", ())
        elif r < 0.65: op = ("rf", pk("file", "file", "dir", "any"))
        elif r < 0.72: op = ("rd", pk("dir", "dir", "file", "any"))
        elif r < 0.81:
            src = pk("file", "file", "file", "dir", "any")
            op = ("mv", src, src if rng.random() < 0.08 else pk("new", "new", "file", "dir", "any"))
        elif r < 0.90:
            src = pk("file", "file", "file", "dir", "any")
            op = ("cp", src, src if rng.random() < 0.04 else pk("new", "new", "file", "dir", "any"))
        elif r < 0.94: op = ("pc", pk("file", "dir", "any"))
        elif r < 0.96: op = ("ps", rng.choice(["/a//b/", "", "a", "/", "a/b c/é", "日本/x.txt", "//"]))
        elif r < 0.97: op = ("pj", tuple(rng.choice(["", "a", "b c", "é", "x.txt"]) for _ in range(rng.choice([0, 1, 2, 3]))))
        else:
            bad = rng.choice(["atom", "var", "int"])
            k = rng.choice(["fe", "de", "fs", "df", "md", "mp", "rf", "rd", "pc", "mv", "cp", "mv2", "cp2"])
            p = pk("file", "any")
            if k in ("mv", "cp"): op = (k, (bad, p), pk("new"))
            elif k in ("mv2", "cp2"): op = (k[:2], pk("file", "file", "any"), (bad, p))
            else: op = (k, (bad, p))
        ops.append(op)
        if all(not (isinstance(a, tuple) and a and a[0] in ("atom", "var", "int")) for a in op[1:]):
            sim_apply(sim, op)
    return tuple(ops)


def is_bad(a):
    return isinstance(a, tuple) and len(a) == 2 and a[0] in ("atom", "var", "int") and isinstance(a[1], tuple)


def pl_str(s):
    return '"' + s.replace("\\", "\\\\").replace('"', '\\"') + '"'


def pl_path(root, a):
    if is_bad(a):
        if a[0] == "var": return "_"
        if a[0] == "int": return "42"
        return "'" + root + "".join("/" + x for x in a[1]) + "'"
    return pl_str(root + "".join("/" + x for x in a))


def pl_op(root, op):
    k = op[0]
    if k == "wf": return "wf(%s,[%s])" % (pl_path(root, op[1]), ",".join(str(b) for b in op[2]))
    if k == "ps": return "ps(%s)" % pl_str(op[1])
    if k == "pj": return "pj([%s])" % ",".join(pl_str(s) for s in op[1])
    return "%s(%s)" % (k, ",".join(pl_path(root, a) for a in op[1:]))


def coq_name(s): return "[" + "; ".join(str(ord(c)) for c in s) + "]"
def coq_path(p): return "[" + "; ".join(coq_name(x) for x in p) + "]"


def coq_parg(a):
    if is_bad(a):
        return {"atom": "PAtom %s" % coq_path(a[1]), "var": "PVar", "int": "PInt"}[a[0]]
    return "PChars %s" % coq_path(a)


COQ_OPS = {"fe": "FileExists", "de": "DirExists", "fs": "FileSize", "df": "DirFiles", "md": "MkDir", "mp": "MkDirPath", "rf": "DelFile",
           "rd": "DelDir", "mv": "Rename", "cp": "Copy", "pc": "Canonical"}


def coq_op(op):
    k = op[0]
    if k == "wf": return "WriteFile %s [%s]" % (coq_path(op[1]), "; ".join(str(b) for b in op[2]))
    if k == "ps": return "Split %s" % coq_name(op[1])
    if k == "pj": return "Join [%s]" % "; ".join(coq_name(s) for s in op[1])
    return "%s %s" % (COQ_OPS[k], " ".join("(%s)" % coq_parg(a) for a in op[1:]))


def text_of(t):
    """JSON term of a character list -> str or None"""
    if "s" in t: return t["s"]
    if "l" in t:
        out = []
        for x in t["l"]:
            if "a" in x and len(x["a"]) == 1: out.append(x["a"])
            else: return None
        return "".join(out)
    return None


def coq_res(t, root):
    if "a" in t:
        return {"true": "RTrue", "false": "RFalse", "inst": "RErr EInst", "open_error": "RErr EOpen"}.get(t["a"], "ROther")
    if "c" not in t: return "ROther"
    f, args = t["c"][0], t["c"][1:]
    if f == "size" and "i" in args[0]: return "RSize %s" % args[0]["i"]
    if f in ("names", "segs") and "l" in args[0]:
        ns = [text_of(x) for x in args[0]["l"]]
        if any(n is None for n in ns): return "ROther"
        return "%s [%s]" % ("RNames" if f == "names" else "RSegs", "; ".join(coq_name(n) for n in ns))
    if f == "joined":
        s = text_of(args[0])
        return "ROther" if s is None else "RChars %s" % coq_name(s)
    if f == "path":
        s = text_of(args[0])
        if s is None: return "ROther"
        if s == root: return "RPath []"
        if s.startswith(root + "/"): return "RPath %s" % coq_path(s[len(root) + 1:].split("/"))
        return "ROther"
    if f == "ee" and "a" in args[0]: return {"file": "RErr ExFile", "directory": "RErr ExDir"}.get(args[0]["a"], "ROther")
    if f == "te" and "a" in args[0]: return "RErr ETypeList" if args[0]["a"] == "list" else "ROther"
    return "ROther"


def read_tree(root):
    out = []
    for dp, dns, fns in os.walk(root):
        rel = os.path.relpath(dp, root)
        base = [] if rel == "." else rel.split("/")
        for dn in dns: out.append((base + [dn], None))
        for fn in fns: out.append((base + [fn], open(os.path.join(dp, fn), "rb").read()))
    return out


def coq_tree(tree):
    return "[" + "; ".join("(%s, %s)" % (coq_path(p), "Dir" if b is None else "File [%s]" % "; ".join(str(x) for x in b)) for p, b in tree) + "]"


def coq_eval_many(prop, exprs, tag="show"):
    d = os.path.join(core.WORK, prop, tag)
    shutil.rmtree(d, ignore_errors=True); os.makedirs(d)
    path = os.path.join(d, "many.v")
    with open(path, "w") as f:
        f.write("From Coq Require Import List ZArith NArith String Ascii.\nImport ListNotations.\n" + IMPORTS + "\n")
        for e in exprs: f.write("Eval vm_compute in (%s).\n" % e)
    rc, out = core.sh(["coqc", "-noglob", "-Q", core.COQ, "V", "-o", path + "o", path], timeout=900)
    vals = [re.sub(r"\s+", " ", p).strip() for p in re.split(r"(?m)^\s*= ", out)[1:]]
    return vals + ["(no value: %s)" % out[-300:]] * (len(exprs) - len(vals))


def coq_eval_ns(prop, exprs, chunk=300, tag="cases"):
    d = os.path.join(core.WORK, prop, tag)
    shutil.rmtree(d, ignore_errors=True); os.makedirs(d)
    groups = [list(range(i, min(i + chunk, len(exprs)))) for i in range(0, len(exprs), chunk)]
    out, errors = [None] * len(exprs), []

    def one(k):
        idx = groups[k]
        path = os.path.join(d, "s%d.v" % k)
        with open(path, "w") as f:
            f.write("From Coq Require Import List ZArith NArith String Ascii.\nImport ListNotations.\n" + IMPORTS + "\n")
            for j, i in enumerate(idx): f.write("Definition c%d : N := %s.\n" % (j, exprs[i]))
            f.write("Definition all : list N := [%s].\nEval vm_compute in all.\n" % "; ".join("c%d" % j for j in range(len(idx))))
        rc, txt = core.sh(["coqc", "-noglob", "-Q", core.COQ, "V", "-o", path + "o", path], timeout=900)
        m = re.search(r"=\s*\[(.*?)\]\s*:\s*list N", txt, re.S)
        if rc != 0 or not m: return k, None, txt[-1500:]
        return k, [int(x) for x in re.findall(r"\d+", m.group(1))], None
    with ThreadPoolExecutor(max_workers=max(1, core.NPROC)) as ex:
        for k, vals, e in ex.map(one, range(len(groups))):
            if vals is None or len(vals) != len(groups[k]): errors.append((k, e or "wrong count"))
            else:
                for i, v in zip(groups[k], vals): out[i] = v
    return out, errors


CORPUS = [
    (("wf", ("x.txt",), "hé".encode()), ("cp", ("x.txt",), ("x.txt",)), ("fs", ("x.txt",))),
    (("mp", ("a", "b", "c")), ("wf", ("a", "b", "c", "x.txt"), b"hi\n"), ("cp", ("a", "b", "c", "x.txt"), ("é",)), ("mv", ("é",), ("a", "日本")),
     ("df", ("a",)), ("rd", ("a", "b")), ("rf", ("a", "b", "c", "x.txt")), ("rd", ("a", "b", "c")), ("rd", ("a", "b")), ("fs", ("a", "日本")), ("pc", ("a", "日本"))),
    (("md", ("a",)), ("md", ("a",)), ("md", ("q", "r")), ("wf", ("a", "b c"), b"x"), ("mp", ("a", "b c", "k")), ("rf", ("a",)), ("rd", ("nope",)),
     ("mv", ("a",), ("z",)), ("fe", ("atom", ("a",))), ("de", ("var", ("a",))), ("df", ("a", "b c"))),
]


def run(ctx):
    rng = ctx.rng
    n = ctx.scale(1500, 30000)
    cases, seen = list(CORPUS), set()
    while len(cases) < n:
        c = gen_case(rng)
        if repr(c) in seen: continue
        seen.add(repr(c)); cases.append(c)
    d = "/var/tmp/verif_C48_%d" % os.getpid()
    shutil.rmtree(d, ignore_errors=True)
    os.makedirs(d)
    d = os.path.realpath(d)
    failures, tie_breaks = [], []
    trees = {}
    try:
        jobs, per = [], 40
        for j in range(0, len(cases), per):
            qs = []
            for i in range(j, min(j + per, len(cases))):
                root = os.path.join(d, "c%d" % i)
                os.makedirs(root)
                qs.append("c48_run([%s], Rs)." % ",".join(pl_op(root, o) for o in cases[i]))
            jobs.append({"id": "j%d" % j, "consult": DRIVER, "fresh": True, "timeout_ms": 30000, "max_answers": 2, "queries": qs})
        res = core.vrun_query(ctx.prop, jobs, tag="q")
        for i in range(len(cases)):
            trees[i] = read_tree(os.path.join(d, "c%d" % i))
    finally:
        shutil.rmtree(d, ignore_errors=True)
    exprs, idx, obs = [], [], {}
    dist = {"ops": {}, "outcomes": {}, "final_entries": {}, "self_copy": 0}
    nontriv = 0
    for j in range(0, len(cases), per):
        rec = res.get("j%d" % j, {})
        rs = rec.get("results") or []
        for off, i in enumerate(range(j, min(j + per, len(cases)))):
            root = os.path.join(d, "c%d" % i)
            q = "c48_run([%s], Rs)." % ",".join(pl_op("<root>", o) for o in cases[i])
            ans = rs[off] if off < len(rs) else None
            if not ans or not isinstance(ans[0], dict) or "b" not in ans[0] or "l" not in ans[0]["b"].get("Rs", {}):
                failures.append({"key": "files:no-answer", "what": "the operation sequence did not produce an answer (crash, hang, uncaught error)", "input": q,
                                 "impl": json.dumps(ans if ans is not None else rec)[:400], "spec": "one answer", "property_fails": True})
                continue
            terms_ = ans[0]["b"]["Rs"]["l"]
            robs = [coq_res(t, root) for t in terms_]
            obs[i] = (terms_, robs)
            exprs.append("[%s] [%s] %s" % ("; ".join(coq_op(o) for o in cases[i]), "; ".join(robs), coq_tree(trees[i])))
            idx.append(i)
            for o, r in zip(cases[i], robs):
                dist["ops"][o[0]] = dist["ops"].get(o[0], 0) + 1
                key = r.split(" ")[0] + (" " + r.split(" ")[1] if r.startswith("RErr") else "")
                dist["outcomes"][key] = dist["outcomes"].get(key, 0) + 1
            ne = min(len(trees[i]), 8)
            dist["final_entries"][ne] = dist["final_entries"].get(ne, 0) + 1
            if any(o[0] == "cp" and o[1] == o[2] for o in cases[i]): dist["self_copy"] += 1
            changing = sum(1 for o, r in zip(cases[i], robs) if o[0] in ("wf", "md", "mp", "rf", "rd", "mv", "cp") and r == "RTrue")
            if changing >= 2: nontriv += 1
    vals, errs = coq_eval_ns(ctx.prop, ["explain " + e for e in exprs], chunk=250)
    for _, t in errs:
        tie_breaks.append({"kind": "coq-eval", "what": "model evaluation shard failed", "detail": t[-1500:]})
    pending, per_key, explained = [], {}, {}
    for j, m in enumerate(vals):
        explained[m] = explained.get(m, 0) + 1
        if m in (None, 0): continue
        i = idx[j]
        q = "c48_run([%s], Rs)." % ",".join(pl_op("<root>", o) for o in cases[i])
        impl = "Rs=[%s] final tree=%s" % (",".join(core.term_text(t) for t in obs[i][0]), [("/".join(p), None if b is None else list(b)) for p, b in trees[i]])
        key = "file_copy:onto-itself-truncates-the-file" if m == 1 else "files:mismatch"
        what = ("file_copy(F, F) (source and target the same existing file) succeeds and leaves the file EMPTY: the content is lost"
                if m == 1 else "answers or final directory tree differ from the file-system model")
        if per_key.get(key, 0) < (2 if m == 1 else 8):
            per_key[key] = per_key.get(key, 0) + 1
            pending.append(({"key": key, "what": what, "input": q, "impl": impl[:1500], "spec": "", "property_fails": True}, exprs[j]))
    if pending:
        shown = coq_eval_many(ctx.prop, ["run_case " + e for _, e in pending])
        for (f, _), v in zip(pending, shown):
            f["spec"] = "(reference model: answers, final map) " + v[:1500]
            failures.append(f)
    dist["explained"] = {str(k): v for k, v in explained.items()}
    samples = [{"query": "c48_run([%s], Rs)." % ",".join(pl_op("<root>", o) for o in cases[i]), "impl": ",".join(core.term_text(t) for t in obs[i][0])[:300]}
               for i in list(obs)[:2] + list(obs)[5:8]]
    return {"evaluations": len(exprs), "distinct_nontrivial": nontriv,
            "rule": ("a case = a sequence of 3..12 operations (the twelve predicates + writing a file through open/put_byte/close) inside its own fresh scratch "
                     "directory, over paths of depth 1-3 built from the names a, 'b c', é, 日本, x.txt, b, c; paths aim at existing files/directories, new entries "
                     "below existing directories, or are random; 3% of the path arguments are ill-typed (atom, integer, variable). Each answer and the final "
                     "tree (os.walk + contents) are compared with the model in Coq. Non-trivial = distinct sequence with at least two successful state-changing operations."),
            "samples": samples, "distribution": dist, "failures": failures, "tie_breaks": tie_breaks}
